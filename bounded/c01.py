"""C01 bounded stand-in: the markup produced by emmet.expand has exactly the element tree that the
operators `>`, `+`, `^`, `( )` and `*N` denote, with the documented implicit names.

Every case is an abbreviation AST (see c01_gen).  The abbreviation text is printed FROM the AST, the
expected forest is the AST's denotation (an executable reading of the statement); the observation is
the forest recovered from expand()'s output by the independent tag parser in c01_gen -- under the
html / xml / xhtml self-closing styles x `output.format` on / off (all six inside one case).
"""
import random

from .common import Clause, run_parallel
from . import c01_gen as G

CONFIGS = [(syntax, fmt) for syntax in ('html', 'xml', 'xhtml') for fmt in (True, False)]


def check_tree(ast, extra, which=None):
    """ast: abbreviation AST; extra: additional `^` written on every top-level join; which: None = all six
    configurations, 0..2 = one pair of them (two different syntaxes, output.format on and off)"""
    from emmet import expand
    abbr = G.print_abbr(ast, extra)
    expected = G.denote(ast)
    for syntax, fmt in (CONFIGS if which is None else (CONFIGS[which % 6], CONFIGS[(which + 3) % 6])):
        config = {'syntax': syntax, 'options': {'output.format': fmt}}
        if not fmt:
            config['cache'] = {}        # a (fresh) user cache must not matter: present in every format-off call
        out = expand(abbr, config)
        try:
            got = G.shape(G.parse_markup(out, void_without_slash=(syntax == 'html')))
        except G.MarkupError as e:
            return 'expand(%r, syntax=%s, output.format=%s) is not well-nested markup (%s): %r' % (abbr, syntax, fmt, e, out)
        diff = G.first_difference(expected, got)
        if diff:
            return 'expand(%r, syntax=%s, output.format=%s): %s; expected tree %s, got %s (output %r)' % (
                abbr, syntax, fmt, diff, G.show(expected), G.show(got), out)
    return None


# ----------------------------------------------------------------------------- self-closing elements as parents
def check_tree_sc(ast, extra, which=None):
    """check_tree for ASTs in which self-closing elements (HTML void names, trailing `/`) have children.
    The xml / xhtml styles are read as they stand (`<br/>` complete, `<br>` open).  The html style writes
    an empty self-closing element as a lone `<br>`, so there the expected tree decides how the k-th start
    tag is read (G.lone_flags: complete iff the k-th denoted element is self-closing and empty): the
    output must admit the denoted tree as a reading."""
    from emmet import expand
    abbr = G.print_abbr(ast, extra)
    expected = G.denote(ast)
    lone = G.lone_flags(ast)
    for syntax, fmt in (CONFIGS if which is None else (CONFIGS[which % 6], CONFIGS[(which + 3) % 6])):
        config = {'syntax': syntax, 'options': {'output.format': fmt}}
        if not fmt:
            config['cache'] = {}
        out = expand(abbr, config)
        try:
            got = G.shape(G.parse_markup(out, lone_tags=lone if syntax == 'html' else None))
        except G.MarkupError as e:
            return 'expand(%r, syntax=%s, output.format=%s) is not well-nested markup with the expected tree %s (%s): %r' % (
                abbr, syntax, fmt, G.show(expected), e, out)
        diff = G.first_difference(expected, got)
        if diff:
            return 'expand(%r, syntax=%s, output.format=%s): %s; expected tree %s, got %s (output %r)' % (
                abbr, syntax, fmt, diff, G.show(expected), G.show(got), out)
    return None


def random_sc_cases(seed, count, nmin, nmax):
    rng = random.Random(seed * 1000003 + 401)
    done = 0
    while done < count:
        n = rng.randint(nmin, nmax)
        ast = G.random_ast(rng, n, implicit_p=rng.choice((0.0, 0.3, 0.6)), void_p=0.3, group_p=rng.choice((0.1, 0.3)))
        if not G.make_parents_self_closing(rng, ast):
            continue
        done += 1
        extra = rng.choice((0, 0, 0, 1, 2)) if len(ast) > 1 else 0
        yield (ast, extra, done % 3)


# ----------------------------------------------------------------------------- call histories with snippets
# Elements whose name is a multi-level snippet, with children attached, expanded several times with
# shared caller state (a `cache` dict, the config dict, a Config object).  Every call of a history must
# yield the tree its own abbreviation denotes -- nothing written in an earlier call may show up.
USER_SNIPPETS = {'card': 'section.card>div.card-body', 'deep': 'ul.l1>li.l2>a.l3'}
# what the two user snippets denote (written from their definitions): [name, id, class, children]
USER_MACROS = {'card': [['section', None, 'card', [['div', None, 'card-body', []]]]],
               'deep': [['ul', None, 'l1', [['li', None, 'l2', [['a', None, 'l3', []]]]]]]}
BUILTIN_SNIPPETS = ['doc', '!', 'html:5']       # html>(head>...)+body, the last two with a doctype in front
HISTORY_MODES = ['cache-shared', 'dict-shared', 'plain-shared', 'Config-shared']


def _deepest(forest):
    """the element a snippet's user children go to: last top-level element, then last child down to a leaf"""
    node = forest[-1]
    while node[3]:
        node = node[3][-1]
    return node


def _copy_forest(forest):
    return [[n[0], n[1], n[2], _copy_forest(n[3])] for n in forest]


def denote_with_snippets(items, macros, parent=''):
    """G.denote, plus: an element whose name is a key of `macros` stands for that forest, its children
    nest inside the forest's deepest element (exactly once per repetition)"""
    out = []
    for it in items:
        if it[0] == 'g':
            for _ in range(1 if it[1] is None else it[1]):
                out += denote_with_snippets(it[2], macros, parent)
            continue
        _, head, rep, children = it
        name = head.get('name')
        for _ in range(1 if rep is None else rep):
            if name in macros:
                inst = _copy_forest(macros[name])
                target = _deepest(inst)
                target[3] += denote_with_snippets(children, macros, target[0])
                out += inst
            else:
                nm = name if name is not None else G.implicit_name(parent)
                out.append([nm, head.get('id'), ' '.join(head.get('cls', ())) or None,
                            denote_with_snippets(children, macros, nm)])
    return out


def history_templates(S, S2):
    """abbreviation ASTs around the snippet element S (S2: a second snippet name or None)"""
    E, Gr = G.E, G.G
    c = E(cls=['c'])
    out = [
        [E(S)],                                                 # S
        [E(S, [E('p')])],                                       # S>p
        [E(S, [E('p'), E('em')])],                              # S>p+em
        [E(S, [E('ul', [E(cls=['c'], rep=2)])])],               # S>ul>.c*2
        [E(S, [c])],                                            # S>.c          (implicit below the snippet's deepest element)
        [E(S, [E('p')], 2)],                                    # S*2>p
        [E('div', [E(S, [E('p')])])],                           # div>S>p
        [Gr([E(S, [E('i')])], 2)],                              # (S>i)*2
        [E(S, [Gr([E('p'), E('em')], 2)])],                     # S>(p+em)*2
        [E(S, [E('p', [E('b')]), E('i')])],                     # S>p>b^i
        [E('p'), E(S, [E('em')])],                              # p+S>em
        [E('table', [E('tr')])],                                # table>tr      (no snippet at all)
    ]
    if S2:
        out.append([E(S, [E(S2, [E('p')])])])                   # S>S2>p
        out.append([E(S2, [E('b')]), E(S, [E('b')])])           # S2>b^S>b
    return out


def history_cases(ntails):
    """every ordered pair of templates, alone / followed by the bare snippet / (ntails == 3) by snippet>p,
    per snippet name and sharing mode; the configuration pair rotates"""
    idx = 0
    for S, S2 in [('doc', None), ('!', None), ('html:5', 'doc'), ('card', 'deep'), ('deep', 'card')]:
        ts = history_templates(S, S2)
        for t1 in ts:
            for t2 in ts:
                for tail in ([], [ts[0]], [ts[1]])[:ntails]:
                    for mode in HISTORY_MODES:
                        idx += 1
                        yield ([t1, t2] + tail, mode, idx % 3)


_REFERENCE = {}     # (built-in snippet name, syntax, format) -> its forest, from the first fresh call in this process


def check_history(asts, mode, which):
    """asts: the abbreviations of consecutive expand() calls; mode: what the calls share"""
    from emmet import expand
    from emmet.config import Config
    for syntax, fmt in (CONFIGS[which % 6], CONFIGS[(which + 3) % 6]):
        def fresh(cache=None):
            cfg = {'syntax': syntax, 'options': {'output.format': fmt}, 'snippets': dict(USER_SNIPPETS)}
            if cache is not None:
                cfg['cache'] = cache
            return cfg
        # what the built-in snippets stand for: read from a call of the bare name with fresh state (data of
        # the snippet table, not behaviour); the user snippets are denoted from their definitions
        macros = dict(USER_MACROS)
        for name in BUILTIN_SNIPPETS:
            if (name, syntax, fmt) not in _REFERENCE:
                _REFERENCE[(name, syntax, fmt)] = G.shape(G.parse_markup(expand(name, fresh()), void_without_slash=(syntax == 'html')))
            macros[name] = _REFERENCE[(name, syntax, fmt)]
        cache = {}
        shared = {'cache-shared': None, 'dict-shared': fresh(cache), 'plain-shared': fresh()}.get(mode)
        if mode == 'Config-shared':
            shared = Config(fresh(cache))
        for step, ast in enumerate(asts):
            abbr = G.print_abbr(ast)
            out = expand(abbr, shared if shared is not None else fresh(cache))
            where = 'call %d of the history %r (%s, syntax=%s, output.format=%s): expand(%r)' % (
                step + 1, [G.print_abbr(a) for a in asts], mode, syntax, fmt, abbr)
            try:
                got = G.shape(G.parse_markup(out, void_without_slash=(syntax == 'html')))
            except G.MarkupError as e:
                return '%s is not well-nested markup (%s): %r' % (where, e, out)
            expected = denote_with_snippets(ast, macros)
            diff = G.first_difference(expected, got)
            if diff:
                return '%s: %s; expected tree %s, got %s (output %r)' % (where, diff, G.show(expected), G.show(got), out)
    return None


# ----------------------------------------------------------------------------- implicit-name table
BLOCK_PARENTS = ['div', 'section', 'li', 'td', 'th', 'option', 'article', 'blockquote', 'body', 'dl', 'h1', 'x-foo', 'main']
# inline parents the statement covers: the documented inline list, without the HTML void elements
# (cannot have children), without select (own rule) and without map/object (the library documents
# other names there and the statement does not speak about them)
INLINE_PARENTS = [n for n in G.INLINE if n not in G.VOID and n not in G.UNCONSTRAINED_PARENTS and n != 'select']
TABLE_PARENTS = sorted(G.IMPLICIT) + ['p']


def implicit_contexts(P):
    """abbreviation ASTs that put nameless elements below a parent called P (None: at the top level)"""
    E, Gr = G.E, G.G

    def under(children, rep=None):
        return [E(P, children, rep)] if P else list(children)
    c, d = E(cls=['c']), E(cls=['d'])
    out = [
        under([c]),                                            # P>.c
        under([E(id='i')]),                                    # P>#i
        under([E(attrs=[['title', 't']])]),                    # P>[title=t]
        under([E(cls=['c', 'k'])]),                            # P>.c.k
        under([E(cls=['c'], rep=3)]),                          # P>.c*3
        under([Gr([c])]),                                      # P>(.c)
        under([Gr([c, d], 2)]),                                # P>(.c+.d)*2
        under([c], 2),                                         # P*2>.c
        [Gr(under([c]), 2)],                                   # (P>.c)*2
        under([E('div'), c]),                                  # P>div+.c
        under([E('div', [E('div')]), c]),                      # P>div>div^.c
        under([E('em', [E('div', [E('b')])]), c]),             # P>em>div>b^^.c
        under([E(cls=['c'], children=[d])]),                   # P>.c>.d     (parent is itself implicit)
        under([E(cls=['c'], children=[E(cls=['d'], children=[E(cls=['e'])])])]),   # P>.c>.d>.e
        [E('div', under([c]))],                                # div>P>.c
        [E('ul', under([c]))],                                 # ul>P>.c     (grandparent must not matter)
        under([Gr([Gr([c], 2), d])]),                          # P>((.c)*2+.d)
    ]
    return out


def implicit_cases():
    for P in [None] + TABLE_PARENTS + INLINE_PARENTS + BLOCK_PARENTS:
        for ast in implicit_contexts(P):
            yield (ast, 0)


# ----------------------------------------------------------------------------- climb clamp
def clamp_cases(spaces):
    """skeletons whose outermost sequence has at least two items, with 1..3 surplus `^` on every
    top-level join: each `^` beyond the top level must be absorbed there"""
    idx = 0
    for n, gmax, rmax in spaces:
        for g in range(0, gmax + 1):
            for skel in G.skeletons(n, g):
                if len(skel) < 2:
                    continue
                m = G.count_nodes(skel)
                for reps in G.rep_assignments(m, rmax, (2,)):
                    idx += 1
                    for extra in (1, 2, 3):
                        yield (G.decorate(skel, reps, (idx + extra) % 4, idx), extra)


# ----------------------------------------------------------------------------- random beyond the bound
def random_cases(seed, count, nmin, nmax):
    rng = random.Random(seed)
    for i in range(count):
        n = rng.randint(nmin, nmax)
        ast = G.random_ast(rng, n, implicit_p=rng.choice((0.0, 0.3, 0.6)), void_p=0.3, group_p=rng.choice((0.1, 0.3)))
        extra = rng.choice((0, 0, 0, 1, 2)) if len(ast) > 1 else 0
        yield (ast, extra)


def run(tier, seed):
    if tier == 'quick':
        plan = [([(1, 2, 2), (2, 2, 2), (3, 2, 2)], None, False), ([(4, 2, 2)], 1, True), ([(5, 1, 1)], 1, True)]
        clamp = [(2, 1, 1), (3, 1, 1), (4, 1, 1)]
        nrand, rmin, rmax = 1000, 6, 40
        ntails = 2
        scplan = [([(2, 2, 2), (3, 2, 1)], None, False), ([(4, 1, 1)], 2, True)]
        nscrand = 300
    else:
        plan = [([(1, 2, 3), (2, 2, 3), (3, 2, 3), (4, 2, 2)], None, False), ([(5, 2, 2)], 1, False), ([(6, 2, 1)], 1, False), ([(7, 0, 2)], 1, False)]
        clamp = [(2, 2, 2), (3, 2, 2), (4, 2, 2), (5, 1, 1)]
        nrand, rmin, rmax = 10000, 6, 40
        ntails = 3
        scplan = [([(2, 2, 3), (3, 2, 2)], None, False), ([(4, 2, 2)], 1, False), ([(5, 1, 1)], 1, False)]
        nscrand = 3000
    out = []

    def fmt(spaces):
        return '; '.join('%d elements, <=%d groups, <=%d repeaters' % s for s in spaces)

    def vname(v):
        return 'all five naming variants' if v is None else '%d of the five naming variants, rotating with the case index' % v

    c = Clause('skeleton-exhaustive', 'B',
               'every operator skeleton (ordered forest of elements; any run of siblings may be wrapped in a group, groups '
               'nest; *2/*3 on elements and groups), abbreviation printed from the tree with >, +, ^-climbs and ( )',
               ' | '.join('%s: %s, %s' % (fmt(sp), vname(v), 'one rotating pair of configurations (two syntaxes; format on + off)'
                                          if pair else 'all 6 configurations html/xml/xhtml x output.format on/off') for sp, v, pair in plan),
               'a case is one abbreviation AST (skeleton x repeater placement x naming variant: all named / odd implicit / '
               'even implicit / all implicit / void leaves); distinct by AST; the configurations are evaluated inside the case; '
               'every output.format-off call also carries a fresh `cache: {}`', exhaustive=True)
    for sp, v, pair in plan:
        cases = G.exhaustive_cases(sp, v)
        if pair:
            cases = ((ast, extra, i % 3) for i, (ast, extra) in enumerate(cases))
        run_parallel(c, 'bounded.c01', 'check_tree', cases, chunk=400)
    out.append(c.done())

    def scname(v):
        return 'all six self-closing variants' if v is None else '%d of the six self-closing variants, rotating with the case index' % v

    c = Clause('self-closing-parents', 'B',
               'every operator skeleton in which at least one element has children, the elements with children being self-closing: '
               'an HTML void name (br hr img input link meta col area param source embed base basefont) or any name / a nameless '
               'element written with a trailing `/`; leaves ordinary, void, nameless (implicit name below a void parent) or with `/`; '
               'plus seeded random ASTs of %d..%d elements whose parents are made self-closing with probability 0.7' % (rmin, 30),
               ' | '.join('%s: %s, %s' % (fmt(sp), scname(v), 'one rotating pair of configurations' if pair else 'all 6 configurations')
                          for sp, v, pair in scplan) + ' | %d random cases, seed %d, one rotating pair of configurations' % (nscrand, seed),
               'a case is one abbreviation AST; expected forest = denotation of the AST (a self-closing element is an element like any '
               'other: what follows `>` nests inside it); xml/xhtml output read as it stands, html output read with the lone start tags '
               'the denoted tree prescribes', exhaustive=False)
    for sp, v, pair in scplan:
        cases = G.void_parent_cases(sp, v)
        if pair:
            cases = ((ast, extra, i % 3) for i, (ast, extra) in enumerate(cases))
        run_parallel(c, 'bounded.c01', 'check_tree_sc', cases, chunk=200)
    run_parallel(c, 'bounded.c01', 'check_tree_sc', random_sc_cases(seed, nscrand, rmin, 30), chunk=20)
    out.append(c.done())

    c = Clause('snippet-call-histories', 'B',
               'histories of 2-3 expand() calls that share caller state; the abbreviations put children below an element whose name '
               'is a multi-level snippet (built-in doc, !, html:5; user snippets card: section.card>div.card-body, deep: ul.l1>li.l2>a.l3); '
               'EVERY call must yield the tree its own abbreviation denotes',
               '5 snippet names x (12 or 14 templates)^2 ordered pairs x %d endings (none, bare snippet, snippet>p)[:%d] x 4 sharing modes %r; '
               'one rotating pair of configurations (two syntaxes; format on + off)' % (ntails, ntails, HISTORY_MODES),
               'a case is (list of abbreviation ASTs, sharing mode, configuration pair); a fresh cache / config per configuration', exhaustive=True)
    run_parallel(c, 'bounded.c01', 'check_history', history_cases(ntails), chunk=100)
    out.append(c.done())

    c = Clause('implicit-name-table', 'B',
               'every parent name the statement lists (ul ol table tbody thead tfoot tr select optgroup p, every default inline '
               'element that can have children) + %d block names + the top level, x 17 ways to place nameless elements below it '
               '(direct, id-only, attribute-only, repeated, in groups, after siblings, after climbs, below implicit parents)' % len(BLOCK_PARENTS),
               '%d parents x 17 contexts x 6 configurations' % (1 + len(TABLE_PARENTS) + len(INLINE_PARENTS) + len(BLOCK_PARENTS)),
               'a case is one (parent, context) abbreviation; the "div otherwise" rule is sampled by the listed block names', exhaustive=True)
    run_parallel(c, 'bounded.c01', 'check_tree', implicit_cases(), chunk=60)
    out.append(c.done())

    c = Clause('climb-clamp', 'B',
               'skeletons with >= 2 top-level items; 1, 2 or 3 surplus ^ written on every top-level join',
               fmt(clamp) + ' (repeaters *2), surplus 1..3', 'a case is (AST, surplus); distinct by both', exhaustive=True)
    run_parallel(c, 'bounded.c01', 'check_tree', clamp_cases(clamp), chunk=400)
    out.append(c.done())

    c = Clause('random-large', 'B', 'seeded random ASTs (random grouping, *2/*3 with nested product <= 12, implicit / void / id / class mix)',
               '%d cases of %d..%d elements, seed %d' % (nrand, rmin, rmax, seed), 'a case is (AST, surplus climbs)', exhaustive=False)
    run_parallel(c, 'bounded.c01', 'check_tree', random_cases(seed, nrand, rmin, rmax), chunk=25)
    out.append(c.done())
    return out
