"""Shared pieces for the C01 / C02 / C15 bounded modules.  Nothing here imports the library.

* an abbreviation AST ("operator skeleton"), JSON-serialisable:
      item  = ['e', head, rep, children]      an element; rep is None or an int; children = [item...]
            | ['g', rep, children]            a group `( ... )`
      head  = {'name': str|None, 'id': str, 'cls': [str...], 'attrs': [[key, value]...], 'text': str, 'close': bool}
              (every key optional; an element without a name is an *implicit* one; 'close' writes a
              trailing `/`; a head with nothing but 'text' is a text-only node -- used by C15 only)
* print_abbr(): the abbreviation text written FROM the AST (`>`, `+`, `^`, groups, `*N`)
* denote(): the element forest the operators denote (the C01 statement, executable)
* parse_markup(): a small independent tag parser for the produced markup
* enumerators for skeletons, repeater placements and names; seeded random big skeletons
"""
import itertools
from functools import lru_cache

# ----------------------------------------------------------------------------- implicit names
# From the C01 statement: li in ul/ol, tr in table/tbody/thead/tfoot, td in tr, option in
# select/optgroup, span inside p and inside inline elements, div otherwise.
IMPLICIT = {'ul': 'li', 'ol': 'li', 'table': 'tr', 'tbody': 'tr', 'thead': 'tr', 'tfoot': 'tr',
            'tr': 'td', 'select': 'option', 'optgroup': 'option'}
# documented default of the `inlineElements` option
INLINE = ['a', 'abbr', 'acronym', 'applet', 'b', 'basefont', 'bdo', 'big', 'br', 'button', 'cite', 'code',
          'del', 'dfn', 'em', 'font', 'i', 'iframe', 'img', 'input', 'ins', 'kbd', 'label', 'map', 'object',
          'q', 's', 'samp', 'select', 'small', 'span', 'strike', 'strong', 'sub', 'sup', 'textarea', 'tt',
          'u', 'var']
# parents for which the implementation documents further names the statement does not speak about
UNCONSTRAINED_PARENTS = {'colgroup', 'audio', 'video', 'object', 'map'}
# elements HTML writes without a closing tag (the built-in snippets mark them self-closing)
VOID = {'br', 'img', 'input', 'hr', 'basefont', 'meta', 'link', 'col', 'area', 'param', 'source', 'embed', 'base'}


def implicit_name(parent):
    """name of an element written without a name below an element called `parent` ('' = top level)"""
    if parent in IMPLICIT:
        return IMPLICIT[parent]
    if parent == 'p' or parent in INLINE:
        return 'span'
    return 'div'


# ----------------------------------------------------------------------------- AST helpers
def E(name=None, children=(), rep=None, **head):
    h = {}
    if name is not None:
        h['name'] = name
    for k, v in head.items():
        if v is not None and v != [] and v != ():
            h[k] = list(v) if isinstance(v, tuple) else v
    return ['e', h, rep, list(children)]


def G(children, rep=None):
    return ['g', rep, list(children)]


def has_attributes(head):
    return bool(head.get('id') is not None or head.get('cls') or head.get('attrs'))


def count_elements(items):
    n = 0
    for it in items:
        n += (1 + count_elements(it[3])) if it[0] == 'e' else count_elements(it[2])
    return n


# ----------------------------------------------------------------------------- printing
def _rep(rep):
    return '' if rep is None else '*%d' % rep


def _attr_value(v):
    if v is None:
        return ''
    if v == '' or any(ch in v for ch in ' \t"]'):
        return "='%s'" % v if '"' in v else '="%s"' % v
    return '=' + v


def head_str(h):
    s = h.get('name') or ''
    if h.get('id') is not None:
        s += '#' + h['id']
    for c in h.get('cls', ()):
        s += '.' + c
    if h.get('attrs'):
        s += '[' + ' '.join(k + _attr_value(v) for k, v in h['attrs']) + ']'
    if h.get('text') is not None:
        s += '{' + h['text'] + '}'
    if h.get('close'):
        s += '/'
    return s


def _print_items(items, top, extra):
    """-> (text, delta): delta = number of levels the parser's context is below this sequence's
    own level after the last item (each `>` goes one level down, a group is a unit)"""
    parts = []
    delta = 0
    for idx, it in enumerate(items):
        if idx:
            climbs = delta + (extra if top else 0)
            parts.append('^' * climbs if climbs else '+')
        s, delta = _print_item(it)
        parts.append(s)
    return ''.join(parts), delta


def _print_item(it):
    if it[0] == 'g':
        s, _ = _print_items(it[2], False, 0)
        return '(' + s + ')' + _rep(it[1]), 0
    _, head, rep, children = it
    s = head_str(head) + _rep(rep)
    if children:
        cs, d = _print_items(children, False, 0)
        return s + '>' + cs, d + 1
    return s, 0


def print_abbr(items, extra=0):
    """the abbreviation for the AST.  Consecutive items are joined by `+` when the context is at the
    sequence's level, else by exactly as many `^` as needed to come back to it; `extra` more `^` are
    written on every join of the outermost sequence (they must be absorbed by the top level)."""
    return _print_items(items, True, extra)[0]


# ----------------------------------------------------------------------------- denotation (C01)
def denote(items, parent=''):
    """the element forest denoted by the AST: nodes [name, id, classes, children]"""
    out = []
    for it in items:
        if it[0] == 'g':
            for _ in range(1 if it[1] is None else it[1]):
                out += denote(it[2], parent)
        else:
            _, head, rep, children = it
            name = head.get('name')
            if name is None:
                name = implicit_name(parent)
            for _ in range(1 if rep is None else rep):
                out.append([name, head.get('id'), ' '.join(head.get('cls', ())) or None, denote(children, name)])
    return out


def is_self_closing(head):
    """an element is self-closing when it is written with a trailing `/` or bears the name of an HTML
    void element (its built-in snippet ends in `/`); a nameless element only by the trailing `/`"""
    return bool(head.get('close')) or head.get('name') in VOID


def lone_flags(items):
    """one boolean per denoted element, in document order (same traversal as denote): true when the
    element is self-closing and has neither children nor text -- the only elements that the `html`
    self-closing style writes as a lone start tag `<br>`, which no parser can tell from an open tag"""
    out = []
    for it in items:
        if it[0] == 'g':
            out += lone_flags(it[2]) * (1 if it[1] is None else it[1])
        else:
            _, head, rep, children = it
            one = [is_self_closing(head) and not children and head.get('text') is None] + lone_flags(children)
            out += one * (1 if rep is None else rep)
    return out


# ----------------------------------------------------------------------------- independent tag parser
class MarkupError(Exception):
    pass


def parse_markup(s, void_without_slash=False, lone_tags=None):
    """-> forest of nodes [name, attrs, text, children]; attrs = list of [key, value|None]; text = the
    element's own character data with the markup removed.  Comments are skipped.  With
    `void_without_slash` an open tag of an HTML void element (`<br>`) is a complete element.
    `lone_tags` (a list of booleans, or None) is the other way to read slash-less markup: the k-th start
    tag of the document (k counts every start tag, `<x>` and `<x/>`, in document order) is a complete
    element when lone_tags[k] is true; a start tag beyond the list is read as an ordinary open tag."""
    root = ['', [], [], []]
    stack = [root]
    nstart = 0
    i, n = 0, len(s)
    while i < n:
        lt = s.find('<', i)
        if lt < 0:
            stack[-1][2].append(s[i:])
            break
        if lt > i:
            stack[-1][2].append(s[i:lt])
        if s.startswith('<!--', lt):
            end = s.find('-->', lt + 4)
            if end < 0:
                raise MarkupError('unterminated comment at %d' % lt)
            i = end + 3
            continue
        if s.startswith('<!', lt) or s.startswith('<?', lt):
            # declaration / processing instruction (`<!DOCTYPE html>`): not an element
            end = s.find('>', lt)
            if end < 0:
                raise MarkupError('unterminated declaration at %d' % lt)
            i = end + 1
            continue
        j = lt + 1
        closing = j < n and s[j] == '/'
        if closing:
            j += 1
        k = j
        while k < n and (s[k].isalnum() or s[k] in '-_:.'):
            k += 1
        name = s[j:k]
        if not name:
            raise MarkupError('stray "<" at %d' % lt)
        attrs = []
        selfclose = False
        while True:
            while k < n and s[k].isspace():
                k += 1
            if k >= n:
                raise MarkupError('unterminated tag at %d' % lt)
            if s[k] == '>':
                k += 1
                break
            if s[k] == '/' and s[k + 1:k + 2] == '>':
                selfclose = True
                k += 2
                break
            a = k
            while k < n and not s[k].isspace() and s[k] not in '=>/':
                k += 1
            key = s[a:k]
            if not key:
                raise MarkupError('bad character %r in tag at %d' % (s[k], k))
            val = None
            if k < n and s[k] == '=':
                k += 1
                if k < n and s[k] in '"\'':
                    e = s.find(s[k], k + 1)
                    if e < 0:
                        raise MarkupError('unterminated attribute value at %d' % k)
                    val = s[k + 1:e]
                    k = e + 1
                elif k < n and s[k] == '{':
                    e = s.find('}', k)
                    if e < 0:
                        raise MarkupError('unterminated attribute expression at %d' % k)
                    val = s[k:e + 1]
                    k = e + 1
                else:
                    a = k
                    while k < n and not s[k].isspace() and s[k] != '>':
                        k += 1
                    val = s[a:k]
            attrs.append([key, val])
        i = k
        if closing:
            if attrs or selfclose:
                raise MarkupError('close tag with attributes at %d' % lt)
            if len(stack) == 1 or stack[-1][0] != name:
                raise MarkupError('close tag </%s> at %d does not match open <%s>' % (name, lt, stack[-1][0]))
            stack.pop()
        else:
            node = [name, attrs, [], []]
            stack[-1][3].append(node)
            lone = lone_tags is not None and nstart < len(lone_tags) and lone_tags[nstart]
            nstart += 1
            if not selfclose and not lone and not (void_without_slash and name.lower() in VOID):
                stack.append(node)
    if len(stack) != 1:
        raise MarkupError('unclosed <%s>' % stack[-1][0])

    def fin(node):
        node[2] = ''.join(node[2])
        for c in node[3]:
            fin(c)
    fin(root)
    return root[3]


def attr(node, key):
    for k, v in node[1]:
        if k == key:
            return v
    return None


def shape(forest):
    """parsed forest -> nodes [name, id, class, children] (the observation C01 compares)"""
    return [[nd[0], attr(nd, 'id'), attr(nd, 'class'), shape(nd[3])] for nd in forest]


def show(forest):
    """compact one-line rendering of a [name, id, class, children] forest for messages"""
    def one(nd):
        s = nd[0] + ('#' + nd[1] if nd[1] else '') + ('.' + nd[2].replace(' ', '.') if nd[2] else '')
        return s + ('(' + ' '.join(one(c) for c in nd[3]) + ')' if nd[3] else '')
    return ' '.join(one(nd) for nd in forest)


def first_difference(exp, got, path='/'):
    """-> None or a short description of the first place two [name,id,class,children] forests differ"""
    for i in range(max(len(exp), len(got))):
        here = '%s%d' % (path, i)
        if i >= len(exp):
            return 'unexpected extra element <%s> at %s' % (got[i][0], here)
        if i >= len(got):
            return 'missing element <%s> at %s' % (exp[i][0], here)
        e, g = exp[i], got[i]
        if e[0] != g[0]:
            return 'element at %s is <%s>, expected <%s>' % (here, g[0], e[0])
        # an id the abbreviation did not write may still be added by a built-in snippet (select, textarea)
        if (e[1] is not None and e[1] != g[1]) or e[2] != g[2]:
            return 'element <%s> at %s carries id/class %r/%r, expected %r/%r' % (e[0], here, g[1], g[2], e[1], e[2])
        d = first_difference(e[3], g[3], here + '/')
        if d:
            return d
    return None


# ----------------------------------------------------------------------------- skeleton enumeration
@lru_cache(maxsize=None)
def _seqs(n, g):
    """all item sequences with exactly n elements and exactly g groups, as nested tuples
    ('e', children) / ('g', children)"""
    if n == 0:
        return ((),) if g == 0 else ()
    out = []
    for n1 in range(1, n + 1):
        for g1 in range(0, g + 1):
            rest = _seqs(n - n1, g - g1)
            if not rest:
                continue
            for first in _items(n1, g1):
                for r in rest:
                    out.append((first,) + r)
    return tuple(out)


@lru_cache(maxsize=None)
def _items(n, g):
    out = []
    for ch in _seqs(n - 1, g):
        out.append(('e', ch))
    if g >= 1:
        for ch in _seqs(n, g - 1):
            out.append(('g', ch))
    return tuple(out)


def skeletons(n, g):
    """every operator skeleton with exactly n elements and g groups (groups are never empty)"""
    return _seqs(n, g)


def count_nodes(skel):
    return sum(1 + count_nodes(it[1]) for it in skel)


def rep_assignments(m, rmax, values):
    """every way to put a repeater on at most rmax of m nodes, counts from `values`"""
    for r in range(0, min(rmax, m) + 1):
        for where in itertools.combinations(range(m), r):
            for vals in itertools.product(values, repeat=r):
                yield dict(zip(where, vals))


PALETTE = ['div', 'ul', 'p', 'em', 'table', 'tr', 'select', 'span', 'ol', 'section', 'a', 'tbody', 'b',
           'optgroup', 'li', 'thead', 'strong', 'td', 'tfoot', 'i', 'article', 'option', 'header']
VOID_PALETTE = ['br', 'img', 'hr', 'input']
N_VARIANTS = 5


def decorate(skel, reps, variant, offset):
    """skeleton + repeater placement + naming variant -> AST.
    Elements are numbered in document order; element j is called PALETTE[(j + offset) % len] (all
    distinct for up to 23 elements) or is implicit `.cJ`:
      variant 0 all named; 1 odd elements implicit; 2 even elements implicit; 3 all implicit;
      4 all named and every leaf is an HTML void element (br/img/hr/input)."""
    counter = [0, 0]          # node index (elements and groups), element index

    def items(sk):
        out = []
        for kind, ch in sk:
            idx = counter[0]
            counter[0] += 1
            rep = reps.get(idx)
            if kind == 'g':
                out.append(['g', rep, items(ch)])
                continue
            j = counter[1]
            counter[1] += 1
            implicit = (variant == 1 and j % 2 == 1) or (variant == 2 and j % 2 == 0) or variant == 3
            if implicit:
                head = {'cls': ['c%d' % j]}
            elif variant == 4 and not ch:
                head = {'name': VOID_PALETTE[(j + offset) % len(VOID_PALETTE)]}
            else:
                head = {'name': PALETTE[(j + offset) % len(PALETTE)]}
            out.append(['e', head, rep, items(ch)])
        return out
    return items(skel)


# ----------------------------------------------------------------------------- self-closing parents
VOID_NAMES = ['br', 'hr', 'img', 'input', 'link', 'meta', 'col', 'area', 'param', 'source', 'embed', 'base', 'basefont']
assert set(VOID_NAMES) == VOID
N_VOID_VARIANTS = 6


def has_parent_element(skel):
    return any((kind == 'e' and ch) or has_parent_element(ch) for kind, ch in skel)


def decorate_void(skel, reps, variant, offset):
    """skeleton + repeater placement + naming variant -> AST in which the elements that HAVE CHILDREN are
    self-closing ones.  Elements are numbered j in document order; V = VOID_NAMES[(j + offset) % 13],
    P = PALETTE[(j + offset) % 23], .cJ = a nameless element with the class cJ:
      0  parents V, leaves P                       (div>br>span)
      1  every element br / hr (alternating with j) and a class cJ that tells them apart
                                                   (br.c0>hr.c1+br.c2: the same void name as parent and as leaf)
      2  parents V, leaves nameless .cJ            (implicit name below a void element: span below the inline
                                                    ones br img input basefont, div below the others)
      3  parents P written with a trailing `/`, leaves alternately P / nameless
      4  parents: V for even j, P for j = 1 mod 4, nameless .cJ with a trailing `/` for j = 3 mod 4;
         leaves: V for even j, nameless .cJ for odd j
      5  parents V with text `{t}`, leaves V written with a trailing `/` (br/)"""
    counter = [0, 0]

    def items(sk):
        out = []
        for kind, ch in sk:
            idx = counter[0]
            counter[0] += 1
            rep = reps.get(idx)
            if kind == 'g':
                out.append(['g', rep, items(ch)])
                continue
            j = counter[1]
            counter[1] += 1
            V = VOID_NAMES[(j + offset) % len(VOID_NAMES)]
            P = PALETTE[(j + offset) % len(PALETTE)]
            C = ['c%d' % j]
            if variant == 0:
                head = {'name': V} if ch else {'name': P}
            elif variant == 1:
                head = {'name': ('br', 'hr')[(j + offset) % 2], 'cls': C}
            elif variant == 2:
                head = {'name': V} if ch else {'cls': C}
            elif variant == 3:
                head = {'name': P, 'close': True} if ch else ({'name': P} if j % 2 else {'cls': C})
            elif variant == 4:
                if ch:
                    head = {'name': V} if j % 2 == 0 else ({'cls': C, 'close': True} if j % 4 == 3 else {'name': P})
                else:
                    head = {'name': V} if j % 2 == 0 else {'cls': C}
            else:
                head = {'name': V, 'text': 't'} if ch else {'name': V, 'close': True}
            out.append(['e', head, rep, items(ch)])
        return out
    return items(skel)


def void_parent_cases(spaces, variants=None):
    """spaces: list of (n, gmax, rmax); yields (ast, 0) for every skeleton with exactly n elements of which
    at least one has children, at most gmax groups, at most rmax repeaters (*2 / *3), in all six variants of
    decorate_void (None) or in k of them rotating with the case index (int k)"""
    idx = 0
    for n, gmax, rmax in spaces:
        for g in range(0, gmax + 1):
            for skel in skeletons(n, g):
                if not has_parent_element(skel):
                    continue
                m = count_nodes(skel)
                for reps in rep_assignments(m, rmax, (2, 3)):
                    idx += 1
                    vs = range(N_VOID_VARIANTS) if variants is None else [(idx + v) % N_VOID_VARIANTS for v in range(variants)]
                    for v in vs:
                        yield (decorate_void(skel, reps, v, idx), 0)


def count_void_parent(spaces, per_case):
    total = 0
    for n, gmax, rmax in spaces:
        for g in range(0, gmax + 1):
            for skel in skeletons(n, g):
                if has_parent_element(skel):
                    total += sum(1 for _ in rep_assignments(count_nodes(skel), rmax, (2, 3))) * per_case
    return total


def make_parents_self_closing(rng, items, void_p=0.5, close_p=0.2):
    """in place: every element with children becomes a void-named one with probability void_p, else gets a
    trailing `/` with probability close_p; -> number of elements changed"""
    changed = 0
    for it in items:
        if it[0] == 'g':
            changed += make_parents_self_closing(rng, it[2], void_p, close_p)
            continue
        head, children = it[1], it[3]
        if children:
            x = rng.random()
            if x < void_p:
                head['name'] = rng.choice(VOID_NAMES)
                changed += 1
            elif x < void_p + close_p:
                head['close'] = True
                changed += 1
            changed += make_parents_self_closing(rng, children, void_p, close_p)
    return changed


def exhaustive_cases(spaces, variants=None):
    """spaces: list of (n, gmax, rmax); yields (ast, 0) for every skeleton with exactly n elements,
    at most gmax groups, at most rmax repeaters (*2 / *3), in the naming variants given (all five
    when None, else the listed ones; an int k means `one variant, rotating with the case index`)"""
    idx = 0
    for n, gmax, rmax in spaces:
        for g in range(0, gmax + 1):
            for skel in skeletons(n, g):
                m = count_nodes(skel)
                for reps in rep_assignments(m, rmax, (2, 3)):
                    idx += 1
                    if variants is None:
                        vs = range(N_VARIANTS)
                    elif isinstance(variants, int):
                        vs = [(idx + v) % N_VARIANTS for v in range(variants)]
                    else:
                        vs = variants
                    for v in vs:
                        yield (decorate(skel, reps, v, idx), 0)


def count_exhaustive(spaces, per_case):
    total = 0
    for n, gmax, rmax in spaces:
        for g in range(0, gmax + 1):
            for skel in skeletons(n, g):
                m = count_nodes(skel)
                total += sum(1 for _ in rep_assignments(m, rmax, (2, 3))) * per_case
    return total


# ----------------------------------------------------------------------------- random big skeletons
def random_ast(rng, n, names=None, implicit_p=0.3, id_p=0.2, max_mult=12, rep_p=0.25, rep_values=(2, 3),
               group_p=0.25, void_p=0.0):
    """a random AST with exactly n elements; the product of nested repeat counts stays <= max_mult"""
    names = names or PALETTE
    counter = [0]

    def seq(n, mult, depth):
        out = []
        while n > 0:
            take = rng.randint(1, n) if rng.random() < 0.5 else rng.randint(1, max(1, min(n, 3)))
            rep = None
            if rng.random() < rep_p:
                r = rng.choice(rep_values)
                if mult * r <= max_mult:
                    rep = r
            m2 = mult * (rep or 1)
            if rng.random() < group_p and depth < 8:
                out.append(['g', rep, seq(take, m2, depth + 1)])
            else:
                j = counter[0]
                counter[0] += 1
                head = {}
                if rng.random() < implicit_p:
                    head['cls'] = ['c%d' % j]
                else:
                    if take == 1 and rng.random() < void_p:
                        head['name'] = rng.choice(VOID_PALETTE)
                    else:
                        head['name'] = rng.choice(names)
                    if rng.random() < 0.3:
                        head['cls'] = ['c%d' % j] + (['k'] if rng.random() < 0.3 else [])
                if rng.random() < id_p:
                    head['id'] = 'i%d' % j
                out.append(['e', head, rep, seq(take - 1, m2, depth + 1)])
            n -= take
        return out
    return seq(n, 1, 0)
