"""C02 bounded stand-in: `X*N` makes exactly N consecutive copies, `$` runs are replaced by the counter
of the nearest repeated element/group (1 if none) in names, attribute values and text, and `maxRepeat`
cuts the copies as the statement's third sentence says.

Oracle: `spec_expand` below, an executable reading of the statement working on the abbreviation AST of
c01_gen (the abbreviation text is printed from the same AST).  Observation: emmet.expand() output parsed
by the independent tag parser of c01_gen; compared are names, id, class, title, text and nesting.

Places where the statement does not fix the value are wildcards (not compared):
  * a count-down form (`@-`) inside a repeater that `maxRepeat` stopped early (is "the last copy" the
    last written copy or the N-th?);
  * a form with an explicit start (`@M`, M != 1) outside every repeater ("is 1 when there is none" vs
    "starts counting at M");
  * what a non-numbering `$` token (`$#`, `${1}`, `${lang}`) standing beside a numbering form expands to: a hole
    that matches any digit-free string (clauses numbering-beside-placeholders, random-placeholders).
"""
import itertools
import random
import re

from .common import Clause, run_parallel
from . import c01_gen as G

NUM_RE = re.compile(r'(\$+)(?:@(-?)(\d*))?')
# the other documented `$` tokens that may stand beside a numbering form: the text placeholder `$#` and the
# fields / variables `${1}`, `${2:ph}`, `${lang}` (tried first, as the tokenizer does); group 1 is None for them
TOKEN_RE = re.compile(r'\$#|\$\{[^{}]*\}|(\$+)(?:@(-?)(\d*))?')


# ----------------------------------------------------------------------------- executable statement
class _Spec:
    def __init__(self, limit):
        self.limit = limit          # maxRepeat M or None
        self.completed = 0          # copies completed so far, in document order

    def subst(self, s, ctx):
        """s with every $-run replaced; ctx = None | (i, cell) with cell = {'N': count, 'made': copies made}.
        Returns a list of parts: str | ('rev', cell, i, base, width) | ('any',) | ('hole',)"""
        if s is None:
            return None
        parts = []
        pos = 0
        for m in TOKEN_RE.finditer(s):
            parts.append(s[pos:m.start()])
            pos = m.end()
            if m.group(1) is None:
                # `$#` / `${...}`: not a `$` run.  What it expands to is the business of other properties (C04);
                # here it is a hole in the value, the numbering forms around it are compared as usual
                parts.append(('hole',))
                continue
            width = len(m.group(1))
            reverse = m.group(2) == '-'
            base = int(m.group(3)) if m.group(3) else 1
            if ctx is None:
                # "is 1 when there is none"
                parts.append(('any',) if base != 1 else str(1).rjust(width, '0'))
            elif reverse:
                parts.append(('rev', ctx[1], ctx[0], base, width))      # needs to know whether N copies were made
            else:
                parts.append(str(base + ctx[0] - 1).rjust(width, '0'))  # copy i gets M + i - 1
        parts.append(s[pos:])
        return parts

    def items(self, items, ctx):
        out = []
        for it in items:
            rep = it[1] if it[0] == 'g' else it[2]
            if rep is None:
                out += self.one(it, ctx)
                continue
            cell = {'N': rep, 'made': 0}
            i = 0
            while i < rep:
                i += 1
                out += self.one(it, (i, cell))      # copy i, with all its descendants
                cell['made'] = i
                self.completed += 1                 # the copy is complete now
                if self.limit is not None and self.completed >= self.limit:
                    break                           # M completed in total: nothing further here; a repeater met
                    #                                 later (or still running around us) finishes one copy and stops
        return out

    def one(self, it, ctx):
        if it[0] == 'g':
            return self.items(it[2], ctx)
        head = it[1]
        node = {'name': self.subst(head.get('name'), ctx),
                'id': self.subst(head.get('id'), ctx),
                'class': self.subst(' '.join(head['cls']), ctx) if head.get('cls') else None,
                # an attribute *name* is a place for `$` runs like any other name
                'attrs': [[self.subst(k, ctx), self.subst(v, ctx)] for k, v in head.get('attrs', ())],
                'text': self.subst(head.get('text'), ctx)}
        node['children'] = self.items(it[3], ctx)
        return [node]


def _resolve(parts):
    if parts is None:
        return None
    out = []
    holes = False
    for p in parts:
        if isinstance(p, str):
            out.append(p)
        elif p[0] == 'any':
            return ANY
        elif p[0] == 'hole':
            holes = True
            out.append(p)
        else:
            _, cell, i, base, width = p
            if cell['made'] < cell['N']:
                return ANY                          # stopped early by maxRepeat: statement does not fix the value
            out.append(str(base + cell['N'] - i).rjust(width, '0'))   # the last copy (i == N) gets the start value
    if holes:
        return Holed(out)
    return ''.join(out)


ANY = {'any': True}


class Holed:
    """a value with holes where a `$#` / `${...}` token stood.  The generators only supply wrap text, field
    placeholders and variable names without digits, and supplied text is never numbered, so a hole stands
    for any digit-free string (possibly empty, possibly with line breaks)"""
    def __init__(self, parts):
        self.shown = ''.join(p if isinstance(p, str) else '*' for p in parts)
        self.rx = re.compile(''.join(re.escape(p) if isinstance(p, str) else '[^0-9]*' for p in parts), re.S)

    def __ne__(self, got):
        return got is None or not self.rx.fullmatch(got)

    def __eq__(self, got):
        return not self.__ne__(got)

    __hash__ = None

    def __repr__(self):
        return repr(self.shown) + ' (* = what the placeholder expands to, no digits)'


def spec_expand(ast, limit):
    """-> expected forest: nodes {'name','id','class','attrs','text','children'}; a value is a str, None
    (not written) or ANY (not fixed by the statement)"""
    forest = _Spec(limit).items(ast, None)

    def fin(node):
        for k in ('name', 'id', 'class', 'text'):
            node[k] = _resolve(node[k])
        node['attrs'] = [[_resolve(k), _resolve(v)] for k, v in node['attrs']]
        for c in node['children']:
            fin(c)
    for nd in forest:
        fin(nd)
    return forest


def _show(forest):
    def s(v):
        return '?' if v is ANY else v.shown if isinstance(v, Holed) else v

    def one(nd):
        t = s(nd['name'])
        if nd['id'] is not None:
            t += '#' + s(nd['id'])
        if nd['class'] is not None:
            t += '.' + s(nd['class'])
        for k, v in nd['attrs']:
            t += '[%s]' % s(k) if v is None else '[%s=%s]' % (s(k), s(v))
        if nd['text'] is not None:
            t += '{%s}' % s(nd['text'])
        if nd['children']:
            t += '(' + ' '.join(one(c) for c in nd['children']) + ')'
        return t
    return ' '.join(one(nd) for nd in forest)


def _compare(exp, got, path='/'):
    for i in range(max(len(exp), len(got))):
        here = '%s%d' % (path, i)
        if i >= len(exp):
            return 'unexpected extra element <%s> at %s' % (got[i][0], here)
        if i >= len(got):
            return 'missing element %s at %s' % (_show([dict(exp[i], children=[])]), here)
        e, g = exp[i], got[i]
        pairs = [('name', e['name'], g[0]), ('id', e['id'], G.attr(g, 'id')), ('class', e['class'], G.attr(g, 'class'))]
        for k, v in e['attrs']:
            if k is ANY:
                continue                            # the name itself is not fixed by the statement
            if k not in [gk for gk, _ in g[1]]:
                return 'the element at %s has no attribute %r (its attributes: %s)' % (here, k, [gk for gk, _ in g[1]])
            pairs.append(('attribute ' + k, v, G.attr(g, k)))
        if e['text'] is not None:
            pairs.append(('text', e['text'], g[2].strip()))
        for what, ev, gv in pairs:
            if ev is not None and ev is not ANY and ev != gv:
                return '%s of the element at %s is %r, expected %r' % (what, here, gv, ev)
        d = _compare(e['children'], g[3], here + '/')
        if d:
            return d
    return None


def check_repeat(ast, limit, syntax, fmt, text=None):
    """ast: abbreviation AST whose strings may contain numbering forms (and `$#` / `${...}` tokens beside them);
    limit: maxRepeat or None; text: wrap text (str or list of lines) for the `$#` placeholders, or None"""
    from emmet import expand
    abbr = G.print_abbr(ast)
    expected = spec_expand(ast, limit)
    config = {'syntax': syntax, 'options': {'output.format': fmt}}
    if limit is not None:
        config['maxRepeat'] = limit
    if text is not None:
        config['text'] = text
    out = expand(abbr, config)
    try:
        got = G.parse_markup(out, void_without_slash=(syntax == 'html'))
    except G.MarkupError as e:
        return 'expand(%r, maxRepeat=%r) is not well-nested markup (%s): %r' % (abbr, limit, e, out)
    d = _compare(expected, got)
    if d:
        return 'expand(%r, maxRepeat=%r, syntax=%s, output.format=%s%s): %s; expected %s; output %r' % (
            abbr, limit, syntax, fmt, '' if text is None else ', text=%r' % (text,), d, _show(expected), out)
    return None


# ----------------------------------------------------------------------------- clause 1: copies and maxRepeat
def _decorate_counting(skel, reps):
    """element j is `xJ.n$.k{t$$@-}`: a forward counter in the class, a count-down one in the text"""
    counter = [0, 0]

    def items(sk):
        out = []
        for kind, ch in sk:
            idx = counter[0]
            counter[0] += 1
            rep = reps.get(idx)
            if kind == 'g':
                out.append(['g', rep, items(ch)])
            else:
                j = counter[1]
                counter[1] += 1
                out.append(['e', {'name': 'x%d' % j, 'cls': ['n$', 'k'], 'text': 't$$@-'}, rep, items(ch)])
        return out
    return items(skel)


def copies_cases(spaces, nmax):
    """spaces: (n, gmax, rmax): every skeleton with n elements, <= gmax groups, every placement of <= rmax
    repeaters *1..*nmax, every maxRepeat in 1..(product of the counts)+1 and no limit"""
    for n, gmax, rmax in spaces:
        for g in range(0, gmax + 1):
            for skel in G.skeletons(n, g):
                m = G.count_nodes(skel)
                for reps in G.rep_assignments(m, rmax, tuple(range(1, nmax + 1))):
                    ast = _decorate_counting(skel, reps)
                    prod = 1
                    for v in reps.values():
                        prod *= v
                    for limit in [None] + list(range(1, prod + 2)):
                        yield (ast, limit, 'html', False)


# ----------------------------------------------------------------------------- clause 2: numbering forms
FORMS = ['$', '$$', '$$$', '$@3', '$@0', '$$@99', '$$$@7', '$@-', '$$$@-', '$@-3', '$@-0', '$$@-98']
POSITIONS = ['name', 'class', 'id', 'attr', 'quoted-attr', 'text', 'all']


def numbered_head(form, position, tag='x'):
    h = {'name': tag}
    if position in ('name', 'all'):
        h['name'] = tag + form
    if position in ('class', 'all'):
        h['cls'] = ['k', 'c' + form]
    if position == 'id':             # not in 'all': `x$#i` would read as the `$#` placeholder token
        h['id'] = 'i' + form
    if position in ('attr',):
        h['attrs'] = [['title', 'v' + form]]
    if position in ('quoted-attr', 'all'):
        h['attrs'] = [['title', 'v ' + form + ' w']]
    if position in ('text', 'all'):
        h['text'] = 't' + form + ' u ' + form
    return h


def templates(H, H2, n1, n2):
    """abbreviations around a numbered element E (head H); H2 is a second numbered head (tag z).
    Returns (needs_n2, ast) pairs."""
    E, Gr = G.E, G.G

    def X(rep=None, children=()):
        return ['e', dict(H), rep, list(children)]

    def Z(rep=None, children=()):
        return ['e', dict(H2), rep, list(children)]
    o, y, m = 'o', 'y', 'm'
    return [
        (False, [X()]),                                             # E                  no repeater: 1
        (False, [E(o, [X()])]),                                     # o>E
        (False, [X(n1)]),                                           # E*N
        (False, [X(n1, [E(y)])]),                                   # E*N>y
        (False, [Gr([X()], n1)]),                                   # (E)*N
        (False, [Gr([X(), E(y)], n1)]),                             # (E+y)*N
        (False, [Gr([E(y, [E(m)]), X()], n1)]),                     # (y>m^E)*N
        (False, [E(o, [X()], n1)]),                                 # o*N>E              inherits
        (False, [E(o, [E(m, [X()])], n1)]),                         # o*N>m>E
        (False, [E(o, [Gr([E(y), X()])], n1)]),                     # o*N>(y+E)
        (False, [E(o, rep=n1), X()]),                               # o*N+E              outside again: 1
        (False, [E(o, [E(y)], n1), X()]),                           # o*N>y^E
        (False, [Gr([E(o)], n1), X()]),                             # (o)*N+E
        (False, [Z(n1), X()]),                                      # Z*N+E
        (True, [E(o, [X(n2)], n1)]),                                # o*N1>E*N2          own counter
        (True, [E(o, [X(n2)])]),                                    # o>E*N2
        (True, [Gr([E(o, [X(n2)])], n1)]),                          # (o>E*N2)*N1
        (True, [Gr([X(n2)], n1)]),                                  # (E*N2)*N1
        (True, [Gr([Gr([X()], n2)], n1)]),                          # ((E)*N2)*N1
        (True, [E(o, [Gr([X(), E(y)], n2)], n1)]),                  # o*N1>(E+y)*N2
        (True, [E(o, [E(y, rep=n2), X()], n1)]),                    # o*N1>y*N2+E        back to the outer counter
        (True, [E(o, [E(y, [E(m)], n2), X()], n1)]),                # o*N1>y*N2>m^E
        (True, [Gr([E(y, rep=n2), X()], n1)]),                      # (y*N2+E)*N1
        (True, [Gr([Gr([E(y)], n2), X()], n1)]),                    # ((y)*N2+E)*N1
        (True, [Z(n1, [X(n2)])]),                                   # Z*N1>E*N2          both numbered
        (True, [Z(n1, [X(n2, [Z()])])]),                            # Z*N1>E*N2>Z        grandchild: inner counter
        (True, [Gr([Z(), X(n2)], n1)]),                             # (Z+E*N2)*N1
        (True, [Z(n1), X(n2)]),                                     # Z*N1+E*N2          consecutive repeaters
    ]


def forms_cases(nmax):
    for form in FORMS:
        for position in POSITIONS:
            H = numbered_head(form, position)
            H2 = numbered_head(form, 'class', 'z')
            for n1 in range(1, nmax + 1):
                for n2 in [None] + list(range(1, nmax + 1)):
                    for needs2, ast in templates(H, H2, n1, n2):
                        if needs2 == (n2 is not None):
                            yield (ast, None, 'html', False)


# ----------------------------------------------------------------------------- clause 3: random beyond
def random_cases(seed, count):
    rng = random.Random(seed)

    def form():
        f = '$' * rng.choice((1, 1, 2, 3, 5))
        if rng.random() < 0.6:
            # never a bare `@`: `$@^` is the (separately documented) parent-numbering form
            rev = rng.random() < 0.5
            f += '@' + ('-' if rev else '') + (str(rng.choice((0, 1, 2, 9, 10, 97, 1200))) if rng.random() < 0.7 or not rev else '')
        return f

    for _ in range(count):
        n = rng.randint(2, 10)
        ast = G.random_ast(rng, n, names=['x'], implicit_p=0.0, id_p=0.0, max_mult=60, rep_p=0.45,
                           rep_values=(1, 2, 3, 4, 5, 7, 10, 12), group_p=0.25)
        total = [0]

        def deco(items, mult):
            for it in items:
                rep = it[1] if it[0] == 'g' else it[2]
                m2 = mult * (rep or 1)
                if rep:
                    total[0] += m2
                if it[0] == 'e':
                    it[1] = numbered_head(form(), rng.choice(POSITIONS), 'x') if rng.random() < 0.7 else {'name': 'q'}
                    deco(it[3], m2)
                else:
                    deco(it[2], m2)
        deco(ast, 1)
        r = rng.random()
        limit = None if r < 0.4 else rng.randint(1, max(2, total[0] + 2)) if r < 0.9 else rng.randint(1, 4)
        yield (ast, limit, rng.choice(('html', 'xml', 'xhtml')), rng.random() < 0.5)


# ----------------------------------------------------------------------------- clause 4: numbering beside placeholders
# (token, wrap text): the text placeholder without / with a text / with lines, a field, a field with placeholder,
# a variable.  None of the supplied strings contains a digit (see Holed).
BYSTANDERS = [('$#', None), ('$#', 'T'), ('$#', ['T', 'Uu']), ('${1}', None), ('${2:ph}', None), ('${lang}', None)]
PLACEMENTS = ['attr-alone', 'attr-mixed', 'text-before', 'text-after']


def carrier_head(j, token, placement):
    """element j with the token beside its counters: the counters of the class come before it, those of the
    text (and, in attr-mixed, of the same value) after it"""
    h = {'name': 'x%d' % j, 'cls': ['n$'], 'attrs': [['title', 'v$']], 'text': 't$$@-'}
    if placement == 'attr-alone':
        h['attrs'] = [['title', token]]
    elif placement == 'attr-mixed':
        h['attrs'] = [['title', 'v$ %s w$@-' % token]]
    elif placement == 'text-before':
        h['text'] = token + ':t$$@-'
    else:
        h['text'] = 't$$@-:' + token
    return h


def _decorate_bystander(skel, reps, carrier, token, placement):
    counter = [0, 0]

    def items(sk):
        out = []
        for kind, ch in sk:
            idx = counter[0]
            counter[0] += 1
            rep = reps.get(idx)
            if kind == 'g':
                out.append(['g', rep, items(ch)])
            else:
                j = counter[1]
                counter[1] += 1
                if j == carrier:
                    head = carrier_head(j, token, placement)
                else:
                    head = {'name': 'x%d' % j, 'cls': ['n$'], 'attrs': [['title', 'v$@-']], 'text': 't$$'}
                out.append(['e', head, rep, items(ch)])
        return out
    return items(skel)


def bystander_cases(spaces, values, bystanders):
    """spaces: (n, gmin, gmax, rmax): every skeleton with n elements and gmin..gmax groups, every placement of <= rmax
    repeaters with counts from `values`; every element in turn carries every (token, wrap text) of `bystanders` in
    every placement; all other elements are `xJ.n$[title=v$@-]{t$$}`"""
    for n, gmin, gmax, rmax in spaces:
        for g in range(gmin, gmax + 1):
            for skel in G.skeletons(n, g):
                m = G.count_nodes(skel)
                for reps in G.rep_assignments(m, rmax, values):
                    for carrier in range(n):
                        for token, text in bystanders:
                            for placement in PLACEMENTS:
                                yield (_decorate_bystander(skel, reps, carrier, token, placement), None, 'html', False, text)


def random_bystander_cases(seed, count):
    """random ASTs as in random_cases; some elements get a `$#` / `${...}` token added to an attribute value or to
    the text, beside the numbering forms; wrap text only when a `$#` occurs (else it would be appended somewhere)"""
    rng = random.Random(seed * 7919 + 2)
    tokens = ['$#', '$#', '$#', '${1}', '${3:ph}', '${lang}', '${word}']

    def form():
        f = '$' * rng.choice((1, 1, 2, 3))
        if rng.random() < 0.5:
            rev = rng.random() < 0.5
            f += '@' + ('-' if rev else '') + (str(rng.choice((0, 1, 2, 9, 97))) if rng.random() < 0.7 or not rev else '')
        return f

    for _ in range(count):
        n = rng.randint(2, 8)
        ast = G.random_ast(rng, n, names=['x'], implicit_p=0.0, id_p=0.0, max_mult=40, rep_p=0.55,
                           rep_values=(1, 2, 2, 3, 3, 4, 5), group_p=0.25)
        total = [0]
        used = set()

        def deco(items, mult):
            for it in items:
                rep = it[1] if it[0] == 'g' else it[2]
                m2 = mult * (rep or 1)
                if rep:
                    total[0] += m2
                if it[0] == 'e':
                    h = numbered_head(form(), rng.choice(POSITIONS), 'x') if rng.random() < 0.8 else {'name': 'q'}
                    if rng.random() < 0.5:
                        tok = rng.choice(tokens)
                        used.add(tok)
                        r = rng.random()
                        if r < 0.4:
                            # a further attribute: written (and evaluated) after the element's other attributes
                            h.setdefault('attrs', []).append(['lang', rng.choice((tok, 'a%s-%s' % (form(), tok), '%s b %s' % (tok, form())))])
                        elif r < 0.5:
                            # ... or before them
                            h['attrs'] = [['lang', tok]] + h.get('attrs', [])
                        elif h.get('text') is not None:
                            h['text'] = tok + ':' + h['text'] if rng.random() < 0.5 else h['text'] + ':' + tok
                        else:
                            h['text'] = rng.choice((tok, tok + ':s' + form(), 's' + form() + ':' + tok))
                    it[1] = h
                    deco(it[3], m2)
                else:
                    deco(it[2], m2)
        deco(ast, 1)
        r = rng.random()
        limit = None if r < 0.6 else rng.randint(1, max(2, total[0] + 2))
        text = None
        if '$#' in used:
            text = rng.choice((None, 'T', 'some text', ['T', 'Uu'], ['a', '', 'b c']))
        yield (ast, limit, rng.choice(('html', 'xml', 'xhtml')), rng.random() < 0.5, text)

# ----------------------------------------------------------------------------- clause 6: `$` runs in attribute names
NAME_FORMS = ['$', '$$', '$$$', '$@3', '$@0', '$$$@4', '$@-', '$$@-', '$@-3', '$@-0']
# what stands beside the numbered attribute name
ATTR_KINDS = ['no-value', 'plain', 'quoted', 'numbered-value', 'mid-name', 'two-names', 'beside-class']


def attr_name_head(form, kind, tag='x'):
    """an element whose attribute *name* carries the numbering form; the value of that attribute is absent, a
    plain word, a quoted phrase or numbered itself"""
    h = {'name': tag}
    if kind == 'no-value':
        h['attrs'] = [['data-' + form, None]]
    elif kind == 'plain':
        h['attrs'] = [['k' + form, 'v']]
    elif kind == 'quoted':
        h['attrs'] = [['k' + form, 'v w']]
    elif kind == 'numbered-value':
        h['attrs'] = [['k' + form, 'v' + form]]
    elif kind == 'mid-name':
        h['attrs'] = [['a' + form + 'b-c', 'v']]
    elif kind == 'two-names':
        h['attrs'] = [['title', 'p'], ['a' + form, 'q'], ['b-$$', None]]
    else:
        h['cls'] = ['c' + form]
        h['attrs'] = [['k' + form, 'v']]
        h['text'] = 't' + form
    return h


def attr_name_cases(nmax, limits):
    """the 28 templates of `numbering-forms` around an element with a numbered attribute name"""
    for form in NAME_FORMS:
        for kind in ATTR_KINDS:
            H = attr_name_head(form, kind)
            H2 = attr_name_head(form, 'plain', 'z')
            for n1 in range(1, nmax + 1):
                for n2 in [None] + list(range(1, nmax + 1)):
                    for needs2, ast in templates(H, H2, n1, n2):
                        if needs2 == (n2 is not None):
                            for limit in limits:
                                yield (ast, limit, 'html', False)


def random_attr_name_cases(seed, count):
    """random ASTs as in random_cases; most elements get one or two attributes with a numbering form in the name"""
    rng = random.Random(seed * 104729 + 6)

    def form():
        f = '$' * rng.choice((1, 1, 2, 3))
        if rng.random() < 0.5:
            rev = rng.random() < 0.5
            f += '@' + ('-' if rev else '') + (str(rng.choice((0, 1, 2, 9, 97))) if rng.random() < 0.7 or not rev else '')
        return f

    for _ in range(count):
        n = rng.randint(2, 8)
        ast = G.random_ast(rng, n, names=['x'], implicit_p=0.0, id_p=0.0, max_mult=40, rep_p=0.55,
                           rep_values=(1, 2, 2, 3, 3, 4, 5), group_p=0.25)
        total = [0]

        def deco(items, mult):
            for it in items:
                rep = it[1] if it[0] == 'g' else it[2]
                m2 = mult * (rep or 1)
                if rep:
                    total[0] += m2
                if it[0] == 'e':
                    h = numbered_head(form(), rng.choice(POSITIONS), 'x') if rng.random() < 0.4 else {'name': 'q'}
                    if rng.random() < 0.8:
                        extra = []
                        for stem in rng.sample(['d', 'e-', 'f'], rng.choice((1, 1, 2))):
                            extra.append([stem + form(), rng.choice((None, 'v', 'v', 'a b', 'v' + form()))])
                        h['attrs'] = extra + h.get('attrs', []) if rng.random() < 0.5 else h.get('attrs', []) + extra
                    it[1] = h
                    deco(it[3], m2)
                else:
                    deco(it[2], m2)
        deco(ast, 1)
        r = rng.random()
        limit = None if r < 0.6 else rng.randint(1, max(2, total[0] + 2))
        yield (ast, limit, rng.choice(('html', 'xml', 'xhtml')), rng.random() < 0.5)


# ----------------------------------------------------------------------------- clause 7: histories of calls
def check_history(calls, syntax, fmt, cache_mode):
    """calls: list of [ast, maxRepeat|None], made one after the other.  The statement speaks about one call:
    every call of a history must give what the statement says for *its* abbreviation and *its* limit, whatever
    was expanded before.  cache_mode: 'shared' (one `cache` dict handed to every call, as an editor does),
    'fresh' (a new dict per call) or 'none'"""
    from emmet import expand
    shared = {}
    for idx, (ast, limit) in enumerate(calls):
        abbr = G.print_abbr(ast)
        expected = spec_expand(ast, limit)
        config = {'syntax': syntax, 'options': {'output.format': fmt}}
        if limit is not None:
            config['maxRepeat'] = limit
        if cache_mode == 'shared':
            config['cache'] = shared
        elif cache_mode == 'fresh':
            config['cache'] = {}
        out = expand(abbr, config)
        before = ', '.join('expand(%r, maxRepeat=%r)' % (G.print_abbr(a), l) for a, l in calls[:idx]) or 'nothing'
        try:
            got = G.parse_markup(out, void_without_slash=(syntax == 'html'))
        except G.MarkupError as e:
            return 'call %d, expand(%r, maxRepeat=%r) after %s, is not well-nested markup (%s): %r' % (idx, abbr, limit, before, e, out)
        d = _compare(expected, got)
        if d:
            return 'call %d of the history (cache: %s, syntax=%s, output.format=%s): expand(%r, maxRepeat=%r) after %s: %s; expected %s; output %r' % (
                idx, cache_mode, syntax, fmt, abbr, limit, before, d, _show(expected), out)
    return None


def _history_pool(spaces, values):
    """(ast, product of the counts) for every skeleton / repeater placement of the spaces, at least one repeater"""
    pool = []
    for n, gmax, rmax in spaces:
        for g in range(0, gmax + 1):
            for skel in G.skeletons(n, g):
                m = G.count_nodes(skel)
                for reps in G.rep_assignments(m, rmax, values):
                    if not reps:
                        continue
                    prod = 1
                    for v in reps.values():
                        prod *= v
                    pool.append((_decorate_counting(skel, reps), prod))
    return pool


def history_pair_cases(spaces, values):
    """every abbreviation of the pool expanded twice on one cache with every ordered pair of limits from
    {none, 1, 2, .., product+1}, and once after / before its neighbour in the pool with the same pairs of limits
    reduced to {none, 1, 2, product}"""
    pool = _history_pool(spaces, values)
    for k, (ast, prod) in enumerate(pool):
        limits = [None] + list(range(1, prod + 2))
        for l1 in limits:
            for l2 in limits:
                if l1 != l2:
                    yield ([[ast, l1], [ast, l2]], 'html', False, 'shared')
        other, oprod = pool[(k + 1) % len(pool)]
        for l1 in (None, 1, 2, oprod):
            for l2 in (None, 1, 2, prod):
                yield ([[other, l1], [ast, l2]], 'html', False, 'shared')


def random_history_cases(seed, count, spaces, values):
    """histories of 2..5 calls: random abbreviations of the pool, random limits, mostly on one shared cache"""
    rng = random.Random(seed * 15485863 + 7)
    pool = _history_pool(spaces, values)
    for _ in range(count):
        calls = []
        for _k in range(rng.randint(2, 5)):
            ast, prod = rng.choice(pool)
            r = rng.random()
            calls.append([ast, None if r < 0.3 else rng.randint(1, prod + 1)])
        yield (calls, rng.choice(('html', 'xml', 'xhtml')), rng.random() < 0.5, rng.choice(('shared', 'shared', 'shared', 'fresh', 'none')))


def run(tier, seed):
    if tier == 'quick':
        spaces, nmax, nrand = [(1, 2, 2), (2, 2, 2), (3, 2, 2)], 4, 4000
        # all tokens in the first space, only `$#` without wrap text in the second
        bspaces, bspaces2, bvalues, nbrand = [(1, 0, 2, 2), (2, 0, 2, 2), (3, 0, 0, 2)], [(3, 1, 1, 2)], (2, 3), 3000
    else:
        spaces, nmax, nrand = [(1, 2, 2), (2, 2, 2), (3, 2, 2), (4, 1, 2)], 4, 150000
        bspaces, bspaces2, bvalues, nbrand = [(1, 0, 2, 2), (2, 0, 2, 2), (3, 0, 2, 2)], [], (1, 2, 3), 60000
    out = []
    c = Clause('copies-maxrepeat', 'B',
               'every operator skeleton, every placement of repeaters *1..*%d on elements and groups, every maxRepeat; every element '
               'is written xJ.n$.k{t$$@-} (forward counter in the class, count-down counter in the text)' % nmax,
               '; '.join('%d elements, <=%d groups, <=%d repeaters' % s for s in spaces)
               + '; maxRepeat in {none, 1..(product of the counts)+1}; html, output.format off',
               'a case is (AST, maxRepeat); distinct by both', exhaustive=True)
    run_parallel(c, 'bounded.c02', 'check_repeat', copies_cases(spaces, nmax), chunk=1000)
    out.append(c.done())

    c = Clause('numbering-forms', 'B',
               '28 abbreviation templates placing a numbered element inside / outside / after elements and groups repeated N1, N2 times '
               'x %d numbering forms %s x %d positions %s' % (len(FORMS), FORMS, len(POSITIONS), POSITIONS),
               'N1, N2 in 1..%d, no maxRepeat; html, output.format off' % nmax,
               'a case is (template, form, position, N1, N2) given as the resulting AST', exhaustive=True)
    run_parallel(c, 'bounded.c02', 'check_repeat', forms_cases(nmax), chunk=1000)
    out.append(c.done())

    c = Clause('random-beyond', 'B',
               'seeded random ASTs of 2..10 elements, repeat counts from (1 2 3 4 5 7 10 12) with nested product <= 60, random '
               'numbering forms ($ width 1..5, @ start 0..1200, count-down) in random positions, random maxRepeat, syntax, format',
               '%d cases, seed %d' % (nrand, seed), 'a case is (AST, maxRepeat, syntax, output.format)', exhaustive=False)
    run_parallel(c, 'bounded.c02', 'check_repeat', random_cases(seed, nrand), chunk=100)
    out.append(c.done())

    c = Clause('numbering-beside-placeholders', 'B',
               'every operator skeleton, every placement of repeaters on elements and groups; every element in turn carries one of '
               'the non-numbering `$` tokens %s beside its counters, in the placements %s (`xJ.n$[title=<token>]{t$$@-}`, '
               '`xJ.n$[title="v$ <token> w$@-"]{t$$@-}`, `xJ.n$[title=v$]{<token>:t$$@-}`, `xJ.n$[title=v$]{t$$@-:<token>}`); '
               'every other element is `xJ.n$[title=v$@-]{t$$}`.  What the token expands to is not compared, the counters are'
               % ([b[0] for b in BYSTANDERS[2:]], PLACEMENTS),
               '; '.join('%d elements, %d..%d groups, <=%d repeaters' % s for s in bspaces)
               + ' with every token, `$#` without wrap text, with text "T" and with lines ["T", "Uu"]'
               + ''.join('; %d elements, %d..%d groups, <=%d repeaters with `$#` without wrap text only' % s for s in bspaces2)
               + '; counts from %s; no maxRepeat; html, output.format off' % (bvalues,),
               'a case is (AST, wrap text); distinct by both', exhaustive=True)
    cases = itertools.chain(bystander_cases(bspaces, bvalues, BYSTANDERS), bystander_cases(bspaces2, bvalues, BYSTANDERS[:1]))
    run_parallel(c, 'bounded.c02', 'check_repeat', cases, chunk=1000)
    out.append(c.done())

    c = Clause('random-placeholders', 'B',
               'seeded random ASTs of 2..8 elements, repeat counts from (1 2 3 4 5) with nested product <= 40, random numbering '
               'forms in random positions; about half of the elements also carry a `$#`, `${N}`, `${N:ph}` or `${var}` token in an '
               'attribute value or in the text; random wrap text (none / string / lines) when a `$#` occurs; random maxRepeat, '
               'syntax, format',
               '%d cases, seed %d' % (nbrand, seed), 'a case is (AST, maxRepeat, syntax, output.format, wrap text)', exhaustive=False)
    run_parallel(c, 'bounded.c02', 'check_repeat', random_bystander_cases(seed, nbrand), chunk=100)
    out.append(c.done())

    if tier == 'quick':
        anmax, alimits, narand = 3, (None,), 2000
        hspaces, hvalues, nhrand = [(1, 1, 1), (2, 1, 2)], (2, 3), 1500
    else:
        anmax, alimits, narand = 4, (None, 1, 2, 3, 5), 40000
        hspaces, hvalues, nhrand = [(1, 2, 2), (2, 1, 2), (3, 0, 2)], (2, 3), 40000
    c = Clause('numbering-in-attribute-names', 'B',
               'the 28 templates of numbering-forms around an element whose attribute *name* carries the numbering form: '
               '%d forms %s x %d kinds %s (`x[data-<f>]`, `x[k<f>=v]`, `x[k<f>="v w"]`, `x[k<f>=v<f>]`, `x[a<f>b-c=v]`, '
               '`x[title=p a<f>=q b-$$]`, `x.c<f>[k<f>=v]{t<f>}`); the second numbered element is `z[k<f>=v]`'
               % (len(NAME_FORMS), NAME_FORMS, len(ATTR_KINDS), ATTR_KINDS),
               'N1, N2 in 1..%d, maxRepeat in %s; html, output.format off' % (anmax, list(alimits)),
               'a case is (template, form, kind, N1, N2, maxRepeat) given as the resulting AST and limit', exhaustive=True)
    run_parallel(c, 'bounded.c02', 'check_repeat', attr_name_cases(anmax, alimits), chunk=1000)
    out.append(c.done())

    c = Clause('random-attribute-names', 'B',
               'seeded random ASTs of 2..8 elements, repeat counts from (1 2 3 4 5) with nested product <= 40; about 80 %% of the '
               'elements carry one or two attributes with a random numbering form in the name (value absent / plain / quoted / '
               'numbered), before or after the other attributes; random maxRepeat, syntax, format',
               '%d cases, seed %d' % (narand, seed), 'a case is (AST, maxRepeat, syntax, output.format)', exhaustive=False)
    run_parallel(c, 'bounded.c02', 'check_repeat', random_attr_name_cases(seed, narand), chunk=100)
    out.append(c.done())

    c = Clause('maxrepeat-call-history', 'B',
               'histories of two expand() calls on one shared `cache` dict: every abbreviation of the pool (every skeleton, every '
               'placement of repeaters with counts from %s, elements xJ.n$.k{t$$@-}) twice with every ordered pair of different limits '
               'from {none, 1..product+1}, and after its neighbour in the pool with limits {none, 1, 2, product} each; every call is '
               'compared with what the statement says for its own abbreviation and limit' % (hvalues,),
               '; '.join('%d elements, <=%d groups, <=%d repeaters' % s for s in hspaces) + '; html, output.format off',
               'a case is the list of (AST, maxRepeat) calls', exhaustive=True)
    run_parallel(c, 'bounded.c02', 'check_history', history_pair_cases(hspaces, hvalues), chunk=500)
    out.append(c.done())

    c = Clause('random-call-histories', 'B',
               'seeded random histories of 2..5 expand() calls with abbreviations of the same pool, random maxRepeat (30 % none), '
               'random syntax and format, cache shared by all calls (60 %) / fresh per call / absent',
               '%d histories, seed %d' % (nhrand, seed), 'a case is (calls, syntax, output.format, cache mode)', exhaustive=False)
    run_parallel(c, 'bounded.c02', 'check_history', random_history_cases(seed, nhrand, hspaces, hvalues), chunk=100)
    out.append(c.done())
    return out
