"""C03 bounded stand-in: attributes are carried over, merged and quoted as written.

The attribute list of every produced tag is read back with an independent tag reader (c03_tags.parse_markup)
and compared with `spec_attrs`, an executable reading of the property statement.  Where the statement is
silent (see notes/C03.md) the spec yields a *set* of acceptable renderings instead of one.
"""
import itertools
import random

from .common import Clause
from .c03_tags import parse_markup, MarkupError, run_parallel_sorted, time_limit

# one "mention" = one way of writing an attribute on an element
#   text: what is written; name: attribute it denotes; value: None = no value written, '' = explicitly empty
#   vt: 'raw' | 'quoted' | 'expr'
MENTIONS = {
    '#i':        {'name': 'id', 'value': 'i', 'vt': 'raw'},
    '#j':        {'name': 'id', 'value': 'j', 'vt': 'raw'},
    '.c':        {'name': 'class', 'value': 'c', 'vt': 'raw'},
    '.d':        {'name': 'class', 'value': 'd', 'vt': 'raw'},
    '[n=v]':     {'name': 'n', 'value': 'v', 'vt': 'raw'},
    '[n="v w"]': {'name': 'n', 'value': 'v w', 'vt': 'quoted'},
    "[n='x']":   {'name': 'n', 'value': 'x', 'vt': 'quoted'},
    '[n]':       {'name': 'n', 'value': None, 'vt': 'raw'},
    '[n.]':      {'name': 'n', 'value': None, 'vt': 'raw', 'boolean': True},
    '[!n]':      {'name': 'n', 'value': None, 'vt': 'raw', 'implied': True},
    '[n={e}]':   {'name': 'n', 'value': 'e', 'vt': 'expr'},
    '[n=""]':    {'name': 'n', 'value': '', 'vt': 'quoted'},
    '[m=1]':     {'name': 'm', 'value': '1', 'vt': 'raw'},
    '[m]':       {'name': 'm', 'value': None, 'vt': 'raw'},
    '[class=k]': {'name': 'class', 'value': 'k', 'vt': 'raw'},
    '[id=z]':    {'name': 'id', 'value': 'z', 'vt': 'raw'},
    '[!m=2]':    {'name': 'm', 'value': '2', 'vt': 'raw', 'implied': True},
    '[for=f]':   {'name': 'for', 'value': 'f', 'vt': 'raw'},
    '[onClick=h]': {'name': 'onClick', 'value': 'h', 'vt': 'raw'},
    '[id]':      {'name': 'id', 'value': None, 'vt': 'raw'},   # (a bare `#` would fuse with a following `#i` into `##i`)
    '[n=${1:t}]': {'name': 'n', 'value': 't', 'vt': 'raw'},   # a field: the default output.field prints its placeholder
    '[n m]':     None,   # two mentions in one set, expanded below
    '[n=v n]':   None,
    '[n n=v]':   None,
    # doubled (repeated) shorthand operator: still a class / id mention; 'multiple' selects the `name*` entry of
    # markup.attributes when there is one (clause attr-doubled-shorthand-name-maps)
    '..c':       {'name': 'class', 'value': 'c', 'vt': 'raw', 'multiple': True},
    '..d':       {'name': 'class', 'value': 'd', 'vt': 'raw', 'multiple': True},
    '...c':      {'name': 'class', 'value': 'c', 'vt': 'raw', 'multiple': True},
    '##i':       {'name': 'id', 'value': 'i', 'vt': 'raw', 'multiple': True},
    '##j':       {'name': 'id', 'value': 'j', 'vt': 'raw', 'multiple': True},
    # both modifiers on one attribute, a modifier together with a value (clause attr-modifier-combinations)
    '[!n.]':     {'name': 'n', 'value': None, 'vt': 'raw', 'boolean': True, 'implied': True},
    '[!m.]':     {'name': 'm', 'value': None, 'vt': 'raw', 'boolean': True, 'implied': True},
    '[!n.=v]':   {'name': 'n', 'value': 'v', 'vt': 'raw', 'boolean': True, 'implied': True},
    '[n.=v]':    {'name': 'n', 'value': 'v', 'vt': 'raw', 'boolean': True},
    '[!n=v]':    {'name': 'n', 'value': 'v', 'vt': 'raw', 'implied': True},
    '[!n.={e}]': {'name': 'n', 'value': 'e', 'vt': 'expr', 'boolean': True, 'implied': True},
    '[!n.=""]':  {'name': 'n', 'value': '', 'vt': 'quoted', 'boolean': True, 'implied': True},
    '[!hidden.]': {'name': 'hidden', 'value': None, 'vt': 'raw', 'boolean': True, 'implied': True},   # listed by default
    '[!n. m=1]': None,
    '[m=1 !n.]': None,
    '[!n. !m.]': None,
    '[n. !n]':   None,
}
# kinds that stand for several mentions written inside one attribute set
SET_MEMBERS = {
    '[n m]': ['[n]', '[m]'], '[n=v n]': ['[n=v]', '[n]'], '[n n=v]': ['[n]', '[n=v]'],
    '[!n. m=1]': ['[!n.]', '[m=1]'], '[m=1 !n.]': ['[m=1]', '[!n.]'], '[!n. !m.]': ['[!n.]', '[!m.]'],
    '[n. !n]': ['[n.]', '[!n]'],
}
EXHAUSTIVE_KINDS = ['#i', '.c', '.d', '[n=v]', '[n="v w"]', '[n]', '[n.]', '[!n]', '[n={e}]', '[m=1]', '[n=""]', '#j']
EXTRA_KINDS = ["[n='x']", '[m]', '[class=k]', '[id=z]', '[!m=2]', '[for=f]', '[onClick=h]', '[id]', '[n=${1:t}]']
SET_KINDS = ['[n m]', '[n=v n]', '[n n=v]']          # several mentions inside one attribute set

DROPPED = 'DROPPED'

# attribute name overrides of the syntaxes, as documented in emmet/config.py SYNTAX_CONFIG (jsx: class ->
# className, for -> htmlFor; the `class*` entries, which concern the `..x` shorthand, are in SYNTAX_ATTR_MAP_STAR)
SYNTAX_ATTR_MAP = {'jsx': {'class': 'className', 'for': 'htmlFor'}}
# the `name*` entries of the same documented tables: the name of an attribute written with a doubled shorthand
SYNTAX_ATTR_MAP_STAR = {'jsx': {'class*': 'styleName'}, 'vue': {'class*': ':class'}}
SYNTAX_SELFCLOSE = {'html': 'html', 'jsx': 'html', 'vue': 'html', 'xml': 'xml'}


def spec_attrs(mentions, syntax, options, strict_implied=False):
    """[(output name, {acceptable renderings})] in the order required by the statement.
    A rendering is ('q', value) (between the configured quotes), ('e', value) (between braces),
    ('bare',) (name only) or DROPPED.  The output name is a string, or a tuple of acceptable names where the
    statement is silent (an attribute merged from doubled and plain shorthand mentions).
    strict_implied: an attribute all of whose mentions are implied and valueless has the single acceptable rendering
    DROPPED, whatever other modifier (`name.`, listed boolean) it carries."""
    reverse = bool(options.get('output.reverseAttributes'))
    compact = bool(options.get('output.compactBoolean'))
    listed = options.get('output.booleanAttributes')
    if listed is None:
        listed = ['contenteditable', 'seamless', 'async', 'autofocus', 'autoplay', 'checked', 'controls', 'defer',
                  'disabled', 'formnovalidate', 'hidden', 'ismap', 'loop', 'multiple', 'muted', 'novalidate',
                  'readonly', 'required', 'reversed', 'selected', 'typemustmatch']
    case = options.get('output.attributeCase') or ''
    style = options.get('output.selfClosingStyle') or SYNTAX_SELFCLOSE[syntax]
    amap = dict(SYNTAX_ATTR_MAP.get(syntax, {}))
    amap.update(SYNTAX_ATTR_MAP_STAR.get(syntax, {}))
    if 'markup.attributes' in options:
        amap = dict(options['markup.attributes'])      # user options replace the syntax default (one dict key)

    order = []
    groups = {}
    for m in mentions:
        if m['name'] not in groups:
            groups[m['name']] = []
            order.append(m['name'])           # "in order of first mention"
        groups[m['name']].append(m)

    res = []
    for name in order:
        ms = groups[name]
        plain = amap.get(name, name)          # "attribute names are mapped through markup.attributes"
        names = []
        if not all(m.get('multiple') for m in ms):
            names.append(plain)
        if any(m.get('multiple') for m in ms):
            # a doubled shorthand (`..x`, `##x`) is looked up under `name*` first; without such an entry it is an ordinary
            # mention of `name`.  Mixed doubled / plain mentions of one attribute: silent, both names acceptable
            star = amap.get(name + '*') or plain
            if star not in names:
                names.append(star)
        if case == 'upper':
            names = [x.upper() for x in names]
        elif case == 'lower':
            names = [x.lower() for x in names]
        outname = names[0]
        if name == 'class':
            # "repeated class mentions are joined by single spaces in the order written"
            res.append((outname if len(names) == 1 else tuple(names), {('q', ' '.join(m['value'] for m in ms))}))
            continue
        # "for any other repeated attribute the last value wins (the first one under output.reverseAttributes)"
        seq = ms if reverse else ms[::-1]
        winner = seq[0]
        # the winning *mention* decides, also when it carries no value ("the last value wins" + "a name without value
        # gets an empty value": `[n=v][n]` is n=""), cf. notes
        value_cands = [(winner['value'], winner['vt'])]
        # "listed in output.booleanAttributes": the statement does not say whether a name that differs from a listed one
        # in letter case only counts as listed -> both readings (only relevant for mixed-case names, clause attr-name-case)
        listed_readings = {name in listed, name.lower() in listed}
        b_all = {is_listed or all(m.get('boolean') for m in ms) for is_listed in listed_readings}
        b_any = {is_listed or any(m.get('boolean') for m in ms) for is_listed in listed_readings}
        i_all = all(m.get('implied') for m in ms)
        i_any = any(m.get('implied') for m in ms)
        e_any = any(m['vt'] == 'expr' for m in ms)
        acc = set()
        for value, vt in value_cands:
            for boolean in b_all | b_any:               # silent: which mention's flag survives a merge
                for implied in {i_all, i_any}:
                    for is_expr in {vt == 'expr', e_any}:
                        for oname in names:
                            acc |= _render(value, boolean, implied, is_expr, compact, style, oname, name)
        if strict_implied and i_all and all(m['value'] is None for m in ms):
            acc = {DROPPED}                             # "implied attributes (`!name`) without value are dropped"
        res.append((outname if len(names) == 1 else tuple(names), acc))
    return res


def _render(value, boolean, implied, is_expr, compact, style, outname, name):
    def val(v):
        return ('e', v) if is_expr else ('q', v)
    if value:
        return {val(value)}                             # "values appear verbatim between the configured quotes (or braces)"
    outs = set()
    if implied:
        outs.add(DROPPED)                               # "implied attributes without value are dropped"
    if boolean:
        if compact:                                     # "... or the compact form"
            outs.add(('bare',))
            if style != 'html':
                outs.add(val(''))                       # XML-compatible compact form (silent in the statement)
        else:
            outs.add(val(outname))                      # "expand to name="name""
            outs.add(val(name))
    if value == '' or (not implied and not boolean):
        outs.add(val(''))                               # "a name without value gets an empty value"
    return outs


def _eq_name(a, b, case):
    if isinstance(b, tuple):
        return any(_eq_name(a, x, case) for x in b)
    return a.lower() == b.lower() if case else a == b


def _form_of(attr, quote):
    aname, kind, value = attr
    if kind == 'bare':
        return ('bare',)
    if kind == 'expr':
        return ('e', value)
    if kind == quote:
        return ('q', value)
    return None


def _form_ok(form, acc, outname, case):
    if form in acc:
        return True
    if case and form[0] in 'qe':
        return any(f != DROPPED and f[0] == form[0] and f[1].lower() == form[1].lower() and _eq_name(f[1], outname, case)
                   for f in acc)                        # boolean expansion follows the cased name
    return False


def compare_attrs(actual, expected, options):
    """actual: [(name, kind, value)] from the tag reader. Returns None or a description"""
    quote = 'sq' if options.get('output.attributeQuotes') == 'single' else 'dq'
    case = options.get('output.attributeCase') or ''
    what = _compare_in_order(actual, expected, quote, case)
    if what and case and _fits(actual, expected, 0, 0, quote, case):
        # under output.attributeCase two different attributes print under one name (`[!title][Title=a]`, `#j[Id !id]`): an
        # attribute that may be dropped must not claim the tag of its namesake - any consistent assignment is accepted
        return None
    return what


def _compare_in_order(actual, expected, quote, case):
    j = 0
    for outname, acc in expected:
        if j < len(actual) and _eq_name(actual[j][0], outname, case):
            form = _form_of(actual[j], quote)
            if form is None:
                return 'attribute %r is quoted with the wrong quote character (%s)' % (actual[j][0], actual[j][1])
            if not _form_ok(form, acc, outname, case):
                return 'attribute %r comes out as %r, acceptable per statement: %s' % (actual[j][0], form, sorted(map(repr, acc)))
            j += 1
        elif DROPPED in acc:
            continue
        else:
            return 'attribute %r missing or out of order (position %d of %r)' % (outname, j, [a[0] for a in actual])
    if j != len(actual):
        return 'unexpected extra attribute(s) %r' % (actual[j:],)
    return None


def _fits(actual, expected, i, j, quote, case):
    """is there an order-preserving assignment of the printed attributes actual[j:] to expected[i:] in which every expected
    attribute is either printed in an acceptable form or (if it may be dropped) absent?"""
    if i == len(expected):
        return j == len(actual)
    outname, acc = expected[i]
    if j < len(actual) and _eq_name(actual[j][0], outname, case):
        form = _form_of(actual[j], quote)
        if form is not None and _form_ok(form, acc, outname, case) and _fits(actual, expected, i + 1, j + 1, quote, case):
            return True
    return DROPPED in acc and _fits(actual, expected, i + 1, j, quote, case)


def _mentions_of(kinds):
    ms = []
    for k in kinds:
        if k in SET_MEMBERS:
            ms.extend(MENTIONS[x] for x in SET_MEMBERS[k])
        else:
            ms.append(MENTIONS[k])
    return ms


def effective(syntax, options):
    """the option row as handed to the library: a user `markup.attributes` is merged with the syntax default here, so
    that the expectation does not depend on how config.py layers a user dict over a syntax dict (not C03's business)"""
    opts = dict(options)
    if 'markup.attributes' in opts:
        m = {'class*': 'styleName'} if syntax == 'jsx' else ({'class*': ':class'} if syntax == 'vue' else {})
        m.update(SYNTAX_ATTR_MAP.get(syntax, {}))
        m.update(opts['markup.attributes'])
        opts['markup.attributes'] = m
    return opts


def _expand(abbr, syntax, options):
    from emmet import expand
    opts = dict(options)
    opts['output.format'] = False
    return expand(abbr, {'syntax': syntax, 'options': opts})


def check_seq(kinds, syntax, options, selfclose):
    """one element `p` + the mentions written in the given order"""
    return _check_seq(kinds, syntax, effective(syntax, options), selfclose, False)


def _check_seq(kinds, syntax, options, selfclose, strict_implied):
    abbr = 'p' + ''.join(kinds) + ('/' if selfclose else '')
    out = _expand(abbr, syntax, options)
    try:
        toks = parse_markup(out)
    except MarkupError as e:
        return '%s -> %r is not well-formed markup: %s' % (abbr, out, e)
    want_types = ['open'] if selfclose else ['open', 'close']
    if [t['type'] for t in toks] != want_types or toks[0]['name'] != 'p':
        return '%s (%s) -> %r: expected exactly one <p> element' % (abbr, syntax, out)
    what = compare_attrs(toks[0]['attrs'], spec_attrs(_mentions_of(kinds), syntax, options, strict_implied), options)
    if what:
        return '%s (%s, %r) -> %r: %s' % (abbr, syntax, options, out, what)
    return None


def check_multi(elems, syntax, options):
    """elems: [[tag name ('' = implied), [kinds], count]] rendered as  e0>e1+e2...; every element must carry
    exactly its own attributes"""
    return _check_multi(elems, syntax, effective(syntax, options), False)


def _check_multi(elems, syntax, options, strict_implied):
    parts = []
    for name, kinds, count in elems:
        parts.append(name + ''.join(kinds) + ('*%d' % count if count > 1 else ''))
    abbr = parts[0] + ('>' + '+'.join(parts[1:]) if len(parts) > 1 else '')
    out = _expand(abbr, syntax, options)
    try:
        toks = [t for t in parse_markup(out) if t['type'] == 'open']
    except MarkupError as e:
        return '%s -> %r is not well-formed markup: %s' % (abbr, out, e)
    expected = []
    for _ in range(elems[0][2]):                 # a repeated parent repeats its children with it
        expected.append((elems[0][0], elems[0][1]))
        for name, kinds, count in elems[1:]:
            for _ in range(count):
                expected.append((name, kinds))
    if len(toks) != len(expected):
        return '%s (%s) -> %r: %d elements expected, %d found' % (abbr, syntax, out, len(expected), len(toks))
    for t, (name, kinds) in zip(toks, expected):
        if name and t['name'] != name:
            return '%s (%s) -> %r: element <%s> where <%s> was expected' % (abbr, syntax, out, t['name'], name)
        what = compare_attrs(t['attrs'], spec_attrs(_mentions_of(kinds), syntax, options, strict_implied), options)
        if what:
            return '%s (%s, %r) -> %r: element <%s>: %s' % (abbr, syntax, options, out, t['name'], what)
    return None


# ---------------------------------------------------------------------------------------------
# doubled shorthands under user-supplied name tables (with and without `name*` entries)

DOUBLED_KINDS = ['..c', '..d', '##i', '##j', '...c', '.c', '.d', '#i', '[class=k]', '[id=z]', '[n=v]', '[for=f]']
# `markup.attributes` tables: None = the table of the active syntax; tables with a plain entry only, a `name*` entry only, both, neither
NAME_TABLES = [
    None,
    {'class': 'className', 'for': 'htmlFor', 'id': 'key'},
    {'class*': 'mods', 'id*': 'ids'},
    {'class': 'cls', 'class*': 'mods', 'id': 'key'},
    {'n': 'data-n', 'id*': 'ID2', 'class': 'klass'},
    {},
]
DOUBLED_OPTION_ROWS = [
    {},
    {'output.attributeQuotes': 'single', 'output.attributeCase': 'upper'},
    {'output.reverseAttributes': True},
    {'output.selfClosingStyle': 'xml', 'output.compactBoolean': True, 'output.booleanAttributes': ['n']},
]


def table_options(syntax, options):
    """option row of the doubled-shorthand clause as handed to the library.  html / xml have no table of their own: a
    user table is handed over exactly as given (so a table without `class*` really has none).  jsx / vue: merged with the
    syntax table as in effective().  jsx additionally defines `markup.valuePrefix` for `class*` (`..a` -> `{styles.a}`);
    value prefixes are not part of C03 ("values appear verbatim"), so they are switched off by an explicit empty table."""
    opts = effective(syntax, options) if syntax in ('jsx', 'vue') else dict(options)
    if syntax == 'jsx':
        opts['markup.valuePrefix'] = {}
    return opts


def check_doubled(kinds, syntax, options, selfclose):
    """one element `p` + mentions including doubled shorthands (`..c`, `##i`, `...c`) under a name table"""
    return _check_seq(kinds, syntax, table_options(syntax, options), selfclose, True)


def check_doubled_multi(elems, syntax, options):
    """several elements, each with its own (doubled) shorthands: every tag carries exactly its own attributes under
    the mapped names"""
    return _check_multi(elems, syntax, table_options(syntax, options), True)


def doubled_cases(kinds, maxlen, full_upto, per_seq):
    rows = []
    for t in NAME_TABLES:
        for o in DOUBLED_OPTION_ROWS:
            r = dict(o)
            if t is not None:
                r['markup.attributes'] = t
            rows.append(r)
    return seq_cases(kinds, maxlen, SYNTAXES, rows, full_upto=full_upto, per_seq=per_seq)


def doubled_multi_cases(rng, n):
    names = ['div', 'p', 'em', 'x-y', '']
    for _ in range(n):
        elems = []
        for i in range(rng.randint(2, 4)):
            ks = [rng.choice(DOUBLED_KINDS) for _ in range(rng.randint(0, 3))]
            name = rng.choice(names)
            if not name and not ks:
                name = 'p'
            elems.append([name, ks, rng.choice([1, 1, 1, 2])])
        o = dict(rng.choice(DOUBLED_OPTION_ROWS))
        t = rng.choice(NAME_TABLES)
        if t is not None:
            o['markup.attributes'] = t
        yield (elems, rng.choice(SYNTAXES), o)


# ---------------------------------------------------------------------------------------------
# modifier combinations on one attribute (`!name.`, `name.=v`, `!name=v` ...), written directly and in user snippets

MODIFIER_KINDS = ['[!n.]', '[!n.=v]', '[n.=v]', '[!n=v]', '[!m.]', '[!n. m=1]', '[m=1 !n.]', '[!n. !m.]', '[n. !n]',
                  '[!n.={e}]', '[!n.=""]', '[!hidden.]', '[!n]', '[n.]', '[n]', '[n=v]', '[m=1]', '.c']
SNIPPET_DEF_KINDS = ['[!n.]', '[!n]', '[n.]', '[n]', '[n=v]', '[m=1]', '[!n.=v]', '[!m.]', '[!n. m=1]', '[m=1 !n.]', '.c', '#i']
SNIPPET_USE_KINDS = ['[n=v]', '[n]', '[m=1]', '[n.]', '[!n]', '[!n.]', '.d', '#j', "[n='x']"]


def check_modifiers(kinds, syntax, options, selfclose):
    """one element `p` + mentions that combine the `!` / `.` modifiers with each other and with values"""
    return _check_seq(kinds, syntax, effective(syntax, options), selfclose, True)


def check_user_snippet(alias, tag, def_kinds, uses, syntax, options):
    """a user-supplied snippet `alias: tag + def_kinds` predefines the shape of an element; the abbreviation writes the
    alias once per entry of `uses` (siblings), each time with its own mentions.  Every produced tag must be <tag> with
    spec_attrs(definition mentions + written mentions): the definition's mentions are the earlier mentions of the same
    element.  Under output.reverseAttributes the statement does not say whether the definition or the abbreviation counts
    as written first, so both orders are acceptable there."""
    from emmet import expand
    options = effective(syntax, options)
    opts = dict(options)
    opts['output.format'] = False
    definition = tag + ''.join(def_kinds)
    abbr = '+'.join(alias + ''.join(ks) for ks in uses)
    out = expand(abbr, {'syntax': syntax, 'options': opts, 'snippets': {alias: definition}})
    where = '%s with snippet %s: %s (%s, %r) -> %r: ' % (abbr, alias, definition, syntax, options, out)
    try:
        tags = _open_tags(out)
    except MarkupError as e:
        return where + 'not well-formed markup: %s' % e
    if len(tags) != len(uses):
        return where + '%d elements expected, %d found' % (len(uses), len(tags))
    dm = _mentions_of(def_kinds)
    for (tname, tattrs), ks in zip(tags, uses):
        if tname != tag:
            return where + 'tag <%s> expected, <%s> found' % (tag, tname)
        um = _mentions_of(ks)
        what = compare_attrs(tattrs, spec_attrs(dm + um, syntax, options, True), options)
        if what and options.get('output.reverseAttributes'):
            what = compare_attrs(tattrs, spec_attrs(um + dm, syntax, options, True), options) and what
        if what:
            return where + 'element %s%s: %s' % (alias, ''.join(ks), what)
    return None


def user_snippet_cases(rng, option_sets, n_random):
    pairs = [(syn, o) for o in option_sets for syn in SYNTAXES]
    defs = [[]] + [[a] for a in SNIPPET_DEF_KINDS] + [[a, b] for a in SNIPPET_DEF_KINDS for b in SNIPPET_DEF_KINDS]
    uses = [[]] + [[a] for a in SNIPPET_USE_KINDS]
    k = 0
    for d in defs:
        for u in uses:
            for rep in range(2):
                syn, o = pairs[k % len(pairs)]
                k += 1
                yield (['sn', 'x-t'][k % 2], ['test', 'p', 'x-t'][k % 3], d, [u], syn, o)
    for _ in range(n_random):
        d = [rng.choice(SNIPPET_DEF_KINDS) for _ in range(rng.randint(1, 3))]
        us = [[rng.choice(SNIPPET_USE_KINDS) for _ in range(rng.randint(0, 3))] for _ in range(rng.randint(1, 3))]
        syn, o = rng.choice(pairs)
        yield (rng.choice(['sn', 'x-t', 'my:el']), rng.choice(['test', 'p', 'x-t']), d, us, syn, o)


# ---------------------------------------------------------------------------------------------
# snippet-backed elements, caller-supplied cache, call histories

SNIPPET_ELEMENTS = ['a', 'img', 'link', 'input', 'btn', 'form', 'video', 'iframe', 'input:text', 'select', 'script:src', 'bdo:r',
                    'button:s', 'opt', 'map', 'a:link']
PLAIN_ELEMENTS = ['p', 'div', 'em']
# alias -> (tag, mentions of its definition) for the aliases whose definition is a plain attribute list (emmet/snippets/html.py);
# used for the absolute expectation `alias[M]` == `tag[definition][M]` when attributes are not reversed
SNIPPET_DEFS = {
    'a': ('a', [('href', None)]), 'img': ('img', [('src', None), ('alt', None)]), 'link': ('link', [('rel', 'stylesheet'), ('href', None)]),
    'btn': ('button', []), 'form': ('form', [('action', None)]), 'video': ('video', [('src', None)]),
    'iframe': ('iframe', [('src', None), ('frameborder', '0')]), 'script:src': ('script', [('src', None)]),
    'bdo:r': ('bdo', [('dir', 'rtl')]), 'button:s': ('button', [('type', 'submit')]), 'opt': ('option', [('value', None)]),
    'map': ('map', [('name', None)]),
}
SNIPPET_KINDS = {
    '[href=u]': {'name': 'href', 'value': 'u', 'vt': 'raw'}, '[href]': {'name': 'href', 'value': None, 'vt': 'raw'},
    '[src=s]': {'name': 'src', 'value': 's', 'vt': 'raw'}, '[alt=A]': {'name': 'alt', 'value': 'A', 'vt': 'raw'},
    '[type=t]': {'name': 'type', 'value': 't', 'vt': 'raw'}, '[name=N]': {'name': 'name', 'value': 'N', 'vt': 'raw'},
    '.x': {'name': 'class', 'value': 'x', 'vt': 'raw'}, '.y': {'name': 'class', 'value': 'y', 'vt': 'raw'},
}
MENTIONS.update(SNIPPET_KINDS)


def _abbr_of(elems, shape):
    parts = [name + ''.join(kinds) + ('*%d' % count if count > 1 else '') for name, kinds, count in elems]
    if shape == 'child' and len(parts) > 1:
        return parts[0] + '>' + '+'.join(parts[1:])
    if shape == 'group2':
        return '(' + '+'.join(parts) + ')*2'
    return '+'.join(parts)


def _expected_sequence(elems, shape):
    if shape == 'child' and len(elems) > 1:
        seq = []
        for _ in range(elems[0][2]):
            seq.append(elems[0])
            for e in elems[1:]:
                seq.extend([e] * e[2])
        return seq
    seq = []
    for e in elems:
        seq.extend([e] * e[2])
    return seq * 2 if shape == 'group2' else seq


def _open_tags(out):
    return [(t['name'], t['attrs']) for t in parse_markup(out) if t['type'] == 'open']


_TIMEOUTS = 0


def check_snippet_elements(elems, shape, syntax, options, cache_mode, history):
    global _TIMEOUTS
    if _TIMEOUTS >= 2:
        return None          # this worker already reported two non-terminating cases; do not spend the budget on more
    try:
        with time_limit(4):
            return _check_snippet_elements(elems, shape, syntax, options, cache_mode, history)
    except TimeoutError as e:
        _TIMEOUTS += 1
        return '%s (%s, cache=%s, history=%r): %s (an element never gets its attributes)' % (
            _abbr_of(elems, shape), syntax, cache_mode, history and _abbr_of(history[0], history[1]), e)
    except (RecursionError, MemoryError) as e:
        return '%s (%s, cache=%s, history=%r): raised %s' % (
            _abbr_of(elems, shape), syntax, cache_mode, history and _abbr_of(history[0], history[1]), type(e).__name__)


def _check_snippet_elements(elems, shape, syntax, options, cache_mode, history):
    """elements backed by built-in snippets (and plain ones) with their own mentions, several per abbreviation.
    cache_mode: 'none' | 'dict' (config carries `cache: {}`) | 'config' (one Config object reused);
    history: None or [elems, shape] expanded first with the *same* config / cache object.
    Every produced tag must have exactly the attribute list that the same element written alone has under a fresh
    config ("become attributes of exactly that element": nothing of other elements or earlier calls), and, for
    aliases with a plain definition and attributes not reversed, the list spec_attrs(definition + mentions)."""
    from emmet import expand
    from emmet.config import Config
    options = effective(syntax, options)
    opts = dict(options)
    opts['output.format'] = False

    def fresh():
        return {'syntax': syntax, 'options': dict(opts)}

    cfg = fresh()
    if cache_mode in ('dict', 'config'):
        cfg['cache'] = {}
    target = Config(cfg) if cache_mode == 'config' else cfg
    trail = ''
    if history:
        habbr = _abbr_of(history[0], history[1])
        expand(habbr, target)
        trail = ' after expand(%r) with the same %s' % (habbr, 'Config object' if cache_mode == 'config' else 'config dict')
    abbr = _abbr_of(elems, shape)
    out = expand(abbr, target)
    where = '%s (%s, %r, cache=%s)%s -> %r: ' % (abbr, syntax, options, cache_mode, trail, out)
    try:
        tags = _open_tags(out)
    except MarkupError as e:
        return where + 'not well-formed markup: %s' % e
    seq = _expected_sequence(elems, shape)
    if len(tags) != len(seq):
        return where + '%d elements expected, %d found' % (len(seq), len(tags))
    alone_cache = {}
    for (tname, tattrs), (name, kinds, _) in zip(tags, seq):
        key = name + ''.join(kinds)
        if key not in alone_cache:
            alone_cache[key] = _open_tags(expand(key, fresh()))[0]
        aname, aattrs = alone_cache[key]
        if tname != aname or tattrs != aattrs:
            return where + 'element %s comes out as <%s %r>, but written alone under a fresh config it is <%s %r>' % (
                key, tname, tattrs, aname, aattrs)
        if name in SNIPPET_DEFS and not options.get('output.reverseAttributes'):
            tag, defs = SNIPPET_DEFS[name]
            ms = [{'name': n, 'value': v, 'vt': 'raw'} for n, v in defs] + _mentions_of(kinds)
            what = None if tname == tag else 'tag <%s> expected' % tag
            what = what or compare_attrs(tattrs, spec_attrs(ms, syntax, options), options)
            if what:
                return where + 'element %s (definition %s%s): %s' % (key, tag, ''.join(
                    '[%s%s]' % (n, '' if v is None else '=' + v) for n, v in defs), what)
    return None


def _rand_elems(rng, kinds, nmax):
    elems = []
    for _ in range(rng.randint(1, nmax)):
        name = rng.choice(SNIPPET_ELEMENTS + SNIPPET_ELEMENTS[:4] + PLAIN_ELEMENTS)
        ks = [rng.choice(kinds) for _ in range(rng.randint(0, 3))]
        elems.append([name, ks, rng.choice([1, 1, 1, 2])])
    return elems


def snippet_cases(rng, n_random, option_sets):
    kinds = ['#i', '#j', '.c', '.d', '[n=v]', '[n]', '[n.]', '[!n]', '[m=1]', '[class=k]', '[n="v w"]'] + list(SNIPPET_KINDS)
    small = ['', '.x', '.y', '#i', '[n=v]', '[href=u]', '[alt=A]']
    names = ['a', 'img', 'link', 'input', 'btn', 'input:text', 'p']
    modes = ['none', 'dict', 'config']
    # exhaustive: two elements, one mention each, in one abbreviation and as a two-call history
    k = 0
    for n1 in names:
        for n2 in names:
            for k1 in small:
                for k2 in small:
                    e1 = [n1, [k1] if k1 else [], 1]
                    e2 = [n2, [k2] if k2 else [], 1]
                    k += 1
                    syn = SYNTAXES[k % len(SYNTAXES)]
                    o = option_sets[k % len(option_sets)]
                    mode = modes[k % 3]
                    yield ([e1, e2], ['sib', 'child', 'group2'][k % 3], syn, o, mode, None)
                    yield ([e2], 'sib', syn, o, modes[1 + k % 2], [[e1], 'sib'])
    for _ in range(n_random):
        hist = None
        mode = rng.choice(modes)
        if rng.random() < 0.5:
            hist = [_rand_elems(rng, kinds, 3), rng.choice(['sib', 'child', 'group2'])]
            mode = rng.choice(modes[1:] + ['none'])
        yield (_rand_elems(rng, kinds, 4), rng.choice(['sib', 'child', 'group2']), rng.choice(SYNTAXES), rng.choice(option_sets), mode, hist)


# ---------------------------------------------------------------------------------------------
# attribute names that differ in letter case only (`viewBox` / `viewbox`, `Class` / `class`, `ID` / `id`): the statement
# merges *repeated* attributes, i.e. mentions of the same name; a differently spelled name is another attribute

CASE_FAMILIES = [
    ['title', 'Title', 'TITLE'],
    ['viewBox', 'viewbox', 'VIEWBOX'],
    ['onClick', 'onclick'],
    ['class', 'Class', 'CLASS'],
    ['id', 'ID', 'Id'],
    ['key', 'Key'],
    ['for', 'For', 'FOR'],
    ['dataX', 'datax', 'DataX'],
    ['xlink:href', 'xlink:Href'],
    ['data-a', 'data-A'],
    ['href', 'Href', 'HREF'],          # also predefined by the built-in snippets a / link
    ['src', 'SRC'],                    # ... img / iframe / video
]
CASE_FORMS = ['raw', 'quoted', 'none', 'bool', 'implied', 'expr']
CASE_SHORTHANDS = ['.c', '.d', '#i', '#j']
CASE_NEUTRAL = ['[m=1]', '[n=v]']
CASE_KINDS = {}           # spelling -> [kinds]


def _case_kind(spelling, idx, form):
    """kind text + mention of one way of writing the attribute `spelling`; every (spelling, form) has a value of its own,
    so the reader can tell whose value was printed"""
    if form == 'raw':
        return '[%s=r%d]' % (spelling, idx), {'name': spelling, 'value': 'r%d' % idx, 'vt': 'raw'}
    if form == 'quoted':
        return '[%s="q %d"]' % (spelling, idx), {'name': spelling, 'value': 'q %d' % idx, 'vt': 'quoted'}
    if form == 'none':
        return '[%s]' % spelling, {'name': spelling, 'value': None, 'vt': 'raw'}
    if form == 'bool':
        return '[%s.]' % spelling, {'name': spelling, 'value': None, 'vt': 'raw', 'boolean': True}
    if form == 'implied':
        return '[!%s]' % spelling, {'name': spelling, 'value': None, 'vt': 'raw', 'implied': True}
    return '[%s={e%d}]' % (spelling, idx), {'name': spelling, 'value': 'e%d' % idx, 'vt': 'expr'}


def _register_case_kinds():
    for fam in CASE_FAMILIES:
        for idx, sp in enumerate(fam):
            # a valueless / modifier-only / expression mention of `class` itself is outside the statement ("not checked on
            # purpose" in the notes); `Class` and `CLASS` are ordinary attributes and get every form
            forms = ['raw', 'quoted'] if sp == 'class' else CASE_FORMS
            CASE_KINDS[sp] = []
            for f in forms:
                text, mention = _case_kind(sp, idx, f)
                MENTIONS.setdefault(text, mention)
                CASE_KINDS[sp].append(text)


_register_case_kinds()

_CASE_TABLE = {'Title': 'x-title', 'viewbox': 'vb', 'ID': 'key2', 'Class': 'klass', 'onclick': 'on-click', 'FOR': 'html-for',
               'data-A': 'data-b', 'Href': 'to'}
CASE_OPTION_ROWS = [
    {},
    {'output.attributeQuotes': 'single'},
    {'output.reverseAttributes': True},
    {'output.compactBoolean': True},
    {'output.attributeCase': 'upper'},
    {'output.attributeCase': 'lower'},
    {'output.selfClosingStyle': 'xml', 'output.compactBoolean': True, 'output.reverseAttributes': True},
    {'output.booleanAttributes': ['title', 'key', 'viewbox', 'datax']},
    {'markup.attributes': _CASE_TABLE},
    {'markup.attributes': _CASE_TABLE, 'output.reverseAttributes': True, 'output.attributeQuotes': 'single'},
    {'output.booleanAttributes': ['Title', 'id'], 'output.compactBoolean': True, 'output.selfClosingStyle': 'xhtml'},
]


def _render_segments(segments):
    """segments: [[kind, ...]]; a segment of several bracket kinds is written as one attribute set `[a=1 b c=2]`"""
    parts = []
    for seg in segments:
        if len(seg) == 1:
            parts.append(seg[0])
        else:
            assert all(k.startswith('[') and k.endswith(']') for k in seg), seg
            parts.append('[' + ' '.join(k[1:-1] for k in seg) + ']')
    return ''.join(parts)


def check_case_names(elems, syntax, options, selfclose):
    """elems: [[tag name ('' = implied), segments, count]] rendered as e0>e1+e2...; the mentions use attribute names that
    differ from each other in letter case only, next to exact repeats, shorthands and unrelated attributes.  Every tag
    must carry spec_attrs(its mentions): mentions are grouped by the name *as written*"""
    options = effective(syntax, options)
    parts = []
    for name, segments, count in elems:
        parts.append(name + _render_segments(segments) + ('*%d' % count if count > 1 else ''))
    abbr = parts[0] + ('>' + '+'.join(parts[1:]) if len(parts) > 1 else '')
    if selfclose and len(parts) == 1 and elems[0][2] == 1:
        abbr += '/'
    out = _expand(abbr, syntax, options)
    try:
        toks = [t for t in parse_markup(out) if t['type'] == 'open']
    except MarkupError as e:
        return '%s -> %r is not well-formed markup: %s' % (abbr, out, e)
    expected = []
    for _ in range(elems[0][2]):
        expected.append((elems[0][0], elems[0][1]))
        for name, segments, count in elems[1:]:
            for _ in range(count):
                expected.append((name, segments))
    if len(toks) != len(expected):
        return '%s (%s) -> %r: %d elements expected, %d found' % (abbr, syntax, out, len(expected), len(toks))
    for t, (name, segments) in zip(toks, expected):
        if name and t['name'] != name:
            return '%s (%s) -> %r: element <%s> where <%s> was expected' % (abbr, syntax, out, t['name'], name)
        kinds = [k for seg in segments for k in seg]
        what = compare_attrs(t['attrs'], spec_attrs(_mentions_of(kinds), syntax, options, True), options)
        if what:
            return '%s (%s, %r) -> %r: element <%s>: %s' % (abbr, syntax, options, out, t['name'], what)
    return None


def case_pair_cases(rows, nsyn=4):
    """exhaustive core: two mentions a, b of one family (every ordered pair of spellings incl. the same spelling = a real
    repeat, every pair of forms) in six arrangements; each under `nsyn` syntaxes (rotating window), option row rotating"""
    k = 0
    w = 0
    for fam in CASE_FAMILIES:
        for s1 in fam:
            for s2 in fam:
                for a in CASE_KINDS[s1]:
                    for b in CASE_KINDS[s2]:
                        arrangements = [
                            [[a], [b]],                        # p[a][b]
                            [[a, b]],                          # p[a b]
                            [[a, '[m=1]', b]],                 # p[a m=1 b]
                            [['.c'], [a], ['#i'], [b]],        # p.c[a]#i[b]
                            [[a], [b], ['.d'], [a]],           # p[a][b].d[a]: a repeat across another spelling
                            [['#j'], [b, a], ['.c'], ['.d']],
                        ]
                        for segs in arrangements:
                            w += 1
                            for d in range(nsyn):
                                syn = SYNTAXES[((w + w // len(arrangements)) * nsyn + d) % len(SYNTAXES)]
                                k += 1
                                yield ([['p', segs, 1]], syn, rows[k % len(rows)], k % 3 == 0)


def _rand_segments(rng, pool, nmax):
    kinds = [rng.choice(pool) for _ in range(rng.randint(0, nmax))]
    segs = []
    for kd in kinds:
        if segs and kd.startswith('[') and segs[-1][0].startswith('[') and rng.random() < 0.5:
            segs[-1].append(kd)
        else:
            segs.append([kd])
    return segs


def case_random_cases(rng, n, rows):
    names = ['div', 'p', 'svg', 'item', 'x-y', '']
    for _ in range(n):
        elems = []
        for _e in range(rng.randint(1, 3)):
            pool = list(CASE_SHORTHANDS) + list(CASE_NEUTRAL)
            for fam in rng.sample(CASE_FAMILIES, 2):
                for sp in fam:
                    pool.extend(CASE_KINDS[sp])
            segs = _rand_segments(rng, pool, 5)
            name = rng.choice(names)
            if not name and not segs:
                name = 'p'
            elems.append([name, segs, rng.choice([1, 1, 1, 2])])
        yield (elems, rng.choice(SYNTAXES), rng.choice(rows), rng.random() < 0.3)


def case_user_snippet_cases(rng, n, rows):
    """user snippet `alias: tag + D`, used as `alias + U`: D and U from one family (+ shorthands), so the abbreviation
    writes another spelling of a name the definition already has"""
    for _ in range(n):
        fam = rng.choice(CASE_FAMILIES)
        pool = [kd for sp in fam for kd in CASE_KINDS[sp]]
        d = [rng.choice(pool + ['.c', '#i']) for _ in range(rng.randint(1, 3))]
        us = [[rng.choice(pool + ['.d', '#j', '[m=1]']) for _ in range(rng.randint(0, 3))] for _ in range(rng.randint(1, 2))]
        yield (rng.choice(['sn', 'x-t', 'my:el']), rng.choice(['test', 'p', 'svg']), d, us, rng.choice(SYNTAXES), rng.choice(rows))


def case_builtin_snippet_cases(rows):
    """built-in snippets with a plain definition (`a[href]`, `img[src alt]`, `link[rel=stylesheet href]`, `iframe[src
    frameborder=0]`, `video[src]`) + one or two mentions spelled like / unlike the predefined name"""
    k = 0
    for alias, fams in [('a', ['href']), ('link', ['href']), ('img', ['src']), ('iframe', ['src']), ('video', ['src'])]:
        pool = [kd for fam in CASE_FAMILIES if fam[0] in fams for sp in fam for kd in CASE_KINDS[sp]]
        seqs = [[a] for a in pool] + [[a, b] for a in pool for b in pool] + [[a, '.x', b] for a in pool[::2] for b in pool[1::2]]
        for ks in seqs:
            k += 1
            syn = SYNTAXES[k % len(SYNTAXES)]
            o = rows[(k // len(SYNTAXES)) % len(rows)]
            yield ([[alias, ks, 1]], 'sib', syn, o, 'none', None)


# ---------------------------------------------------------------------------------------------
# values that contain quote characters: "values appear verbatim between the configured quotes (or braces)"
# The generic tag reader cannot delimit `title="say "hi""`, so the expectation here is the *whole output string*, built from
# the statement: <tag + for every attribute (spec_attrs order / merge) ` name=Q + value + Q` (Q = the quote selected by
# output.attributeQuotes, whatever the value contains) or ` name={value}` + >.

QUOTE_TEMPLATES = ['Q', 'aQ', 'Qa', 'aQb', 'QQ', 'say QhiQ', 'a Qb', 'Q Q', '5Q x', 'QaQbQ', 'it Qs', 'Q-Q_Q']
QUOTE_PLAIN = ['v', 'v w', 'a-b_c']
QUOTE_EXPRS = ['e', 'a"b', "a'b", '"', "'", 'x\'y"z', 'f("s")']
QUOTE_NAMES = ['title', 'n', 'data-x', 'alt', 'onClick', 'class', 'id', 'for']
QUOTE_TAGS = ['p', 'div', 'item', 'x-y']
QUOTE_SHORTHANDS = [['class', 'c', 'sh'], ['class', 'd', 'sh'], ['id', 'i', 'sh'], ['id', 'j', 'sh']]
_QUOTE_TABLE = {'title': 'data-title', 'n': 'data-n', 'id': 'ID2'}
QUOTE_OPTION_ROWS = [
    {},
    {'output.attributeQuotes': 'double'},
    {'output.attributeQuotes': 'single'},
    {'output.attributeQuotes': 'single', 'output.reverseAttributes': True},
    {'output.reverseAttributes': True},
    {'output.attributeQuotes': 'single', 'output.attributeCase': 'upper'},
    {'output.attributeQuotes': 'double', 'output.selfClosingStyle': 'xml', 'output.compactBoolean': True},
    {'output.attributeQuotes': 'single', 'markup.attributes': _QUOTE_TABLE},
    {'markup.attributes': _QUOTE_TABLE, 'output.selfClosingStyle': 'xhtml'},
    {'output.attributeQuotes': 'single', 'output.booleanAttributes': ['n', 'title'], 'output.compactBoolean': True},
    {'output.booleanAttributes': ['n', 'title', 'alt'], 'output.attributeCase': 'lower'},
]


def quote_writings():
    """[value, how it is written] for every value of the pools: a value containing `"` can only be written between `'` and
    vice versa; a value without quote characters is written between either, or bare when it has no blank; 'expr' = `{value}`"""
    res = []
    for t in QUOTE_TEMPLATES:
        res.append([t.replace('Q', '"'), 'sq'])
        res.append([t.replace('Q', "'"), 'dq'])
    for v in QUOTE_PLAIN:
        res.append([v, 'dq'])
        res.append([v, 'sq'])
        if ' ' not in v:
            res.append([v, 'raw'])
    for v in QUOTE_EXPRS:
        res.append([v, 'expr'])
    return res


def _quote_item_text(item):
    name, value, wq = item
    if wq == 'sh':
        return ('.' if name == 'class' else '#') + value
    if wq == 'dq':
        return '%s="%s"' % (name, value)
    if wq == 'sq':
        return "%s='%s'" % (name, value)
    if wq == 'expr':
        return '%s={%s}' % (name, value)
    return '%s=%s' % (name, value)


def _quote_abbr(elems, selfclose):
    parts = []
    for tag, segments in elems:
        s = tag
        for seg in segments:
            if seg[0][2] == 'sh':
                s += ''.join(_quote_item_text(i) for i in seg)
            else:
                s += '[' + ' '.join(_quote_item_text(i) for i in seg) + ']'
        parts.append(s)
    return '>'.join(parts) + ('/' if selfclose else '')


def _quote_expected_tags(segments, syntax, options):
    """acceptable texts of the attribute part of one open tag"""
    ms = [{'name': n, 'value': v, 'vt': 'expr' if wq == 'expr' else ('raw' if wq in ('raw', 'sh') else 'quoted')}
          for seg in segments for n, v, wq in seg]
    q = "'" if options.get('output.attributeQuotes') == 'single' else '"'
    texts = ['']
    for outname, acc in spec_attrs(ms, syntax, options, True):
        assert isinstance(outname, str) and DROPPED not in acc and ('bare',) not in acc, (outname, acc)
        alts = sorted(' %s=%s%s%s' % (outname, q, f[1], q) if f[0] == 'q' else ' %s={%s}' % (outname, f[1]) for f in acc)
        texts = [t + a for t in texts for a in alts]
    return texts


def check_quote_values(elems, syntax, options, selfclose):
    """elems: [[tag, segments]] written as the chain e0>e1>..., segments: [[ [name, value, how written], ...]] (one segment =
    one attribute set or a run of shorthands).  The complete output must be the nested tags with, per tag, exactly the
    attributes of spec_attrs, every value verbatim between the *configured* quote character (or braces)"""
    options = effective(syntax, options)
    abbr = _quote_abbr(elems, selfclose)
    out = _expand(abbr, syntax, options)
    case = options.get('output.attributeCase') or ''
    heads = ['']
    for k, (tag, segments) in enumerate(elems):
        last = k == len(elems) - 1
        closers = ['>', '/>', ' />'] if (last and selfclose) else ['>']    # how `tag/` is closed is not C03's business
        heads = [h + '<' + tag + a + c for h in heads for a in _quote_expected_tags(segments, syntax, options) for c in closers]
    tail = ''.join('</%s>' % tag for tag, _ in (elems[:-1] if selfclose else elems)[::-1])
    acceptable = [h + tail for h in heads]
    ok = out in acceptable
    if not ok and case:
        # the statement names output.attributeCase but not its effect: names are compared case-insensitively; values are not
        # (no value of this clause differs from an attribute name in case only)
        ok = any(_eq_ignoring_name_case(out, a) for a in acceptable)
    if ok:
        return None
    return '%s (%s, %r) -> %r; per statement (configured quote %s around the verbatim value): %s' % (
        abbr, syntax, options, out, 'single' if options.get('output.attributeQuotes') == 'single' else 'double',
        ' or '.join(repr(a) for a in acceptable[:4]))


def _eq_ignoring_name_case(out, want):
    if len(out) != len(want):
        return False
    for i, (a, b) in enumerate(zip(out, want)):
        if a != b:
            if a.lower() != b.lower():
                return False
            # a case difference is tolerated only inside an attribute name, i.e. in a run of name characters that ends at `=`
            j = i
            while j < len(want) and (want[j].isalnum() or want[j] in '-_:'):
                j += 1
            if j >= len(want) or want[j] != '=':
                return False
    return True


def quote_single_cases(rows):
    ws = quote_writings()
    k = 0
    for v, wq in ws:
        for syn in SYNTAXES:
            for o in rows:
                k += 1
                name = QUOTE_NAMES[k % len(QUOTE_NAMES)]
                if wq == 'expr' and name == 'class':
                    name = 'title'
                yield ([[QUOTE_TAGS[k % len(QUOTE_TAGS)], [[[name, v, wq]]]]], syn, o, k % 3 == 0)


def quote_pair_cases(rows):
    ws = quote_writings()
    k = 0
    names = [n for n in QUOTE_NAMES if n != 'class']
    for v1, w1 in ws:
        for v2, w2 in ws:
            k += 1
            n1 = names[k % len(names)]
            n2 = names[(k + 1 + k // len(names)) % len(names)]
            if n2 == n1:
                n2 = 'lang'
            a, b, b_same = [n1, v1, w1], [n2, v2, w2], [n1, v2, w2]
            c1 = ['class', v1, w1] if w1 != 'expr' else ['class', 'k', 'raw']
            arrangements = [
                [['p', [[a], [b]]]],                                   # p[a][b]
                [['p', [[a, b]]]],                                     # p[a b]
                [['p', [[a], [b_same]]]],                              # a repeat: last (first under reverse) wins
                [['p', [[QUOTE_SHORTHANDS[0]], [a], [QUOTE_SHORTHANDS[2]], [b]]]],
                [['div', [[a]]], ['p', [[b]]]],                        # div[a]>p[b]: each value on its own element
                [['p', [[c1], [QUOTE_SHORTHANDS[1]], [b]]]],           # class value with quote characters joined with `.d`
            ]
            for j, elems in enumerate(arrangements):
                kk = k * len(arrangements) + j
                yield (elems, SYNTAXES[(kk + kk // len(rows)) % len(SYNTAXES)], rows[kk % len(rows)], kk % 3 == 0)


def quote_random_cases(rng, n, rows):
    ws = quote_writings()
    for _ in range(n):
        elems = []
        for _e in range(rng.randint(1, 3)):
            segs = []
            for _s in range(rng.randint(0 if elems else 1, 4)):
                if rng.random() < 0.25:
                    segs.append([rng.choice(QUOTE_SHORTHANDS)])
                    continue
                seg = []
                for _i in range(rng.choice([1, 1, 2, 3])):
                    v, wq = rng.choice(ws)
                    name = rng.choice(QUOTE_NAMES)
                    if name == 'class' and wq == 'expr':
                        name = 'alt'          # an expression mention of `class` is outside the statement (cf. notes)
                    seg.append([name, v, wq])
                segs.append(seg)
            elems.append([rng.choice(QUOTE_TAGS), segs])
        yield (elems, rng.choice(SYNTAXES), rng.choice(rows), rng.random() < 0.3)


# ---------------------------------------------------------------------------------------------

SYNTAXES = ['html', 'xml', 'jsx', 'vue']

OPTION_AXES = [
    ('output.attributeQuotes', ['double', 'single']),
    ('output.compactBoolean', [False, True]),
    ('output.booleanAttributes', [None, ['n'], []]),
    ('output.reverseAttributes', [False, True]),
    ('output.selfClosingStyle', [None, 'html', 'xhtml', 'xml']),
    ('output.attributeCase', [None, 'upper']),
    ('markup.attributes', [None, {'n': 'data-n', 'id': 'ID2'}]),
]


def all_option_sets():
    for combo in itertools.product(*[vals for _, vals in OPTION_AXES]):
        yield {k: v for (k, _), v in zip(OPTION_AXES, combo) if v is not None}


def covering_option_sets(rng, rows):
    """seeded rows: defaults, every non-default value of every axis alone, then random multi-axis rows"""
    res = [{}]
    for k, vals in OPTION_AXES:
        for v in vals[1:]:
            res.append({k: v})
    while len(res) < rows:
        o = {}
        for k, vals in OPTION_AXES:
            v = rng.choice(vals)
            if v is not None:
                o[k] = v
        if o not in res:
            res.append(o)
    return res[:max(rows, 1)]


def seq_cases(kinds, maxlen, syntaxes, option_sets, full_upto=None, per_seq=8):
    """sequences up to `full_upto` under every (syntax, option row) pair; longer ones under `per_seq` pairs each, the
    window rotating with the sequence number so that all pairs are used equally often"""
    pairs = [(si, oi) for oi in range(len(option_sets)) for si in range(len(syntaxes))]
    if full_upto is None:
        full_upto = maxlen
    k = 0
    for n in range(0, maxlen + 1):
        for seq in itertools.product(kinds, repeat=n):
            if n <= full_upto:
                sel = pairs
            else:
                sel = [pairs[(k * per_seq + d) % len(pairs)] for d in range(min(per_seq, len(pairs)))]
                k += 1
            for si, oi in sel:
                yield (list(seq), syntaxes[si], option_sets[oi], (n + si + oi) % 3 == 0)


def multi_cases_exhaustive(kinds, syntaxes, option_sets, all_syntaxes=True):
    pool = [[]] + [[k] for k in kinds]
    k = 0
    for a in pool:
        for b in pool:
            for c in pool:
                if not (a or b or c):
                    continue
                k += 1
                for oi, o in enumerate(option_sets):
                    for syn in (syntaxes if all_syntaxes else [syntaxes[(k + oi) % len(syntaxes)]]):
                        yield ([['div', a, 1], ['p', b, 1], ['em', c, 1]], syn, o)


def multi_cases_random(rng, n, kinds, option_sets):
    names = ['div', 'p', 'em', 'x-y', 'section', '']
    for _ in range(n):
        elems = []
        for i in range(rng.randint(1, 4)):
            ks = [rng.choice(kinds) for _ in range(rng.randint(0, 4))]
            name = rng.choice(names)
            if not name and not ks:
                name = 'p'
            elems.append([name, ks, rng.choice([1, 1, 1, 2])])
        yield (elems, rng.choice(SYNTAXES), rng.choice(option_sets))


def run(tier, seed):
    rng = random.Random(seed)
    quick = tier == 'quick'
    cover = covering_option_sets(rng, 16 if quick else 40)
    allsets = list(all_option_sets())

    c1 = Clause('attr-sequences-exhaustive', 'B',
                'all sequences of attribute mentions from %r on one element `p` (every third case written self-closing `p.../`)'
                % (EXHAUSTIVE_KINDS,),
                'sequence length <= 4; syntaxes %r x %d option rows (defaults, each non-default option value alone, seeded random multi-option rows '
                'over %s): lengths <= %d under all %d (syntax, row) pairs, length 4 under %s'
                % (SYNTAXES, len(cover), [k for k, _ in OPTION_AXES], 3 if quick else 4, 4 * len(cover),
                   '8 pairs per sequence (window rotating over all pairs)' if quick else 'all pairs'),
                'a case is (mention sequence, syntax, option row); the attribute list of the produced tag is compared with spec_attrs',
                exhaustive=True)
    run_parallel_sorted(c1, 'bounded.c03', 'check_seq', seq_cases(EXHAUSTIVE_KINDS, 4, SYNTAXES, cover, full_upto=3 if quick else 4), chunk=2000)
    c1.done()

    c2 = Clause('attr-options-exhaustive', 'B',
                'all sequences of mentions from %r, full cross product of the option axes' % (EXHAUSTIVE_KINDS + EXTRA_KINDS + SET_KINDS,),
                'sequence length <= %d, syntaxes %r, all %d combinations of %s' % (
                    2, SYNTAXES, len(allsets), [(k, v) for k, v in OPTION_AXES]),
                'a case is (mention sequence, syntax, option combination)', exhaustive=True)
    kinds2 = EXHAUSTIVE_KINDS + EXTRA_KINDS + SET_KINDS
    sets2 = allsets if not quick else allsets[::7]
    if quick:
        c2.bound += ' -- quick tier: every seventh option combination (%d)' % len(sets2)
        c2.exhaustive = False
    run_parallel_sorted(c2, 'bounded.c03', 'check_seq', seq_cases(kinds2, 2, SYNTAXES, sets2), chunk=2000)
    c2.done()

    c3 = Clause('attr-owner-element', 'B',
                'div[A]>p[B]+em[C] with A, B, C each empty or one mention (exhaustive) plus seeded random abbreviations of 1-4 '
                'elements (names incl. the implied one), 0-4 mentions each, repeat counts 1-2',
                'exhaustive part: %d kinds, 3 elements, %s x %d option rows; random part: %d cases' % (
                    len(kinds2), 'one syntax per case (rotating over %r)' % (SYNTAXES,) if quick else 'syntaxes %r' % (SYNTAXES,),
                    3 if quick else 8, 6000 if quick else 60000),
                'a case is (elements with their mentions, syntax, option row); every produced tag must carry exactly the '
                'attributes written on it', exhaustive=False)
    k3 = kinds2
    cases3 = itertools.chain(multi_cases_exhaustive(k3, SYNTAXES, cover[:3] if quick else cover[:8], all_syntaxes=not quick),
                             multi_cases_random(rng, 6000 if quick else 60000, k3, cover))
    run_parallel_sorted(c3, 'bounded.c03', 'check_multi', cases3, chunk=2000)
    c3.done()

    n4 = 8000 if quick else 120000
    c4 = Clause('attr-snippet-elements-and-cache', 'B',
                'abbreviations with several snippet-backed elements (%r) and plain ones, each with its own mentions, as siblings, '
                'parent>children or a group repeated twice; config without cache / with `cache: {}` / one Config object reused; '
                'optionally preceded by another expansion with the same config (two-call history)' % (SNIPPET_ELEMENTS,),
                'exhaustive: 7 names x 7 single mentions, two elements, once in one abbreviation and once as a two-call history '
                '(syntax, option row, cache mode, shape rotating); random: %d cases of 1-4 elements with 0-3 mentions, half of them with a history' % n4,
                'a case is (elements, shape, syntax, option row, cache mode, history); every tag must equal the tag of the same element '
                'written alone under a fresh config, and for aliases with a plain definition spec_attrs(definition + mentions)', exhaustive=False)
    run_parallel_sorted(c4, 'bounded.c03', 'check_snippet_elements', snippet_cases(rng, n4, cover), chunk=500)
    c4.done()

    rng5 = random.Random(seed * 7919 + 5)          # own stream: the cases of the clauses above stay what they were
    n5 = 3000 if quick else 30000
    c5 = Clause('attr-doubled-shorthand-name-maps', 'B',
                'all sequences of mentions from %r (doubled / tripled shorthand operators next to plain shorthands and bracket '
                'mentions of the same names) on one element `p` under the `markup.attributes` tables %r, plus seeded random '
                'abbreviations of 2-4 elements (0-3 such mentions each)' % (DOUBLED_KINDS, NAME_TABLES),
                'sequence length <= 3; syntaxes %r x %d tables x %d option rows %r: lengths <= 2 under all %d (syntax, table, row) '
                'triples, length 3 under %s; %d random multi-element cases'
                % (SYNTAXES, len(NAME_TABLES), len(DOUBLED_OPTION_ROWS), DOUBLED_OPTION_ROWS,
                   4 * len(NAME_TABLES) * len(DOUBLED_OPTION_ROWS), '4 triples per sequence (rotating window)' if quick else 'all triples', n5),
                'a case is (mention sequence or elements, syntax, option row incl. table); the attribute list of every tag is compared '
                'with spec_attrs: a doubled mention is named by the `name*` entry if the table has one, else like a plain mention',
                exhaustive=False)
    run_parallel_sorted(c5, 'bounded.c03', 'check_doubled', doubled_cases(DOUBLED_KINDS, 3, 2 if quick else 3, 4), chunk=1000)
    first = list(c5.violations)
    c5.violations = []
    run_parallel_sorted(c5, 'bounded.c03', 'check_doubled_multi', doubled_multi_cases(rng5, n5), chunk=500)
    c5.violations = (first[:25] + c5.violations[:25]) if first and c5.violations else (first + c5.violations)
    c5.done()

    n6 = 4000 if quick else 40000
    c6 = Clause('attr-modifier-combinations', 'B',
                'all sequences of mentions from %r (one attribute carrying both `!` and `.`, a modifier together with a value, '
                'several such attributes in one set) on one element `p`; and user-supplied snippets `alias: tag + D` (D: 0-2 mentions '
                'from %r, exhaustive; 1-3 random) used as `alias + U` (U from %r), once or as 1-3 siblings'
                % (MODIFIER_KINDS, SNIPPET_DEF_KINDS, SNIPPET_USE_KINDS),
                'direct: sequence length <= 3, syntaxes %r x %d option rows (as in attr-sequences-exhaustive): lengths <= 2 under all pairs, '
                'length 3 under %s; snippets: all D of length <= 2 x U of length <= 1 (twice, (syntax, row) rotating) + %d random cases'
                % (SYNTAXES, len(cover), '2 pairs per sequence (rotating window)' if quick else 'all pairs', n6),
                'a case is (mention sequence, syntax, option row) or (alias, tag, definition mentions, written mentions per element, '
                'syntax, option row); expectation spec_attrs(definition mentions + written mentions) with the strict reading '
                '"implied without value -> dropped" for attributes whose mentions are all implied', exhaustive=False)
    run_parallel_sorted(c6, 'bounded.c03', 'check_modifiers', seq_cases(MODIFIER_KINDS, 3, SYNTAXES, cover, full_upto=2 if quick else 3, per_seq=2),
                        chunk=1000)
    first = list(c6.violations)
    c6.violations = []
    run_parallel_sorted(c6, 'bounded.c03', 'check_user_snippet', user_snippet_cases(rng5, cover, n6), chunk=500)
    c6.violations = (first[:25] + c6.violations[:25]) if first and c6.violations else (first + c6.violations)
    c6.done()

    rng7 = random.Random(seed * 7919 + 7)          # own stream again
    n7, n7s = (4000, 2000) if quick else (40000, 20000)
    c7 = Clause('attr-name-case', 'B',
                'mentions whose attribute names differ in letter case only (families %r; forms name=value, name="quoted value", '
                'name, name., !name, name={expr}) next to exact repeats, shorthands %r and unrelated attributes %r: (a) two mentions '
                'a, b of one family - every ordered pair of spellings incl. the same one, every pair of forms - arranged as p[a][b], '
                'p[a b], p[a m=1 b], p.c[a]#i[b], p[a][b].d[a], p#j[b a].c.d; (b) seeded random abbreviations of 1-3 elements with 0-5 '
                'mentions from two families + shorthands, randomly grouped into attribute sets; (c) user snippets `alias: tag + D` '
                'used as `alias + U` with D, U from one family; (d) built-in snippets a / link / img / iframe / video + 1-3 mentions '
                'spelled like / unlike the predefined attribute'
                % (CASE_FAMILIES, CASE_SHORTHANDS, CASE_NEUTRAL),
                '(a) exhaustive, each arrangement under %s of the syntaxes %r, option row rotating over the %d rows %r; (b) %d cases; (c) %d cases; '
                '(d) all sequences of <= 2 such mentions (+ a sample with `.x` in between), syntax and row rotating'
                % ('two (rotating)' if quick else 'all', SYNTAXES, len(CASE_OPTION_ROWS), CASE_OPTION_ROWS, n7, n7s),
                'a case is (elements with their attribute sets, syntax, option row, self-closing) or the case of check_user_snippet / '
                'check_snippet_elements; expectation spec_attrs, which groups mentions by the name exactly as written: names that '
                'differ in letter case are different attributes (each printed, own value, own position, own `markup.attributes` '
                'entry), only identically spelled mentions are merged', exhaustive=False)
    parts = []
    for fname, cases, chunk in [('check_case_names', itertools.chain(case_pair_cases(CASE_OPTION_ROWS, 2 if quick else 4),
                                                                     case_random_cases(rng7, n7, CASE_OPTION_ROWS)), 2000),
                                ('check_user_snippet', case_user_snippet_cases(rng7, n7s, CASE_OPTION_ROWS), 500),
                                ('check_snippet_elements', case_builtin_snippet_cases(CASE_OPTION_ROWS), 500)]:
        c7.violations = []
        run_parallel_sorted(c7, 'bounded.c03', fname, cases, chunk=chunk)
        parts.append(list(c7.violations))
    nonempty = [p for p in parts if p]
    c7.violations = [v for p in parts for v in p[:50 // max(len(nonempty), 1)]]
    c7.done()

    rng8 = random.Random(seed * 7919 + 8)          # own stream again
    n8 = 4000 if quick else 40000
    nw = len(quote_writings())
    c8 = Clause('attr-value-quote-characters', 'B',
                'attribute values containing quote characters: templates %r with Q = `"` (written between single quotes) and Q = `\'` '
                '(written between double quotes), plain values %r (written between either quote, or bare) and expressions %r '
                '(`{...}`), %d writings in all, on names %r of tags %r: (a) every writing alone; (b) every ordered pair of writings '
                'arranged as p[a][b], p[a b], a repeat of one name, p.c[a]#i[b], div[a]>p[b], p[class=..].d[b]; (c) seeded random chains '
                'e0>e1>e2 of 1-3 elements with 0-4 attribute sets (1-3 attributes each) / shorthands; every third case self-closing'
                % (QUOTE_TEMPLATES, QUOTE_PLAIN, QUOTE_EXPRS, nw, QUOTE_NAMES, QUOTE_TAGS),
                '(a) %d writings x syntaxes %r x %d option rows %r (name, tag rotating); (b) %d pairs x 6 arrangements, (syntax, row) rotating; '
                '(c) %d cases' % (nw, SYNTAXES, len(QUOTE_OPTION_ROWS), QUOTE_OPTION_ROWS, nw * nw, n8),
                'a case is (elements with their attribute sets, syntax, option row, self-closing); the complete output string must be the '
                'nested tags whose attributes are those of spec_attrs, each value verbatim between the quote character selected by '
                'output.attributeQuotes (braces for expressions), whichever quote characters the value contains', exhaustive=False)
    run_parallel_sorted(c8, 'bounded.c03', 'check_quote_values',
                        itertools.chain(quote_single_cases(QUOTE_OPTION_ROWS), quote_pair_cases(QUOTE_OPTION_ROWS),
                                        quote_random_cases(rng8, n8, QUOTE_OPTION_ROWS)), chunk=1000)
    c8.done()
    return [c1, c2, c3, c4, c5, c6, c7, c8]
