"""C03 bounded stand-in: attributes are carried over, merged and quoted as written.

The attribute list of every produced tag is read back with an independent tag reader (c03_tags.parse_markup)
and compared with `spec_attrs`, an executable reading of the property statement.  Where the statement is
silent (see notes/C03.md) the spec yields a *set* of acceptable renderings instead of one.
"""
import itertools
import random

from .common import Clause
from .c03_tags import parse_markup, MarkupError, run_parallel_sorted

# one "mention" = one way of writing an attribute on an element
#   text: what is written; name: attribute it denotes; value: None = no value written, '' = explicitly empty
#   vt: 'raw' | 'quoted' | 'expr'
MENTIONS = {
    '#i':        {'name': 'id', 'value': 'i', 'vt': 'raw'},
    '#j':        {'name': 'id', 'value': 'j', 'vt': 'raw'},
    '.c':        {'name': 'class', 'value': 'c', 'vt': 'raw'},
    '.d':        {'name': 'class', 'value': 'd', 'vt': 'raw'},
    '[n=v]':     {'name': 'n', 'value': 'v', 'vt': 'raw'},
    '[n="v w"]': {'name': 'n', 'value': 'v w', 'vt': 'quoted'},
    "[n='x']":   {'name': 'n', 'value': 'x', 'vt': 'quoted'},
    '[n]':       {'name': 'n', 'value': None, 'vt': 'raw'},
    '[n.]':      {'name': 'n', 'value': None, 'vt': 'raw', 'boolean': True},
    '[!n]':      {'name': 'n', 'value': None, 'vt': 'raw', 'implied': True},
    '[n={e}]':   {'name': 'n', 'value': 'e', 'vt': 'expr'},
    '[n=""]':    {'name': 'n', 'value': '', 'vt': 'quoted'},
    '[m=1]':     {'name': 'm', 'value': '1', 'vt': 'raw'},
    '[m]':       {'name': 'm', 'value': None, 'vt': 'raw'},
    '[class=k]': {'name': 'class', 'value': 'k', 'vt': 'raw'},
    '[id=z]':    {'name': 'id', 'value': 'z', 'vt': 'raw'},
    '[!m=2]':    {'name': 'm', 'value': '2', 'vt': 'raw', 'implied': True},
    '[for=f]':   {'name': 'for', 'value': 'f', 'vt': 'raw'},
    '[onClick=h]': {'name': 'onClick', 'value': 'h', 'vt': 'raw'},
    '[id]':      {'name': 'id', 'value': None, 'vt': 'raw'},   # (a bare `#` would fuse with a following `#i` into `##i`)
    '[n=${1:t}]': {'name': 'n', 'value': 't', 'vt': 'raw'},   # a field: the default output.field prints its placeholder
    '[n m]':     None,   # two mentions in one set, expanded below
    '[n=v n]':   None,
    '[n n=v]':   None,
}
EXHAUSTIVE_KINDS = ['#i', '.c', '.d', '[n=v]', '[n="v w"]', '[n]', '[n.]', '[!n]', '[n={e}]', '[m=1]', '[n=""]', '#j']
EXTRA_KINDS = ["[n='x']", '[m]', '[class=k]', '[id=z]', '[!m=2]', '[for=f]', '[onClick=h]', '[id]', '[n=${1:t}]']
SET_KINDS = ['[n m]', '[n=v n]', '[n n=v]']          # several mentions inside one attribute set

DROPPED = 'DROPPED'

# attribute name overrides of the syntaxes, as documented in emmet/config.py SYNTAX_CONFIG (jsx: class ->
# className, for -> htmlFor; `class*` entries concern the `..x` shorthand, which is not generated here)
SYNTAX_ATTR_MAP = {'jsx': {'class': 'className', 'for': 'htmlFor'}}
SYNTAX_SELFCLOSE = {'html': 'html', 'jsx': 'html', 'vue': 'html', 'xml': 'xml'}


def spec_attrs(mentions, syntax, options):
    """[(output name, {acceptable renderings})] in the order required by the statement.
    A rendering is ('q', value) (between the configured quotes), ('e', value) (between braces),
    ('bare',) (name only) or DROPPED."""
    reverse = bool(options.get('output.reverseAttributes'))
    compact = bool(options.get('output.compactBoolean'))
    listed = options.get('output.booleanAttributes')
    if listed is None:
        listed = ['contenteditable', 'seamless', 'async', 'autofocus', 'autoplay', 'checked', 'controls', 'defer',
                  'disabled', 'formnovalidate', 'hidden', 'ismap', 'loop', 'multiple', 'muted', 'novalidate',
                  'readonly', 'required', 'reversed', 'selected', 'typemustmatch']
    case = options.get('output.attributeCase') or ''
    style = options.get('output.selfClosingStyle') or SYNTAX_SELFCLOSE[syntax]
    amap = dict(SYNTAX_ATTR_MAP.get(syntax, {}))
    if 'markup.attributes' in options:
        amap = dict(options['markup.attributes'])      # user options replace the syntax default (one dict key)

    order = []
    groups = {}
    for m in mentions:
        if m['name'] not in groups:
            groups[m['name']] = []
            order.append(m['name'])           # "in order of first mention"
        groups[m['name']].append(m)

    res = []
    for name in order:
        ms = groups[name]
        outname = amap.get(name, name)        # "attribute names are mapped through markup.attributes"
        if case == 'upper':
            outname = outname.upper()
        elif case == 'lower':
            outname = outname.lower()
        if name == 'class':
            # "repeated class mentions are joined by single spaces in the order written"
            res.append((outname, {('q', ' '.join(m['value'] for m in ms))}))
            continue
        # "for any other repeated attribute the last value wins (the first one under output.reverseAttributes)"
        seq = ms if reverse else ms[::-1]
        winner = seq[0]
        # the winning *mention* decides, also when it carries no value ("the last value wins" + "a name without value
        # gets an empty value": `[n=v][n]` is n=""), cf. notes
        value_cands = [(winner['value'], winner['vt'])]
        is_listed = name.lower() in listed
        b_all = is_listed or all(m.get('boolean') for m in ms)
        b_any = is_listed or any(m.get('boolean') for m in ms)
        i_all = all(m.get('implied') for m in ms)
        i_any = any(m.get('implied') for m in ms)
        e_any = any(m['vt'] == 'expr' for m in ms)
        acc = set()
        for value, vt in value_cands:
            for boolean in {b_all, b_any}:              # silent: which mention's flag survives a merge
                for implied in {i_all, i_any}:
                    for is_expr in {vt == 'expr', e_any}:
                        acc |= _render(value, boolean, implied, is_expr, compact, style, outname, name)
        res.append((outname, acc))
    return res


def _render(value, boolean, implied, is_expr, compact, style, outname, name):
    def val(v):
        return ('e', v) if is_expr else ('q', v)
    if value:
        return {val(value)}                             # "values appear verbatim between the configured quotes (or braces)"
    outs = set()
    if implied:
        outs.add(DROPPED)                               # "implied attributes without value are dropped"
    if boolean:
        if compact:                                     # "... or the compact form"
            outs.add(('bare',))
            if style != 'html':
                outs.add(val(''))                       # XML-compatible compact form (silent in the statement)
        else:
            outs.add(val(outname))                      # "expand to name="name""
            outs.add(val(name))
    if value == '' or (not implied and not boolean):
        outs.add(val(''))                               # "a name without value gets an empty value"
    return outs


def _eq_name(a, b, case):
    return a.lower() == b.lower() if case else a == b


def compare_attrs(actual, expected, options):
    """actual: [(name, kind, value)] from the tag reader. Returns None or a description"""
    quote = 'sq' if options.get('output.attributeQuotes') == 'single' else 'dq'
    case = options.get('output.attributeCase') or ''
    j = 0
    for outname, acc in expected:
        if j < len(actual) and _eq_name(actual[j][0], outname, case):
            aname, kind, value = actual[j]
            if kind == 'bare':
                form = ('bare',)
            elif kind == 'expr':
                form = ('e', value)
            elif kind == quote:
                form = ('q', value)
            else:
                return 'attribute %r is quoted with the wrong quote character (%s)' % (aname, kind)
            ok = form in acc
            if not ok and case and form[0] in 'qe':
                ok = any(f != DROPPED and f[0] == form[0] and f[1].lower() == value.lower() and f[1].lower() == outname.lower()
                         for f in acc)                  # boolean expansion follows the cased name
            if not ok:
                return 'attribute %r comes out as %r, acceptable per statement: %s' % (aname, form, sorted(map(repr, acc)))
            j += 1
        elif DROPPED in acc:
            continue
        else:
            return 'attribute %r missing or out of order (position %d of %r)' % (outname, j, [a[0] for a in actual])
    if j != len(actual):
        return 'unexpected extra attribute(s) %r' % (actual[j:],)
    return None


def _mentions_of(kinds):
    ms = []
    for k in kinds:
        if k == '[n m]':
            ms.append(MENTIONS['[n]'])
            ms.append(MENTIONS['[m]'])
        elif k == '[n=v n]':
            ms.append(MENTIONS['[n=v]'])
            ms.append(MENTIONS['[n]'])
        elif k == '[n n=v]':
            ms.append(MENTIONS['[n]'])
            ms.append(MENTIONS['[n=v]'])
        else:
            ms.append(MENTIONS[k])
    return ms


def effective(syntax, options):
    """the option row as handed to the library: a user `markup.attributes` is merged with the syntax default here, so
    that the expectation does not depend on how config.py layers a user dict over a syntax dict (not C03's business)"""
    opts = dict(options)
    if 'markup.attributes' in opts:
        m = {'class*': 'styleName'} if syntax == 'jsx' else ({'class*': ':class'} if syntax == 'vue' else {})
        m.update(SYNTAX_ATTR_MAP.get(syntax, {}))
        m.update(opts['markup.attributes'])
        opts['markup.attributes'] = m
    return opts


def _expand(abbr, syntax, options):
    from emmet import expand
    opts = dict(options)
    opts['output.format'] = False
    return expand(abbr, {'syntax': syntax, 'options': opts})


def check_seq(kinds, syntax, options, selfclose):
    """one element `p` + the mentions written in the given order"""
    abbr = 'p' + ''.join(kinds) + ('/' if selfclose else '')
    options = effective(syntax, options)
    out = _expand(abbr, syntax, options)
    try:
        toks = parse_markup(out)
    except MarkupError as e:
        return '%s -> %r is not well-formed markup: %s' % (abbr, out, e)
    want_types = ['open'] if selfclose else ['open', 'close']
    if [t['type'] for t in toks] != want_types or toks[0]['name'] != 'p':
        return '%s (%s) -> %r: expected exactly one <p> element' % (abbr, syntax, out)
    what = compare_attrs(toks[0]['attrs'], spec_attrs(_mentions_of(kinds), syntax, options), options)
    if what:
        return '%s (%s, %r) -> %r: %s' % (abbr, syntax, options, out, what)
    return None


def check_multi(elems, syntax, options):
    """elems: [[tag name ('' = implied), [kinds], count]] rendered as  e0>e1+e2...; every element must carry
    exactly its own attributes"""
    parts = []
    for name, kinds, count in elems:
        parts.append(name + ''.join(kinds) + ('*%d' % count if count > 1 else ''))
    abbr = parts[0] + ('>' + '+'.join(parts[1:]) if len(parts) > 1 else '')
    options = effective(syntax, options)
    out = _expand(abbr, syntax, options)
    try:
        toks = [t for t in parse_markup(out) if t['type'] == 'open']
    except MarkupError as e:
        return '%s -> %r is not well-formed markup: %s' % (abbr, out, e)
    expected = []
    for _ in range(elems[0][2]):                 # a repeated parent repeats its children with it
        expected.append((elems[0][0], elems[0][1]))
        for name, kinds, count in elems[1:]:
            for _ in range(count):
                expected.append((name, kinds))
    if len(toks) != len(expected):
        return '%s (%s) -> %r: %d elements expected, %d found' % (abbr, syntax, out, len(expected), len(toks))
    for t, (name, kinds) in zip(toks, expected):
        if name and t['name'] != name:
            return '%s (%s) -> %r: element <%s> where <%s> was expected' % (abbr, syntax, out, t['name'], name)
        what = compare_attrs(t['attrs'], spec_attrs(_mentions_of(kinds), syntax, options), options)
        if what:
            return '%s (%s, %r) -> %r: element <%s>: %s' % (abbr, syntax, options, out, t['name'], what)
    return None


# ---------------------------------------------------------------------------------------------

SYNTAXES = ['html', 'xml', 'jsx', 'vue']

OPTION_AXES = [
    ('output.attributeQuotes', ['double', 'single']),
    ('output.compactBoolean', [False, True]),
    ('output.booleanAttributes', [None, ['n'], []]),
    ('output.reverseAttributes', [False, True]),
    ('output.selfClosingStyle', [None, 'html', 'xhtml', 'xml']),
    ('output.attributeCase', [None, 'upper']),
    ('markup.attributes', [None, {'n': 'data-n', 'id': 'ID2'}]),
]


def all_option_sets():
    for combo in itertools.product(*[vals for _, vals in OPTION_AXES]):
        yield {k: v for (k, _), v in zip(OPTION_AXES, combo) if v is not None}


def covering_option_sets(rng, rows):
    """seeded rows: defaults, every non-default value of every axis alone, then random multi-axis rows"""
    res = [{}]
    for k, vals in OPTION_AXES:
        for v in vals[1:]:
            res.append({k: v})
    while len(res) < rows:
        o = {}
        for k, vals in OPTION_AXES:
            v = rng.choice(vals)
            if v is not None:
                o[k] = v
        if o not in res:
            res.append(o)
    return res[:max(rows, 1)]


def seq_cases(kinds, maxlen, syntaxes, option_sets, full_upto=None, per_seq=8):
    """sequences up to `full_upto` under every (syntax, option row) pair; longer ones under `per_seq` pairs each, the
    window rotating with the sequence number so that all pairs are used equally often"""
    pairs = [(si, oi) for oi in range(len(option_sets)) for si in range(len(syntaxes))]
    if full_upto is None:
        full_upto = maxlen
    k = 0
    for n in range(0, maxlen + 1):
        for seq in itertools.product(kinds, repeat=n):
            if n <= full_upto:
                sel = pairs
            else:
                sel = [pairs[(k * per_seq + d) % len(pairs)] for d in range(min(per_seq, len(pairs)))]
                k += 1
            for si, oi in sel:
                yield (list(seq), syntaxes[si], option_sets[oi], (n + si + oi) % 3 == 0)


def multi_cases_exhaustive(kinds, syntaxes, option_sets, all_syntaxes=True):
    pool = [[]] + [[k] for k in kinds]
    k = 0
    for a in pool:
        for b in pool:
            for c in pool:
                if not (a or b or c):
                    continue
                k += 1
                for oi, o in enumerate(option_sets):
                    for syn in (syntaxes if all_syntaxes else [syntaxes[(k + oi) % len(syntaxes)]]):
                        yield ([['div', a, 1], ['p', b, 1], ['em', c, 1]], syn, o)


def multi_cases_random(rng, n, kinds, option_sets):
    names = ['div', 'p', 'em', 'x-y', 'section', '']
    for _ in range(n):
        elems = []
        for i in range(rng.randint(1, 4)):
            ks = [rng.choice(kinds) for _ in range(rng.randint(0, 4))]
            name = rng.choice(names)
            if not name and not ks:
                name = 'p'
            elems.append([name, ks, rng.choice([1, 1, 1, 2])])
        yield (elems, rng.choice(SYNTAXES), rng.choice(option_sets))


def run(tier, seed):
    rng = random.Random(seed)
    quick = tier == 'quick'
    cover = covering_option_sets(rng, 16 if quick else 40)
    allsets = list(all_option_sets())

    c1 = Clause('attr-sequences-exhaustive', 'B',
                'all sequences of attribute mentions from %r on one element `p` (every third case written self-closing `p.../`)'
                % (EXHAUSTIVE_KINDS,),
                'sequence length <= 4; syntaxes %r x %d option rows (defaults, each non-default option value alone, seeded random multi-option rows '
                'over %s): lengths <= %d under all %d (syntax, row) pairs, length 4 under %s'
                % (SYNTAXES, len(cover), [k for k, _ in OPTION_AXES], 3 if quick else 4, 4 * len(cover),
                   '8 pairs per sequence (window rotating over all pairs)' if quick else 'all pairs'),
                'a case is (mention sequence, syntax, option row); the attribute list of the produced tag is compared with spec_attrs',
                exhaustive=True)
    run_parallel_sorted(c1, 'bounded.c03', 'check_seq', seq_cases(EXHAUSTIVE_KINDS, 4, SYNTAXES, cover, full_upto=3 if quick else 4), chunk=2000)
    c1.done()

    c2 = Clause('attr-options-exhaustive', 'B',
                'all sequences of mentions from %r, full cross product of the option axes' % (EXHAUSTIVE_KINDS + EXTRA_KINDS + SET_KINDS,),
                'sequence length <= %d, syntaxes %r, all %d combinations of %s' % (
                    2, SYNTAXES, len(allsets), [(k, v) for k, v in OPTION_AXES]),
                'a case is (mention sequence, syntax, option combination)', exhaustive=True)
    kinds2 = EXHAUSTIVE_KINDS + EXTRA_KINDS + SET_KINDS
    sets2 = allsets if not quick else allsets[::7]
    if quick:
        c2.bound += ' -- quick tier: every seventh option combination (%d)' % len(sets2)
        c2.exhaustive = False
    run_parallel_sorted(c2, 'bounded.c03', 'check_seq', seq_cases(kinds2, 2, SYNTAXES, sets2), chunk=2000)
    c2.done()

    c3 = Clause('attr-owner-element', 'B',
                'div[A]>p[B]+em[C] with A, B, C each empty or one mention (exhaustive) plus seeded random abbreviations of 1-4 '
                'elements (names incl. the implied one), 0-4 mentions each, repeat counts 1-2',
                'exhaustive part: %d kinds, 3 elements, %s x %d option rows; random part: %d cases' % (
                    len(kinds2), 'one syntax per case (rotating over %r)' % (SYNTAXES,) if quick else 'syntaxes %r' % (SYNTAXES,),
                    3 if quick else 8, 6000 if quick else 60000),
                'a case is (elements with their mentions, syntax, option row); every produced tag must carry exactly the '
                'attributes written on it', exhaustive=False)
    k3 = kinds2
    cases3 = itertools.chain(multi_cases_exhaustive(k3, SYNTAXES, cover[:3] if quick else cover[:8], all_syntaxes=not quick),
                             multi_cases_random(rng, 6000 if quick else 60000, k3, cover))
    run_parallel_sorted(c3, 'bounded.c03', 'check_multi', cases3, chunk=2000)
    c3.done()
    return [c1, c2, c3]
