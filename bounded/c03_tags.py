"""Shared helpers of the C03 / C04 / C12 / C13 bounded modules (independent of the library under test).

* parse_markup(): a small tag reader for the *output* of emmet.expand (HTML/XML/JSX-like text).
* gen_tree()/render_abbr(): a seeded generator of abbreviations together with a model of what was written.
* line bookkeeping (line_col) used to recompute callback positions from the final string.

Nothing here imports the library.
"""
import re

WS = ' \t\r\n'


class MarkupError(ValueError):
    pass


def parse_markup(s):
    """Split `s` into tokens, each a dict with 'type', 'start', 'end' and

    open:    name, attrs [(name, kind, value)], selfclosed   kind: 'bare' | 'dq' | 'sq' | 'expr' | 'unq'
    close:   name
    text:    text
    comment: text            <!-- ... -->
    decl:    text            <!DOCTYPE ...>, <?xml ...?>, <![endif]...> (anything starting with <! or <?)
    """
    out = []
    n = len(s)
    i = 0
    while i < n:
        if s[i] != '<':
            j = s.find('<', i)
            if j == -1:
                j = n
            out.append({'type': 'text', 'text': s[i:j], 'start': i, 'end': j})
            i = j
            continue
        if s.startswith('<!--', i) and not s.startswith('<!--[', i):
            j = s.find('-->', i + 4)
            if j == -1:
                raise MarkupError('unterminated comment at %d in %r' % (i, s))
            out.append({'type': 'comment', 'text': s[i + 4:j], 'start': i, 'end': j + 3})
            i = j + 3
            continue
        if s.startswith('<!', i) or s.startswith('<?', i):
            j = s.find('>', i)
            if j == -1:
                raise MarkupError('unterminated declaration at %d in %r' % (i, s))
            out.append({'type': 'decl', 'text': s[i:j + 1], 'start': i, 'end': j + 1})
            i = j + 1
            continue
        if s.startswith('</', i):
            j = s.find('>', i)
            if j == -1:
                raise MarkupError('unterminated closing tag at %d in %r' % (i, s))
            out.append({'type': 'close', 'name': s[i + 2:j].strip(), 'start': i, 'end': j + 1})
            i = j + 1
            continue
        # opening tag
        start = i
        i += 1
        j = i
        while j < n and s[j] not in WS and s[j] != '>' and not s.startswith('/>', j):
            j += 1
        name = s[i:j]
        if not name:
            raise MarkupError('empty tag name at %d in %r' % (start, s))
        i = j
        attrs = []
        selfclosed = False
        while True:
            while i < n and s[i] in WS:
                i += 1
            if i >= n:
                raise MarkupError('unterminated tag at %d in %r' % (start, s))
            if s[i] == '>':
                i += 1
                break
            if s.startswith('/>', i):
                selfclosed = True
                i += 2
                break
            j = i
            while j < n and s[j] not in WS and s[j] not in '=>' and not s.startswith('/>', j):
                j += 1
            aname = s[i:j]
            if not aname:
                raise MarkupError('empty attribute name at %d in %r' % (i, s))
            i = j
            if i < n and s[i] == '=':
                i += 1
                if i < n and s[i] in '"\'':
                    q = s[i]
                    j = s.find(q, i + 1)
                    if j == -1:
                        raise MarkupError('unterminated attribute value at %d in %r' % (i, s))
                    attrs.append((aname, 'dq' if q == '"' else 'sq', s[i + 1:j]))
                    i = j + 1
                elif i < n and s[i] == '{':
                    depth = 0
                    j = i
                    while j < n:
                        if s[j] == '{':
                            depth += 1
                        elif s[j] == '}':
                            depth -= 1
                            if depth == 0:
                                break
                        j += 1
                    if j >= n:
                        raise MarkupError('unterminated expression value at %d in %r' % (i, s))
                    attrs.append((aname, 'expr', s[i + 1:j]))
                    i = j + 1
                else:
                    j = i
                    while j < n and s[j] not in WS and s[j] != '>' and not s.startswith('/>', j):
                        j += 1
                    attrs.append((aname, 'unq', s[i:j]))
                    i = j
            else:
                attrs.append((aname, 'bare', None))
        out.append({'type': 'open', 'name': name, 'attrs': attrs, 'selfclosed': selfclosed, 'start': start, 'end': i})
    return out


def strip_ws(text):
    return ''.join(ch for ch in text if ch not in WS)


def normalise(tokens):
    """content of an output with everything the formatting options may legitimately change removed:
    white space (dropped entirely from text; adjacent text runs fused), comment nodes, the self-closing slash"""
    res = []
    for t in tokens:
        ty = t['type']
        if ty == 'comment':
            continue
        if ty == 'text':
            x = strip_ws(t['text'])
            if not x:
                continue
            if res and res[-1][0] == 'text':
                res[-1] = ('text', res[-1][1] + x)
            else:
                res.append(('text', x))
        elif ty == 'open':
            res.append(('open', t['name'], tuple(t['attrs'])))
        elif ty == 'close':
            res.append(('close', t['name']))
        else:
            res.append(('decl', strip_ws(t['text'])))
    return res


RE_NL = re.compile(r'\r\n|\r|\n')


def line_col(final, offset):
    """0-based (line, column) of `offset` in `final`, lines separated by \\r\\n, \\r or \\n"""
    line = 0
    last = 0
    for m in RE_NL.finditer(final, 0, offset):
        if m.end() <= offset:
            line += 1
            last = m.end()
    return line, offset - last


# ---------------------------------------------------------------------------------------------
# abbreviation generator (seeded).  A tree node is a dict:
#   name (str, '' for a text-only node), attrs [(name, value|None)], text (str|None), children [..],
#   selfclose (bool), count (int, explicit repeater or 1)
# Names are chosen so that no built-in html snippet rewrites them, unless snippets=True.

BLOCKS = ['div', 'p', 'ul', 'li', 'section', 'nav', 'main', 'h1', 'td', 'blockquote', 'body']
INLINES = ['span', 'em', 'b', 'i', 'strong', 'small', 'code', 'u']
VOIDS = ['br', 'hr', 'wbr']                       # always written / resolved self-closing
SNIPPET_NAMES = ['a', 'img', 'input', 'link', 'form', 'select', 'label', 'btn', 'bq', 'iframe', 'video', 'meta:utf']
SNIPPET_VOID_TAGS = ['img', 'input', 'link', 'meta']       # tag names the snippets above resolve to self-closing
SNIPPET_SELFCLOSING = ['img', 'input', 'link', 'meta:utf']
XSL_NAMES = ['xsl:variable', 'xsl:with-param', 'tm', 'ap', 'vare', 'wp', 'choose', 'xsl:if', 'val', 'co']
ATTR_NAMES = ['title', 'data-x', 'lang', 'role']
WORDS = ['foo', 'bar', 'Hello', 'x1', 'b-c', 'é', 'zz top']


def gen_tree(rng, depth=3, width=3, snippets=False, xsl=False, texts=True, empty_attrs=True, fields=False,
             voids=True, text_nodes=True, empty_texts=None):
    """a list of sibling nodes.  empty_texts: None, or the list of "texts that print nothing" (e.g. ['', '${0}', ' ']) from which
    a third of the text-only nodes and a few element texts are drawn"""
    return _gen_tree(rng, depth, width, snippets, xsl, texts, empty_attrs, fields, voids, text_nodes, empty_texts)


def _gen_tree(rng, depth, width, snippets, xsl, texts, empty_attrs, fields, voids, text_nodes, empty_texts):
    nodes = []
    for _ in range(rng.randint(1, width)):
        r = rng.random()
        if text_nodes and texts and r < (0.16 if empty_texts else 0.08):
            tx = rng.choice(empty_texts) if empty_texts and rng.random() < 0.5 else _text(rng, fields)
            nodes.append({'name': '', 'attrs': [], 'text': tx, 'children': [], 'selfclose': False,
                          'count': rng.choice([1, 1, 1, 2]) if empty_texts else 1})
            continue
        if voids and r < 0.16:
            nm = rng.choice(VOIDS + (SNIPPET_VOID_TAGS[:2] if snippets else []))
            nodes.append({'name': nm, 'attrs': _attrs(rng, empty_attrs, fields), 'text': None, 'children': [],
                          'selfclose': True, 'count': 1})
            continue
        pool = BLOCKS + INLINES
        if snippets:
            pool = pool + SNIPPET_NAMES
        if xsl:
            pool = pool + XSL_NAMES + XSL_NAMES
        node = {'name': rng.choice(pool), 'attrs': _attrs(rng, empty_attrs, fields), 'text': None, 'children': [],
                'selfclose': False, 'count': 1}
        if node['name'] in SNIPPET_SELFCLOSING:
            nodes.append(node)              # resolved to a self-closing tag as long as it has no content
            continue
        if texts and rng.random() < 0.3:
            node['text'] = rng.choice(empty_texts) if empty_texts and rng.random() < 0.15 else _text(rng, fields)
        if depth > 1 and rng.random() < 0.55:
            node['children'] = _gen_tree(rng, depth - 1, width, snippets, xsl, texts, empty_attrs, fields, voids, text_nodes, empty_texts)
        if rng.random() < 0.15:
            node['count'] = rng.randint(2, 3)
        nodes.append(node)
    return nodes


def _text(rng, fields):
    t = rng.choice(WORDS)
    if fields and rng.random() < 0.5:
        k = rng.randint(0, 3)
        t = rng.choice(['${%d}' % k, '${%d:ph}' % k, t + ' ${%d}' % k, '${%d:p q} ' % k + t + '${%d}' % (k + 1),
                        '${%d}${%d:ph}' % (k, k + 1), '${%d:a}${%d:b}' % (k + 1, k) + t, t + '${%d}${%d:q}${%d:r} ' % (k, k + 2, k + 1) + t])
    return t


def _attrs(rng, empty_attrs, fields):
    res = []
    r = rng.random()
    if r < 0.25:
        res.append(('id', rng.choice(['main', 'i1'])))
    if rng.random() < 0.3:
        res.append(('class', rng.choice(['item', 'c1', 'a-b'])))
    if rng.random() < 0.3:
        nm = rng.choice(ATTR_NAMES)
        if empty_attrs and rng.random() < 0.5:
            res.append((nm, None))
        elif fields and rng.random() < 0.5:
            k = rng.randint(0, 2)
            res.append((nm, rng.choice(['${%d}' % k, '${%d:v}' % k, 'x${%d}y${%d:z}' % (k + 1, k)])))
        else:
            res.append((nm, rng.choice(['v', 'two words', '1'])))
        if rng.random() < 0.3:
            nm2 = rng.choice([a for a in ATTR_NAMES if a != nm])
            res.append((nm2, None if empty_attrs and rng.random() < 0.5 else 'w'))
    return res


def render_abbr(nodes):
    parts = []
    for nd in nodes:
        s = nd['name']
        for an, av in nd['attrs']:
            if an == 'id' and av is not None and '$' not in av:
                s += '#' + av
            elif an == 'class' and av is not None and '$' not in av:
                s += '.' + av
            elif av is None:
                s += '[%s]' % an
            else:
                s += '[%s="%s"]' % (an, av)
        if nd['text'] is not None:
            s += '{%s}' % nd['text']
        if nd['selfclose']:
            s += '/'
        if nd['count'] != 1:
            s += '*%d' % nd['count']
        if nd['children']:
            inner = render_abbr(nd['children'])
            if nd['name'] == '' or len(nodes) > 1:
                # a child operator binds to the last sibling only; group to keep the tree shape
                s = '(%s>%s)' % (s, inner)
            else:
                s = '%s>%s' % (s, inner)
        parts.append(s)
    return '+'.join(parts)


# ---------------------------------------------------------------------------------------------
# driver: like common.run_parallel, but the violations that are *kept* do not depend on the order in which the
# pool delivers chunks: all are collected, sorted (shortest input first) and at most `per_signature` are kept per
# failure signature (exception type + message, or the shape of the mismatch report), `total` overall.  This only
# concerns reporting; what counts as a violation is decided by the check function alone.

_RE_QUOTED = re.compile(r"'(?:[^'\\]|\\.)*'|\"(?:[^\"\\]|\\.)*\"")


def failure_signature(what):
    if ' raised ' in what:
        s = what.split(' raised ', 1)[1]
        s = s.split(' (', 1)[0]
        return 'raised ' + re.sub(r'\d+', 'N', _RE_QUOTED.sub('S', s))[:60]
    s = re.sub(r'\d+', 'N', _RE_QUOTED.sub('S', what))
    return s[-60:]


def run_parallel_sorted(clause, modname, fname, cases, chunk=2000, per_signature=12, total=50):
    import multiprocessing as mp
    from .common import _worker, chunked, NPROC
    func_name = '%s:%s' % (modname, fname)
    by_sig = {}
    count = 0
    with mp.Pool(NPROC) as pool:
        jobs = ((modname, fname, c) for c in chunked(cases, chunk))
        for n, hashes, out in pool.imap_unordered(_worker, jobs):
            clause.evaluations += n
            clause.distinct.update(hashes)
            for key, what, args in out:
                count += 1
                lst = by_sig.setdefault(failure_signature(what), [])
                lst.append((len(key), key, what, args))
                if len(lst) > 40 * per_signature:
                    lst.sort()
                    del lst[per_signature:]
    kept = []
    for sig in sorted(by_sig):
        lst = sorted(by_sig[sig])[:per_signature]
        kept.extend(lst)
    kept.sort()
    # round-robin over signatures so that `total` does not starve a rare signature
    if len(kept) > total:
        order = []
        pools = {sig: sorted(by_sig[sig])[:per_signature] for sig in sorted(by_sig)}
        i = 0
        while len(order) < total and any(pools.values()):
            for sig in sorted(pools):
                if i < len(pools[sig]) and len(order) < total:
                    order.append(pools[sig][i])
            i += 1
            if i > per_signature:
                break
        kept = sorted(order)
    for _, key, what, args in kept:
        clause.violation(key, what, func_name, args)
    clause.violations_found = count
    if count > len(kept):
        clause.bound += ' [%d violating cases found, %d kept: <= %d per failure signature, shortest inputs first]' % (
            count, len(kept), per_signature)
    return clause


# ---------------------------------------------------------------------------------------------
class time_limit:
    """`with time_limit(5): ...` raises TimeoutError in the main thread of the (worker) process after that many seconds,
    so that a change which makes an expansion loop for ever is reported as a violation instead of hanging the run"""

    def __init__(self, seconds):
        self.seconds = seconds
        self.armed = False

    def _fire(self, signum, frame):
        raise TimeoutError('no result within %s s' % self.seconds)

    def __enter__(self):
        import signal
        import threading
        if threading.current_thread() is threading.main_thread() and hasattr(signal, 'setitimer'):
            self.old = signal.signal(signal.SIGALRM, self._fire)
            signal.setitimer(signal.ITIMER_REAL, self.seconds)
            self.armed = True
        return self

    def __exit__(self, *exc):
        if self.armed:
            import signal
            signal.setitimer(signal.ITIMER_REAL, 0)
            signal.signal(signal.SIGALRM, self.old)
        return False
