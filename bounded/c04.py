"""C04 bounded stand-in: text content is placed verbatim -- inline `{...}` text and wrapped `text` lines.

Everything is expanded with output.format off, where the statement leaves no freedom about white space, so
the expected output is an exact string (or, where the payload contains `$` numbering / `$#`, which the
statement of C04 does not define, an exact string with a digit run / optional `$#` at that spot).
"""
import itertools
import random
import re

from .common import Clause
from .c03_tags import run_parallel_sorted

ALPHA = 'a{}[]()$#*\\>+^."\' /=' + 'é\U0001F600'
UNQUOTED_ALPHA = 'a1()[]>+^.#/-:*'


# ---------------------------------------------------------------------------------------------
# reading a payload the way the statement describes it

def read_payload(payload, closer, balance=True):
    """segments of a text payload written between `{`..`}` (closer '}') or quotes (closer = the quote):
    [('lit', str) | ('num', width) | ('ph',)], or None when the payload is not a complete text in that position
    (it would end early / swallow the closer) or uses `${...}` field syntax (that is C13's subject)."""
    segs = []
    lit = []
    depth = 0
    i = 0
    n = len(payload)
    while i < n:
        ch = payload[i]
        if ch == '\\':
            if i + 1 >= n:
                return None                     # would escape the closing delimiter
            lit.append(payload[i + 1])          # "a backslash makes the next character literal"
            i += 2
            continue
        if ch == '$':
            j = i
            while j < n and payload[j] == '$':
                j += 1
            if j < n and payload[j] == '{':
                return None                     # field / variable syntax
            if lit:
                segs.append(('lit', ''.join(lit)))
                lit = []
            if j - i == 1 and j < n and payload[j] == '#':
                segs.append(('ph',))
                i = j + 1
            elif j < n and payload[j] == '#' and j - i > 1:
                # `$$#`: the tokenizer may read `$` `$#` or `$$` `#`; not defined by the statement
                return None
            else:
                if j < n and payload[j] == '@':
                    return None
                segs.append(('num', j - i))
                i = j
            continue
        if balance and closer == '}':
            if ch == '{':
                depth += 1
            elif ch == '}':
                depth -= 1
                if depth < 0:
                    return None                 # closes the text early
        elif ch == closer:
            return None
        lit.append(ch)
        i += 1
    if depth != 0:
        return None
    if lit:
        segs.append(('lit', ''.join(lit)))
    return segs


def body_regex(segs):
    parts = []
    for s in segs:
        if s[0] == 'lit':
            parts.append(re.escape(s[1]))       # "character for character"
        elif s[0] == 'num':
            parts.append('[0-9]{%d,}' % s[1])   # numbering is C02's subject; only its place is checked
        else:
            parts.append('(?:\\$#)?')           # `$#` with no wrap text: statement silent -> empty or verbatim
    return ''.join(parts)


# templates: (abbreviation with %s for the payload, expected output with %s for each body)
INLINE_TEMPLATES = {
    'leaf':       ('p{%s}', '<p>%s</p>'),
    'children':   ('p{%s}>b', '<p>%s<b></b></p>'),            # "precedes the element's children"
    'nested':     ('div>p{%s}+i', '<div><p>%s</p><i></i></div>'),
    'textnode':   ('p>{%s}', '<p>%s</p>'),
    'after-attr': ('p.c[x=y]{%s}', '<p class="c" x="y">%s</p>'),
    'group':      ('(p{%s})+i', '<p>%s</p><i></i>'),
    'repeat':     ('p{%s}*2', '<p>%s</p><p>%s</p>'),
    'bare':       ('{%s}', '%s'),
    'two':        ('p{%s}+q{%s}', '<p>%s</p><q>%s</q>'),
    'climb':      ('div>p{%s}^i', '<div><p>%s</p></div><i></i>'),
    'attr-children': ('p.c{%s}>b+i+u', '<p class="c">%s<b></b><i></i><u></u></p>'),
}
ATTR_TEMPLATES = {
    'dq':   ('p[t="%s"]', '<p t="%s"></p>', '"'),
    'sq':   ("p[t='%s']>b", '<p t="%s"><b></b></p>', "'"),
    'expr': ('p[t={%s}]', '<p t={%s}></p>', '}'),
    'dq2':  ('p[t="%s" u=1]{x}', '<p t="%s" u="1">x</p>', '"'),
}


def _run_template(abbr_t, out_t, payload, segs, syntax='html'):
    from emmet import expand
    abbr = abbr_t.replace('%s', payload)
    rx = ''
    pieces = out_t.split('%s')
    for k, piece in enumerate(pieces):
        rx += re.escape(piece)
        if k < len(pieces) - 1:
            rx += body_regex(segs)
    try:
        out = expand(abbr, {'syntax': syntax, 'options': {'output.format': False}})
    except Exception as e:
        return '%r raised %s: %s (text must become content; expected output matching /%s/)' % (abbr, type(e).__name__, e, rx)
    if not re.fullmatch(rx, out, re.S):
        return '%r -> %r, expected /%s/' % (abbr, out, rx)
    return None


def check_inline(template, payload):
    segs = read_payload(payload, '}')
    if segs is None:
        return None
    abbr_t, out_t = INLINE_TEMPLATES[template]
    return _run_template(abbr_t, out_t, payload, segs)


def check_attr(template, payload):
    abbr_t, out_t, closer = ATTR_TEMPLATES[template]
    segs = read_payload(payload, closer)
    if segs is None:
        return None
    return _run_template(abbr_t, out_t, payload, segs)


def unquoted_ok(payload):
    """round and square brackets properly nested, not starting with `!` / ending with `.` (those are flags of the name)"""
    stack = []
    for ch in payload:
        if ch in '([':
            stack.append(ch)
        elif ch in ')]':
            if not stack or stack.pop() != '(['[')]'.index(ch)]:
                return False
    return not stack and payload != ''


def check_unquoted(payload):
    """`p[t=PAYLOAD]`: an unquoted value over characters that are no delimiters inside an attribute set"""
    if not unquoted_ok(payload):
        return None
    return _run_template('p[t=%s]', '<p t="%s"></p>', payload, [('lit', payload)])


# ---------------------------------------------------------------------------------------------
# wrap text

def nonblank(lines):
    return [l.strip() for l in lines if l.strip()]


# implicit repeater templates: (abbreviation, prefix, per-line output with {L} for the line, suffix)
IMPLICIT_TEMPLATES = {
    'li*':            ('li*', '', '<li>{L}</li>', ''),
    'ul>li*':         ('ul>li*', '<ul>', '<li>{L}</li>', '</ul>'),
    'deepest':        ('li*>b', '', '<li><b>{L}</b></li>', ''),
    'deepest-last':   ('li*>b+i>u', '', '<li><b></b><i><u>{L}</u></i></li>', ''),
    'attr-ph':        ('li[t="$#"]*', '', '<li t="{L}"></li>', ''),
    'two-ph':         ('li{$#-$#}*', '', '<li>{L}-{L}</li>', ''),
    'child-ph':       ('li*>b{$#}+i', '', '<li><b>{L}</b><i></i></li>', ''),
    'group':          ('(i+b)*', '', '<i></i><b>{L}</b>', ''),
    'own-text':       ('li.c{x}*', '', '<li class="c">x{L}</li>', ''),
    'sibling-after':  ('p>li*+i', '<p>', '<li>{L}</li>', '<i></i></p>'),
    'ph-both':        ('li[t="$#"]{$#}*>b', '', '<li t="{L}">{L}<b></b></li>', ''),
    'textnode-ph':    ('ul>li*>{x $#}', '<ul>', '<li>x {L}</li>', '</ul>'),
    'three-children': ('li*>b+i+u>s+q+em', '', '<li><b></b><i></i><u><s></s><q></q><em>{L}</em></u></li>', ''),
    # `$#` below an explicit repeater / group nested in the implicit one: every `$#` of a copy of X takes that copy's line
    'ph-in-explicit':      ('ul>li*>span*2>{$#}', '<ul>', '<li><span>{L}</span><span>{L}</span></li>', '</ul>'),
    'ph-on-explicit':      ('li*>span{$#}*3', '', '<li><span>{L}</span><span>{L}</span><span>{L}</span></li>', ''),
    'ph-in-group*2':       ('li*>(b{$#}+i)*2', '', '<li><b>{L}</b><i></i><b>{L}</b><i></i></li>', ''),
    'group*-explicit':     ('(li>b*2>{$#})*', '', '<li><b>{L}</b><b>{L}</b></li>', ''),
    'attr-ph-in-explicit': ('li*>p*2>b[t="$#"]', '', '<li><p><b t="{L}"></b></p><p><b t="{L}"></b></p></li>', ''),
    'ph-two-explicit':     ('li*>b*2>i{$#}*2', '', '<li><b><i>{L}</i><i>{L}</i></b><b><i>{L}</i><i>{L}</i></b></li>', ''),
    'explicit-no-ph':      ('li*>b*2', '', '<li><b></b><b>{L}</b></li>', ''),
    'group*2-no-ph':       ('li*>(b+i)*2', '', '<li><b></b><i></i><b></b><i>{L}</i></li>', ''),
}
# no implicit repeater: (abbreviation, output prefix up to the deepest last element's content, own text, suffix)
WHOLE_TEMPLATES = {
    'p':          ('p', '<p>', '', '</p>'),
    'p>b':        ('p>b', '<p><b>', '', '</b></p>'),
    'last-child': ('p>b+i', '<p><b></b><i>', '', '</i></p>'),
    'own-text':   ('p{x}', '<p>', 'x', '</p>'),
    'explicit*2': ('li*2', '<li></li><li>', '', '</li>'),
    'last-top':   ('(p>b)+i', '<p><b></b></p><i>', '', '</i>'),
    'deep':       ('div>p+ul>li>b', '<div><p></p><ul><li><b>', '', '</b></li></ul></div>'),
    'ph':         ('p{$#}', '<p>', '', '</p>'),
    'three-children': ('div>p+q+ul>li+li+li', '<div><p></p><q></q><ul><li></li><li></li><li>', '', '</li></ul></div>'),
    'ph-child':   ('p>b{$#}+i', None, '', None),
}

RE_NL = re.compile(r'\r\n|\r|\n')


def norm_lines(s):
    return '\n'.join(l.strip() for l in RE_NL.split(s)).strip()


def check_wrap_implicit(template, lines):
    """`lines`: list of str (no line breaks inside)"""
    from emmet import expand
    abbr, pre, per, suf = IMPLICIT_TEMPLATES[template]
    expected = pre + ''.join(per.replace('{L}', l) for l in nonblank(lines)) + suf
    try:
        out = expand(abbr, {'text': list(lines), 'options': {'output.format': False}})
    except Exception as e:
        return '%r with text %r raised %s: %s (expected %r)' % (abbr, lines, type(e).__name__, e, expected)
    if out != expected:
        return '%r with text %r -> %r, expected %r' % (abbr, lines, out, expected)
    return None


def check_wrap_whole(template, text):
    """`text`: str or list of str; no implicit repeater -> whole text once in the deepest last element"""
    from emmet import expand
    abbr, pre, own, suf = WHOLE_TEMPLATES[template]
    whole = '\n'.join(text) if isinstance(text, list) else text
    try:
        out = expand(abbr, {'text': list(text) if isinstance(text, list) else text,
                            'options': {'output.format': False, 'markup.href': False}})
    except Exception as e:
        return '%r with text %r raised %s: %s' % (abbr, text, type(e).__name__, e)
    if pre is None:
        # `$#` somewhere else than the deepest last element: the statement does not say which one receives the
        # text; only "inserted once" is checked
        want = norm_lines(whole)
        got = norm_lines(re.sub(r'<[^<>]*>', '', out)) if '<' not in whole and '>' not in whole else None
        if got is not None and got != want and got.replace('$#', '', 1).strip() != want:
            return '%r with text %r -> %r: the text does not occur exactly once' % (abbr, text, out)
        return None
    if not (out.startswith(pre) and out.endswith(suf) and len(out) >= len(pre) + len(suf)):
        return '%r with text %r -> %r, expected %r + %r + text + %r' % (abbr, text, out, pre, own, suf)
    mid = out[len(pre):len(out) - len(suf)]
    want = own + whole.strip()
    mids = [mid]
    if '$#' in abbr and '$#' in mid:
        mids.append(mid.replace('$#', '', 1))      # `$#` without implicit repeater may stay as written (statement silent)
    single = not RE_NL.search(whole.strip())
    for m in mids:
        if norm_lines(m) == norm_lines(want) and (not single or m.strip() == want.strip()):
            return None
    return '%r with text %r -> %r: content of the deepest last element is %r, expected %r%s' % (
        abbr, text, out, mid, want, '' if single else ' (compared modulo white space at line ends)')


# ---------------------------------------------------------------------------------------------
# wrap text, implicit repeater on a generated X (c04_gen)

def check_wrap_tree(tree, ctx, lines):
    """`tree`: the X of `X*` as described in c04_gen; `ctx`: key of c04_gen.CONTEXTS; `lines`: list of str"""
    from emmet import expand
    from . import c04_gen
    abbr = c04_gen.abbr_of(tree, ctx)
    want = c04_gen.expected(tree, ctx, lines)
    try:
        out = expand(abbr, {'text': list(lines), 'options': {'output.format': False, 'markup.href': False}})
    except Exception as e:
        return '%r with text %r raised %s: %s (expected %r)' % (abbr, lines, type(e).__name__, e, want)
    if out != want:
        return '%r with text %r -> %r, expected %r' % (abbr, lines, out, want)
    return None


GEN_LINE_SETS = [['one', 'two'], ['one', '', '  li*3>a  ', '$1 {x}', '*two'], ['a'], [' $# ', '${1:x}', '\\$'], [], ['', ' '],
                 ['é \U0001F600', 'p>b', '{x}']]


def tree_cases(rng, n_random):
    from . import c04_gen
    ctxs = list(c04_gen.CONTEXTS)
    k = 0
    for tree in c04_gen.systematic_trees():
        for ctx in ('top', 'ul'):
            for lines in GEN_LINE_SETS[:3]:
                yield (tree, ctx, lines)
        k += 1
        yield (tree, ctxs[k % len(ctxs)], GEN_LINE_SETS[3 + k % (len(GEN_LINE_SETS) - 3)])
    for _ in range(n_random):
        tree = c04_gen.random_tree(rng)
        if rng.random() < 0.5:
            lines = rng.choice(GEN_LINE_SETS)
        else:
            lines = [rng.choice(LOOKALIKE_LINES) if rng.random() < 0.7 else
                     ''.join(rng.choice(ALPHA + 'ab \t') for _ in range(rng.randint(0, 8))) for _ in range(rng.randint(1, 4))]
        yield (tree, rng.choice(ctxs), lines)


# ---------------------------------------------------------------------------------------------

def check_linebreak_chars(template, ch_code):
    """characters that Python's str.splitlines() treats as line boundaries but that are ordinary characters of a
    text (neither \\r nor \\n): they must come out character for character"""
    ch = chr(ch_code)
    payload = 'a' + ch + 'b'
    if template in INLINE_TEMPLATES:
        abbr_t, out_t = INLINE_TEMPLATES[template]
        return _run_template(abbr_t, out_t, payload, [('lit', payload)])
    if template in ATTR_TEMPLATES:
        abbr_t, out_t, _ = ATTR_TEMPLATES[template]
        return _run_template(abbr_t, out_t, payload, [('lit', payload)])
    return check_wrap_implicit(template, [payload, 'x'])


# ---------------------------------------------------------------------------------------------

LOOKALIKE_LINES = ['', ' ', 'a', ' a ', '\ta b', '$', '$$', '$#', '$@-', '*', '*3', 'a*2', '>b', '+a', '^', '{x}', '${1}',
                   '${1:x}', '${lang}', '[a=b]', '.c', '#i', '(a)', ')', '\\', '\\$', 'li*', 'p>b', '"', "'q'", '/',
                   'lorem', 'é \U0001F600', 'a{b', '}']


def strings(alpha, lo, hi):
    for n in range(lo, hi + 1):
        for t in itertools.product(alpha, repeat=n):
            yield ''.join(t)


LONG_TEMPLATES = ['leaf', 'children']


def inline_cases(maxlen_all, maxlen_leaf):
    k = 0
    for p in strings(ALPHA, 0, maxlen_leaf):
        if read_payload(p, '}') is None:
            continue
        k += 1
        for t in INLINE_TEMPLATES:
            if len(p) <= maxlen_all or t == LONG_TEMPLATES[k % 2]:
                yield (t, p)


def attr_cases(maxlen):
    for p in strings(ALPHA, 0, maxlen):
        for t, (_, _, closer) in ATTR_TEMPLATES.items():
            if read_payload(p, closer) is not None:
                yield (t, p)


def unquoted_cases(maxlen):
    for p in strings(UNQUOTED_ALPHA, 1, maxlen):
        if unquoted_ok(p):
            yield (p,)


def implicit_cases(rng, maxlines, n_random, single_maxlen):
    pool = LOOKALIKE_LINES
    for n in range(0, maxlines + 1):
        for lines in itertools.product(pool, repeat=n):
            for t in IMPLICIT_TEMPLATES:
                if n < maxlines or t in ('li*', 'ph-both'):
                    yield (t, list(lines))
    # every single line over the alphabet (line breaks excluded)
    for p in strings(ALPHA, 1, single_maxlen):
        yield ('li*', [p])
        yield ('attr-ph', ['x', p])
    for _ in range(n_random):
        lines = [''.join(rng.choice(ALPHA + 'ab \t') for _ in range(rng.randint(0, 8))) for _ in range(rng.randint(1, 6))]
        yield (rng.choice(list(IMPLICIT_TEMPLATES)), lines)


def whole_cases(rng, maxlines, n_random):
    pool = LOOKALIKE_LINES
    for t in WHOLE_TEMPLATES:
        for n in range(0, maxlines + 1):
            for lines in itertools.product(pool, repeat=n):
                yield (t, list(lines))
        for l in pool:
            yield (t, l)                                  # text given as one string
        for p in strings(ALPHA, 1, 2):
            yield (t, p)
    for _ in range(n_random):
        lines = [''.join(rng.choice(ALPHA + 'ab \t') for _ in range(rng.randint(0, 8))) for _ in range(rng.randint(1, 5))]
        yield (rng.choice(list(WHOLE_TEMPLATES)), rng.choice([lines, '\n'.join(lines), lines[0]]))


LINEBREAK_CODES = [0x0b, 0x0c, 0x1c, 0x1d, 0x1e, 0x85, 0x2028, 0x2029]


def run(tier, seed):
    rng = random.Random(seed)
    quick = tier == 'quick'
    la, ll = (3, 4) if quick else (4, 5)
    c1 = Clause('inline-text-exhaustive', 'B',
                'every payload over the alphabet %r that is a complete text (balanced braces after escapes, no trailing '
                'backslash, no `${`), in the templates %r' % (ALPHA, {k: v[0] for k, v in INLINE_TEMPLATES.items()}),
                'payload length <= %d in all templates, <= %d in template leaf or children (alternating); output.format off' % (la, ll),
                'a case is (template, payload); output must equal the template output with the payload read per statement '
                '(escapes resolved, everything else verbatim; `$` runs -> digits, `$#` -> empty or verbatim)', exhaustive=True)
    run_parallel_sorted(c1, 'bounded.c04', 'check_inline', inline_cases(la, ll), chunk=2000)
    c1.done()

    al = 3 if quick else 4
    c2 = Clause('attr-text-exhaustive', 'B',
                'every payload over the same alphabet inside a quoted / expression attribute value, templates %r; plus every '
                'unquoted value over %r with balanced parentheses in p[t=...]' % ({k: v[0] for k, v in ATTR_TEMPLATES.items()}, UNQUOTED_ALPHA),
                'payload length <= %d (quoted, expression), <= %d (unquoted)' % (al, al + 1),
                'a case is (template, payload); the value must appear verbatim between the quotes / braces', exhaustive=True)
    run_parallel_sorted(c2, 'bounded.c04', 'check_attr', attr_cases(al), chunk=2000)
    run_parallel_sorted(c2, 'bounded.c04', 'check_unquoted', unquoted_cases(al + 1), chunk=2000)
    c2.done()

    ml = 2 if quick else 3
    c3 = Clause('wrap-implicit-repeater', 'B',
                'all lists of lines from a pool of %d lines (blank, padded, abbreviation look-alikes, unicode) in the templates %r; '
                'every single line over the inline alphabet; seeded random lists' % (len(LOOKALIKE_LINES), {k: v[0] for k, v in IMPLICIT_TEMPLATES.items()}),
                'lists of <= %d lines in all templates and of %d lines in templates li* and ph-both; single lines of length <= %d; %d random lists of 1-6 lines of length <= 8'
                % (ml, ml + 1, 3 if quick else 4, 3000 if quick else 100000),
                'a case is (template, list of lines); expected output = one copy per non-blank line, trimmed line verbatim at every $# '
                'or appended to the deepest last element', exhaustive=False)
    run_parallel_sorted(c3, 'bounded.c04', 'check_wrap_implicit', implicit_cases(rng, ml + 1, 3000 if quick else 100000, 3 if quick else 4), chunk=2000)
    c3.done()

    c4 = Clause('wrap-whole-text', 'B',
                'the same line pool, as lists and as single strings, in templates without implicit repeater %r' % ({k: v[0] for k, v in WHOLE_TEMPLATES.items()},),
                'lists of <= %d lines, single strings from the pool and all strings of length <= 2 over the alphabet; %d random texts' % (ml, 2000 if quick else 50000),
                'a case is (template, text); the whole text must be the content of the deepest last element exactly once '
                '(white space at line ends not compared for multi-line text)', exhaustive=False)
    run_parallel_sorted(c4, 'bounded.c04', 'check_wrap_whole', whole_cases(rng, ml, 2000 if quick else 50000), chunk=1000)
    c4.done()

    c5 = Clause('text-unicode-line-separators', 'B',
                'the 8 characters other than \\r and \\n that str.splitlines() treats as line boundaries, as payload a<ch>b',
                'code points %r in every inline / attribute template and in wrap templates li* and attr-ph' % ([hex(c) for c in LINEBREAK_CODES],),
                'a case is (template, code point)', exhaustive=True)
    cases5 = [(t, c) for c in LINEBREAK_CODES for t in list(INLINE_TEMPLATES) + list(ATTR_TEMPLATES) + ['li*', 'attr-ph']]
    run_parallel_sorted(c5, 'bounded.c04', 'check_linebreak_chars', cases5, chunk=20)
    c5.done()

    from . import c04_gen
    nt = 4000 if quick else 150000
    c6 = Clause('wrap-implicit-generated', 'B',
                'X* for generated X: (a) every combination of a `$#` carrier (none / own text / own attribute / first child text / '
                'first child attribute / own text+attribute) with an explicitly repeated part (child, later sibling, grandchild, '
                'group, group holding the carrier, two nested repeaters; count 1-3; with / without a `$#` of its own); (b) seeded '
                'random trees of <= 8 elements, depth <= 4, names %r, optional class / attributes / text with or without `$#`, '
                'explicit repeaters *1..*3 on elements and groups; each inside one of the contexts %r'
                % (c04_gen.NAMES, {k: v[0] for k, v in c04_gen.CONTEXTS.items()}),
                'all systematic trees in contexts top and ul with 3 line lists + one more context / line list each; %d random '
                '(tree, context, 0-5 lines from fixed lists, the look-alike pool or random over the alphabet)' % nt,
                'a case is (tree, context, lines); expected output is built from the tree alone: one copy of X per non-blank line, '
                'explicit repeaters multiply their content, the trimmed line at every `$#` of the copy if X holds any, otherwise '
                'once after the own text of the deepest last element of the copy', exhaustive=False)
    run_parallel_sorted(c6, 'bounded.c04', 'check_wrap_tree', tree_cases(rng, nt), chunk=500)
    c6.done()
    from . import c04_sc
    ns, nw = (2000, 1500) if quick else (60000, 40000)
    c7 = Clause('self-closing-element-text', 'B',
                'the element that owns the text is self-closing: ordinary names %r with an explicit `/` and the HTML void '
                'elements %r with and without `/`; (a) inline text NAME{payload}[/] in the contexts %r, syntaxes %r, '
                'output.selfClosingStyle %r; (b) wrap text with the self-closing element as X of `X*` / as the deepest last '
                'element / as `$#` carrier (templates %r) and without implicit repeater (templates %r)'
                % (c04_sc.PLAIN_NAMES, c04_sc.VOID_NAMES, {k: v[0] for k, v in c04_sc.CONTEXTS.items()}, c04_sc.SYNTAXES,
                   c04_sc.STYLES, {k: v[0] for k, v in c04_sc.WRAP_IMPLICIT.items()}, {k: v[0] for k, v in c04_sc.WRAP_WHOLE.items()}),
                '(a) every complete payload of length <= 2 over the alphabet in 6 rotating (head, context) pairs; every head x '
                'context x %d pool payloads; every syntax x style x head x 3 contexts x 2 payloads; %d random (payload <= 8 chars, '
                'head, context, syntax, style); (b) every head x template x %d line lists / %d single texts (+ xhtml, jsx, xml once each); '
                '%d random; output.format off' % (len(c04_sc.PAYLOAD_POOL), ns, len(c04_sc.WRAP_LINES), len(c04_sc.WHOLE_TEXTS), nw),
                'a case is (name, slash, context, payload, syntax, style) or (kind, template, name, slash, text, syntax); the output '
                'must be <NAME attrs>TEXT children</NAME> in its context exactly as for an ordinary element (attrs = [^<>]*; '
                'TEXT = payload read per statement / trimmed line verbatim); a self-closing element without text may end in `/`',
                exhaustive=False)
    run_parallel_sorted(c7, 'bounded.c04_sc', 'check_inline', c04_sc.inline_cases(rng, ALPHA, 2, ns), chunk=1000)
    run_parallel_sorted(c7, 'bounded.c04_sc', 'check_wrap', c04_sc.wrap_cases(rng, nw), chunk=500)
    c7.done()
    return [c1, c2, c3, c4, c5, c6, c7]
