"""C04: generated abbreviation trees for the wrap-with-implicit-repeater clause `wrap-implicit-generated`.

A *tree* is plain JSON.  A node is either

    element  {'n': name, 'cls': str | None, 'a': [[attr, value-template], ...], 't': text-template | None,
              'r': explicit repeat count | None, 'c': [children]}
    group    {'g': [children], 'r': explicit repeat count | None}

Value / text templates are literal strings over letters, digits, ` -:[]` in which `$#` is the placeholder of the
wrapped line.  The root of a tree is the X of `X*` (its own 'r' is ignored: it carries the implicit repeater).

Two independent functions read a tree:

* `abbr_of(root, ctx)`     -- the abbreviation text (non-last siblings that have children are put in parentheses);
* `expected(root, ctx, lines)` -- the output the statement of C04 prescribes, with output.format off: one copy of X
  per non-blank line, in order; explicit repeaters / groups inside X simply multiply what they hold; the trimmed line
  at every `$#` of the copy if X holds at least one `$#`, otherwise once after the own text of the deepest last
  element of the copy (last child of the last child ..., in the last copy of every explicit repeater on that path).

Neither looks at the implementation.
"""

NAMES = ['li', 'b', 'i', 'u', 'em', 'q', 's', 'p', 'span', 'div', 'h1', 'dd']
PLAIN_TEXTS = ['x', 'x: ', 'a b', '1']
PH_TEXTS = ['$#', '[$#]', '$#-$#', 'x $#', '$# y']
PLAIN_VALUES = ['v', 'a b', '1']
PH_VALUES = ['$#', 'x $#', '$#:$#']

# context: (abbreviation with %s for `X*...`, needs parentheses around X when X has children, prefix, suffix)
CONTEXTS = {
    'top':     ('%s', False, '', ''),
    'ul':      ('ul>%s', False, '<ul>', '</ul>'),
    'deep':    ('div>ul.m>%s', False, '<div><ul class="m">', '</ul></div>'),
    'before':  ('h1+%s', False, '<h1></h1>', ''),
    'before2': ('div>h1{t}+%s', False, '<div><h1>t</h1>', '</div>'),
    'after':   ('p>%s+i', True, '<p>', '<i></i></p>'),
    'group':   ('(%s)', False, '', ''),
}


def is_group(node):
    return 'g' in node


def kids(node):
    return node['g'] if is_group(node) else node['c']


def has_ph(node):
    if not is_group(node):
        if node.get('t') and '$#' in node['t']:
            return True
        if any('$#' in v for _, v in node.get('a', [])):
            return True
    return any(has_ph(k) for k in kids(node))


def has_explicit(node, root=True):
    if not root and node.get('r'):
        return True
    return any(has_explicit(k, False) for k in kids(node))


def size(node):
    return (0 if is_group(node) else 1) + sum(size(k) for k in kids(node))


# ---------------------------------------------------------------------------------------------
# abbreviation text

def _attr_abbr(name, value):
    if ' ' in value or ':' in value or '[' in value:
        return '%s="%s"' % (name, value)
    # values without blanks: alternate between the quoted and the unquoted spelling, decided by the name
    return '%s=%s' % (name, value) if name == 't' else "%s='%s'" % (name, value)


def _head_abbr(node):
    s = node['n']
    if node.get('cls'):
        s += '.' + node['cls']
    if node.get('a'):
        s += '[' + ' '.join(_attr_abbr(k, v) for k, v in node['a']) + ']'
    if node.get('t') is not None:
        s += '{' + node['t'] + '}'
    return s


def _rep(node, implicit):
    if implicit:
        return '*'
    return '*%d' % node['r'] if node.get('r') else ''


def _siblings_abbr(nodes):
    parts = []
    for k, n in enumerate(nodes):
        s = _node_abbr(n, False)
        if k < len(nodes) - 1 and not is_group(n) and n['c']:
            s = '(' + s + ')'
        parts.append(s)
    return '+'.join(parts)


def _node_abbr(node, implicit):
    if is_group(node):
        return '(' + _siblings_abbr(node['g']) + ')' + _rep(node, implicit)
    s = _head_abbr(node) + _rep(node, implicit)
    if node['c']:
        s += '>' + _siblings_abbr(node['c'])
    return s


def abbr_of(root, ctx):
    tmpl, paren, _, _ = CONTEXTS[ctx]
    s = _node_abbr(root, True)
    if paren and not is_group(root) and root['c']:
        s = '(' + s + ')'
    return tmpl % s


# ---------------------------------------------------------------------------------------------
# expected output per the statement

def _render(node, line, ph, last, top):
    """`ph`: X holds a `$#` (then the line goes to the placeholders only); `last`: this node lies on the path to the
    deepest last element of the copy; `top`: node is X itself (one copy: its repeater is the implicit one)"""
    count = 1 if top else (node.get('r') or 1)
    out = []
    for k in range(count):
        on_path = last and k == count - 1
        if is_group(node):
            out.append(_render_list(node['g'], line, ph, on_path))
            continue
        s = '<' + node['n']
        if node.get('cls'):
            s += ' class="%s"' % node['cls']
        for name, value in node.get('a', []):
            s += ' %s="%s"' % (name, value.replace('$#', line) if ph else value)
        s += '>'
        text = node.get('t') or ''
        s += text.replace('$#', line) if ph else text
        if node['c']:
            s += _render_list(node['c'], line, ph, on_path)
        elif on_path and not ph:
            s += line                       # "otherwise appended once to the deepest last element"
        s += '</%s>' % node['n']
        out.append(s)
    return ''.join(out)


def _render_list(nodes, line, ph, last):
    return ''.join(_render(n, line, ph, last and k == len(nodes) - 1, False) for k, n in enumerate(nodes))


def expected(root, ctx, lines):
    _, _, pre, suf = CONTEXTS[ctx]
    ph = has_ph(root)
    body = ''.join(_render(root, l.strip(), ph, True, True) for l in lines if l.strip())
    return pre + body + suf


# ---------------------------------------------------------------------------------------------
# generation

def _element(rng, depth, budget, ph_rate, rep_rate, first=False):
    node = {'n': 'li' if first else rng.choice(NAMES), 'cls': None, 'a': [], 't': None, 'r': None, 'c': []}
    if rng.random() < 0.15:
        node['cls'] = rng.choice(['c', 'k-1'])
    if rng.random() < 0.25:
        names = rng.sample(['t', 'u'], rng.randint(1, 2))
        for nm in names:
            node['a'].append([nm, rng.choice(PH_VALUES) if rng.random() < ph_rate else rng.choice(PLAIN_VALUES)])
    if rng.random() < 0.35:
        node['t'] = rng.choice(PH_TEXTS) if rng.random() < ph_rate else rng.choice(PLAIN_TEXTS)
    if not first and rng.random() < rep_rate:
        node['r'] = rng.choice([1, 2, 2, 3])
    if depth > 0 and budget[0] > 0 and rng.random() < (0.8 if first else 0.5):
        node['c'] = _children(rng, depth - 1, budget, ph_rate, rep_rate)
    return node


def _children(rng, depth, budget, ph_rate, rep_rate):
    out = []
    for _ in range(rng.choice([1, 1, 2, 2, 3])):
        if budget[0] <= 0:
            break
        budget[0] -= 1
        if depth > 0 and rng.random() < 0.2:
            g = {'g': _children(rng, depth - 1, budget, ph_rate, rep_rate), 'r': None}
            if not g['g']:
                continue
            if rng.random() < max(rep_rate, 0.5):
                g['r'] = rng.choice([1, 2, 3])
            out.append(g)
        else:
            out.append(_element(rng, depth, budget, ph_rate, rep_rate))
    return out


def random_tree(rng):
    """X of `X*`: an element (mostly) or a group; about half of the trees hold a `$#`, most hold explicit repeaters"""
    ph_rate = rng.choice([0.0, 0.0, 0.3, 0.6])
    rep_rate = rng.choice([0.0, 0.3, 0.5])
    budget = [rng.randint(1, 7)]
    if rng.random() < 0.15:
        g = {'g': _children(rng, 2, budget, ph_rate, rep_rate), 'r': None}
        if g['g']:
            return g
    return _element(rng, 3, budget, ph_rate, rep_rate, first=True)


def _el(name, text=None, attrs=(), rep=None, children=()):
    return {'n': name, 'cls': None, 'a': [list(a) for a in attrs], 't': text, 'r': rep, 'c': list(children)}


def systematic_trees():
    """every way to put at most one `$#` carrier (own text / own attribute / first child text / first child attribute /
    none) and one explicitly repeated part (child, later sibling, grandchild, group; count 1..3; with or without a `$#`
    of its own) into a small X"""
    carriers = ['none', 'own-text', 'own-attr', 'child-text', 'child-attr', 'both']
    shapes = ['child', 'sibling', 'grandchild', 'group', 'group-sibling', 'two-levels', 'no-repeat']
    for carrier in carriers:
        for shape in shapes:
            for count in (1, 2, 3):
                for rep_ph in (False, True):
                    if shape == 'no-repeat' and (count > 1 or rep_ph):
                        continue
                    own_t = '$#' if carrier in ('own-text', 'both') else None
                    own_a = [['t', '$#']] if carrier in ('own-attr', 'both') else []
                    first = _el('em', text='[$#]' if carrier == 'child-text' else None,
                                attrs=[['u', 'x $#']] if carrier == 'child-attr' else [])
                    rep_t = '$#' if rep_ph else None
                    if shape == 'child':
                        ch = [_el('b', text=rep_t, rep=count)]
                        if carrier.startswith('child'):
                            ch = [first] + ch
                    elif shape == 'sibling':
                        ch = [first, _el('i', text=rep_t, rep=count)]
                    elif shape == 'grandchild':
                        ch = [first, _el('q', children=[_el('i', text=rep_t, rep=count)])]
                    elif shape == 'group':
                        ch = [first, {'g': [_el('i', text=rep_t), _el('u')], 'r': count}]
                    elif shape == 'group-sibling':
                        ch = [{'g': [first, _el('i', text=rep_t)], 'r': count}, _el('u')]
                    elif shape == 'two-levels':
                        ch = [first, _el('b', rep=count, children=[_el('i', text=rep_t, rep=2)])]
                    else:
                        ch = [first, _el('i')]
                    yield _el('li', text=own_t, attrs=own_a, children=ch)
