"""C04: the element that owns the text is *self-closing* (clause `self-closing-element-text`).

An element is marked self-closing either by an explicit `/` after it (`p{x}/`, `x-y{x}/`) or because its name is one of
the HTML void elements (`br`, `img`, `input`, ... -- in the markup syntaxes these resolve to snippets that end in `/`).
The statement of C04 makes no exception for such elements: "Text written in `{...}` becomes the content of its element
character for character ... and precedes the element's children", and wrapped text goes into "the deepest last
element" whatever that element is.  So the oracle is the same as for an ordinary element:

    <name ATTRS> BODY CHILDREN </name>

where ATTRS is not C04's subject (snippets add `src=""`, jsx spells `className`, ...) and is matched by `[^<>]*`,
BODY is the payload read per statement (`c04.read_payload` / `c04.body_regex`) or the trimmed wrap line, and a
self-closing element *without* text elsewhere in the abbreviation may be printed as `<br>`, `<br/>` or `<br />`
(output.selfClosingStyle; C03's subject).  Nothing here looks at the implementation.

Markers used in the output templates: `~` attribute region of an opening tag, `|` optional self-closing slash,
`%s` the body.
"""
import re

VOID_NAMES = ['br', 'hr', 'img', 'input', 'link', 'meta', 'area', 'base', 'col', 'embed', 'param', 'source', 'track', 'wbr']
PLAIN_NAMES = ['p', 'div', 'span', 'a', 'li', 'x-y']
# (name, explicit slash): ordinary names are self-closing only with the slash; void names with and without it
HEADS = [[n, True] for n in PLAIN_NAMES] + [[n, s] for n in VOID_NAMES for s in (False, True)]

# context: (abbreviation, output); `@` = the element with its text (abbreviation side: head; output side: the element),
# `@b` on the output side = the element holding the child <b></b> after its text
CONTEXTS = {
    'leaf':       ('@', '@'),
    'class':      ('@', '@'),                         # the head gets a class: NAME.c{...}
    'nested':     ('div>@', '<div>@</div>'),
    'deep':       ('ul>li>@', '<ul><li>@</li></ul>'),
    'sibling':    ('@+i', '@<i></i>'),
    'after':      ('i+@', '<i></i>@'),
    'between':    ('p>b+@+i', '<p><b></b>@<i></i></p>'),
    'children':   ('@>b', '@b'),                      # "precedes the element's children"
    'repeat':     ('@*2', '@@'),
    'group':      ('(@)+i', '@<i></i>'),
    'climb':      ('div>@^i', '<div>@</div><i></i>'),
    'then-void':  ('@+br', '@<br~|>'),                # a self-closing element without text stays as it is
    'void-first': ('hr+@', '<hr~|>@'),
}
SYNTAXES = ['html', 'xhtml', 'xml', 'xsl', 'jsx', 'vue', 'svelte']
STYLES = [None, 'html', 'xhtml', 'xml']

ATTRS_RX = '(?: [^<>]*)?'
SLASH_RX = '(?: ?/)?'


def _lit_rx(piece):
    """regex of an output piece that holds the markers `~` and `|`"""
    out = []
    for ch in piece:
        out.append(ATTRS_RX if ch == '~' else SLASH_RX if ch == '|' else re.escape(ch))
    return ''.join(out)


def build(name, slash, ctx):
    """-> (abbreviation with %s for the payload, output template with `~`, `|`, %s)"""
    abbr_c, out_c = CONTEXTS[ctx]
    head = name + ('.c' if ctx == 'class' else '') + '{%s}' + ('/' if slash else '')
    abbr = abbr_c.replace('@', head)
    el = '<%s~>%%s</%s>' % (name, name)
    el_b = '<%s~>%%s<b></b></%s>' % (name, name)
    out = out_c.replace('@b', '\0').replace('@', el).replace('\0', el_b)
    return abbr, out


def check_inline(name, slash, ctx, payload, syntax, style):
    """`NAME{payload}` (+ `/`) inside a context: the payload must be the content of <NAME ...>...</NAME>"""
    from emmet import expand
    from . import c04
    segs = c04.read_payload(payload, '}')
    if not segs or not any(s[0] != 'ph' for s in segs):
        return None                                 # no complete text / nothing the statement places
    abbr_t, out_t = build(name, slash, ctx)
    abbr = abbr_t.replace('%s', payload)
    body = c04.body_regex(segs)
    rx = body.join(_lit_rx(p) for p in out_t.split('%s'))
    options = {'output.format': False}
    if style is not None:
        options['output.selfClosingStyle'] = style
    try:
        out = expand(abbr, {'syntax': syntax, 'options': options})
    except Exception as e:
        return '%r (syntax %s, selfClosingStyle %s) raised %s: %s (expected output matching /%s/)' % (
            abbr, syntax, style, type(e).__name__, e, rx)
    if not re.fullmatch(rx, out, re.S):
        return '%r (syntax %s, selfClosingStyle %s) -> %r, expected /%s/: the text must be the content of <%s>' % (
            abbr, syntax, style, out, rx, name)
    return None


# wrap text into a self-closing element.  (abbreviation, output prefix, per-line output, suffix); `@` is replaced by
# the head (name + optional `/`), {L} by the line
WRAP_IMPLICIT = {
    'X*':        ('@*', '', '<N~>{L}</N>', ''),
    'ul>X*':     ('ul>@*', '<ul>', '<N~>{L}</N>', '</ul>'),
    'li*>X':     ('li*>@', '', '<li><N~>{L}</N></li>', ''),
    'li*>b+X':   ('li*>b+@', '', '<li><b></b><N~>{L}</N></li>', ''),
    'ph':        ('li*>@{$#}', '', '<li><N~>{L}</N></li>', ''),
    'ph-own':    ('@{[$#]}*', '', '<N~>[{L}]</N>', ''),
    'own-text':  ('@{x}*', '', '<N~>x{L}</N>', ''),
    'ph-first':  ('li*>@{$#}+i', '', '<li><N~>{L}</N><i></i></li>', ''),
}
WRAP_WHOLE = {
    'X':         ('@', '<N~>{L}</N>'),
    'div>X':     ('div>@', '<div><N~>{L}</N></div>'),
    'p+X':       ('p+@', '<p></p><N~>{L}</N>'),
    'own-text':  ('div>b+@{x}', '<div><b></b><N~>x{L}</N></div>'),
}


def _head(name, slash, abbr):
    """`@{...}*` -> name{...}/* is not how the slash is written for a repeated element with text: the slash follows the
    text; put it right after the text / name and before the repeater"""
    m = re.search(r'@(\{[^{}]*\})?', abbr)
    return abbr[:m.start()] + name + (m.group(1) or '') + ('/' if slash else '') + abbr[m.end():]


def check_wrap(kind, template, name, slash, text, syntax):
    """`kind` 'implicit': text is a list of lines, one copy per non-blank line; 'whole': text is one line (str or list
    of one str), inserted once into the deepest last element -- which is the self-closing element"""
    from emmet import expand
    if kind == 'implicit':
        abbr_t, pre, per, suf = WRAP_IMPLICIT[template]
        lines = [l.strip() for l in text if l.strip()]
    else:
        abbr_t, per = WRAP_WHOLE[template]
        pre = suf = ''
        whole = '\n'.join(text) if isinstance(text, list) else text
        lines = [whole.strip()]
    abbr = _head(name, slash, abbr_t)
    per = per.replace('N', name)
    rx = _lit_rx(pre) + ''.join(re.escape(l).join(_lit_rx(p) for p in per.split('{L}')) for l in lines) + _lit_rx(suf)
    try:
        out = expand(abbr, {'syntax': syntax, 'text': list(text) if isinstance(text, list) else text,
                            'options': {'output.format': False, 'markup.href': False}})
    except Exception as e:
        return '%r (syntax %s) with text %r raised %s: %s (expected /%s/)' % (abbr, syntax, text, type(e).__name__, e, rx)
    if not re.fullmatch(rx, out, re.S):
        return '%r (syntax %s) with text %r -> %r, expected /%s/' % (abbr, syntax, text, out, rx)
    return None


# ---------------------------------------------------------------------------------------------
# cases

PAYLOAD_POOL = ['x', 'a>b+c', '(1)*2', 'café [ok]', 'it\'s "fine"', 'a{b}c', '\\}\\{', 'x$y', 'p>b/', '/', ' a ', '*3', '^^',
                '.c#i', '\U0001F600', '\\\\', 'a$$b', '[t=1]']
WRAP_LINES = [['one', 'two'], ['a'], ['one', '', '  li*3>a  ', '$1 {x}', '*two'], ['br/', 'p>b', '{x}', ' '], ['é \U0001F600', '\\$', '/'],
              [], ['', ' ']]
WHOLE_TEXTS = ['hello', ' a ', 'li*3>a', '$1 {x}', 'br/', '/', '{x}', ['one'], ['  p>b  '], 'é \U0001F600', '*', '${1:x}']


def inline_cases(rng, alpha, maxlen, n_random):
    from . import c04
    ctxs = list(CONTEXTS)
    # (a) every complete payload over the alphabet, each in 6 rotating (head, context) combinations
    k = 0
    for p in c04.strings(alpha, 1, maxlen):
        if not c04.read_payload(p, '}'):
            continue
        for j in range(6):
            k += 1
            name, slash = HEADS[k % len(HEADS)]
            yield (name, slash, ctxs[(k // len(HEADS) + j) % len(ctxs)], p, 'html', None)
    # (b) every head x context with a pool of payloads
    for name, slash in HEADS:
        for ctx in ctxs:
            for p in PAYLOAD_POOL:
                yield (name, slash, ctx, p, 'html', None)
    # (c) every syntax of the html family x every self-closing style
    for syntax in SYNTAXES:
        for style in STYLES:
            for name, slash in HEADS:
                for ctx in ('leaf', 'children', 'then-void'):
                    for p in ('x', 'a>b/ $ {y}'):
                        yield (name, slash, ctx, p, syntax, style)
    # (d) seeded random
    for _ in range(n_random):
        p = ''.join(rng.choice(alpha + 'ab ') for _ in range(rng.randint(1, 8)))
        name, slash = rng.choice(HEADS)
        yield (name, slash, rng.choice(ctxs), p, rng.choice(SYNTAXES), rng.choice(STYLES))


def wrap_cases(rng, n_random):
    from . import c04
    for name, slash in HEADS:
        for t in WRAP_IMPLICIT:
            for lines in WRAP_LINES:
                yield ('implicit', t, name, slash, lines, 'html')
            yield ('implicit', t, name, slash, WRAP_LINES[0], 'xhtml')
            yield ('implicit', t, name, slash, WRAP_LINES[0], 'jsx')
        for t in WRAP_WHOLE:
            for text in WHOLE_TEXTS:
                yield ('whole', t, name, slash, text, 'html')
            yield ('whole', t, name, slash, 'hello', 'xml')
    for _ in range(n_random):
        name, slash = rng.choice(HEADS)
        lines = [rng.choice(c04.LOOKALIKE_LINES) if rng.random() < 0.6 else
                 ''.join(rng.choice(c04.ALPHA + 'ab \t') for _ in range(rng.randint(0, 8))) for _ in range(rng.randint(1, 4))]
        if rng.random() < 0.7:
            yield ('implicit', rng.choice(list(WRAP_IMPLICIT)), name, slash, lines, rng.choice(SYNTAXES))
        elif lines[0].strip():
            yield ('whole', rng.choice(list(WRAP_WHOLE)), name, slash, lines[0], rng.choice(SYNTAXES))
