"""C05 -- stylesheet abbreviations resolve numbers, units, colours and !important.

Clauses (see notes/C05.md):

  hex-channel        F  every colour channel 0..255 through to_hex / to_short_hex / is_short_hex
  color-short-forms  F  every `#` colour of 1, 2, 3 hex digits (both letter cases), with and without `.N`
                        alpha, shortHex on/off, through expand(): the printed colour denotes the typed one
  color-six-digit    B  6-digit colours on a channel grid (quick) / two channels complete x grid (thorough)
  value-sequences    B  all sequences of <= 3 value atoms x {unit-taking, unitless} x {!, no !}
  conventions-options B every atom (number shape x unit, colour form) x every key x syntax x option variant
  plus-pairs         B  `+`-joined pairs of properties, one line per property
  random-long        B  seeded random longer sequences / option mixes beyond the exhaustive bound
  dict-config        B  the same oracle through expand(abbr, <plain dict without cache>)
  number-magnitudes  B  numbers of 1..15 significant digits (integer part of 1..15 digits x fraction forms x sign x unit),
                        singly, in sequences, in `+` pairs, across keys / syntaxes / option variants, + seeded random ones
  alpha-precision    B  `.N` alpha written with 1..8 digits on every colour form, shortHex on/off, several keys / syntaxes

The oracle `spec_css_line` is written from the property statement only: it never calls the library.
Abbreviations are *built* from a structured description (key, value atoms, important flag), so the
intended reading is known by construction and no second parser is needed.
"""
import itertools
import random
import re
from decimal import Decimal

from .common import Clause, run_parallel

# --------------------------------------------------------------------------------------------
# specification side (no library code below this line until `_expand`)
# --------------------------------------------------------------------------------------------

# output conventions of the stylesheet dialects: `<between>`, `<after>`
CONVENTIONS = {
    'css': (': ', ';'), 'scss': (': ', ';'), 'less': (': ', ';'),
    'sass': (': ', ''),          # indented syntax: no terminating semicolon
    'stylus': (' ', ''),         # README: expand('p10', syntax stylus) -> `padding 10px`
}

# key -> (CSS property it names, property is unitless)
PROPS = {
    'm': ('margin', False), 'p': ('padding', False), 'w': ('width', False), 't': ('top', False),
    'c': ('color', False), 'bd': ('border', False), 'fsz': ('font-size', False), 'bg': ('background', False),
    'lh': ('line-height', True), 'z': ('z-index', True), 'op': ('opacity', True), 'fw': ('font-weight', True),
    'fx': ('flex', True), 'fxg': ('flex-grow', True), 'fxsh': ('flex-shrink', True), 'zom': ('zoom', True),
}
UNIT_KEYS = [k for k, v in PROPS.items() if not v[1]]
UNITLESS_KEYS = [k for k, v in PROPS.items() if v[1]]

DEFAULT_ALIASES = {'e': 'em', 'p': '%', 'x': 'ex', 'r': 'rem'}

NUM_RE = re.compile(r'(-?)(\d*)(?:(\.)(\d*))?([%A-Za-z]*)$')
COLOR_RE = re.compile(r'#([0-9a-fA-F]+)(?:\.(\d+))?$')


def canonical_number(d):
    """decimal notation of the typed value: `.5` -> 0.5, `1.` -> 1, `1.50` -> 1.5 (tests: p.4 -> 0.4em, fz1. -> 1em)"""
    s = format(d, 'f')
    if '.' in s:
        s = s.rstrip('0').rstrip('.')
    if s in ('-0', ''):
        s = '0'
    return s


def parse_atom(text):
    """('num', Decimal value, typed_as_float, unit) | ('color', (r, g, b), alpha Decimal|None)"""
    m = COLOR_RE.match(text)
    if m:
        h = m.group(1).lower()
        if len(h) == 1:
            h = h * 6                      # #f   -> #ffffff
        elif len(h) == 2:
            h = h * 3                      # #fc  -> #fcfcfc
        elif len(h) == 3:
            h = h[0] * 2 + h[1] * 2 + h[2] * 2   # #fc0 -> #ffcc00
        elif len(h) != 6:
            raise ValueError('colour form outside the statement: %r' % text)
        rgb = (int(h[0:2], 16), int(h[2:4], 16), int(h[4:6], 16))
        alpha = Decimal('0.' + m.group(2)) if m.group(2) is not None else None
        return ('color', rgb, alpha)
    m = NUM_RE.match(text)
    if not m or not (m.group(2) or m.group(4)):
        raise ValueError('not a value atom: %r' % text)
    sign, ip, dot, fp, unit = m.groups()
    d = Decimal((ip or '0') + '.' + (fp or '0'))
    if sign:
        d = -d
    return ('num', d, dot is not None, unit)


def atom_is_open(text):
    """a unit-less number or a colour: the next `-` is a separator (statement); after a number with a unit it is a minus"""
    a = parse_atom(text)
    return a[0] == 'color' or a[3] == ''


def build_values(atoms):
    out = []
    for i, a in enumerate(atoms):
        out.append(a)
        if i + 1 < len(atoms) and atom_is_open(a):
            out.append('-')
    return ''.join(out)


def build_abbr(items):
    """items: [[key, [atom, ...], important], ...] joined by `+`"""
    return '+'.join(key + build_values(atoms) + ('!' if imp else '') for key, atoms, imp in items)


def opt(options, name, default):
    return options[name] if name in options else default


COLOR_OUT = r'(#[0-9a-fA-F]+|rgba?\([^()]*\)|transparent)'
RGBA_RE = re.compile(r'rgba\(\s*(\d+)\s*,\s*(\d+)\s*,\s*(\d+)\s*,\s*(-?\d*\.?\d+)\s*\)$')


def canonical_color(rgb, alpha, short):
    if alpha is not None and alpha != 1:
        return 'rgba(%d, %d, %d, %s)' % (rgb + (canonical_number(alpha),))
    if short and all(c % 17 == 0 for c in rgb):
        return '#' + ''.join('%x' % (c // 17) for c in rgb)
    return '#' + ''.join('%02x' % c for c in rgb)


def color_error(printed, rgb, alpha, short):
    """does `printed` denote the typed colour, in the documented form?"""
    if alpha is not None and alpha != 1:
        if printed == 'transparent' and rgb == (0, 0, 0) and alpha == 0:
            return None                       # rgba(0, 0, 0, 0) *is* transparent: same value
        m = RGBA_RE.match(printed)
        if not m:
            return 'a colour with `.N` alpha must print as rgba(r, g, b, a)'
        got = (int(m.group(1)), int(m.group(2)), int(m.group(3)))
        if got != rgb or Decimal(m.group(4)) != alpha:
            return 'colour value changed: denotes %r alpha %s' % (got, m.group(4))
        return None
    if not re.match(r'#(?:[0-9a-fA-F]{3}|[0-9a-fA-F]{6})$', printed):
        return 'an opaque colour must print as #rgb or #rrggbb'
    h = printed[1:].lower()
    is_short = len(h) == 3
    if is_short:
        h = h[0] * 2 + h[1] * 2 + h[2] * 2
    got = (int(h[0:2], 16), int(h[2:4], 16), int(h[4:6], 16))
    if got != rgb:
        return 'colour value changed: denotes %r' % (got,)
    want_short = bool(short) and all(c % 17 == 0 for c in rgb)
    if is_short != want_short:
        return 'short hex form %s' % ('expected (shortHex on, every channel allows it)' if want_short
                                      else 'not allowed here')
    return None


def spec_css_line(syntax, options, items):
    """-> (canonical expected text, regex, [colour expectations in order of the regex groups])"""
    between, after = CONVENTIONS[syntax]
    between = opt(options, 'stylesheet.between', between)
    after = opt(options, 'stylesheet.after', after)
    int_unit = opt(options, 'stylesheet.intUnit', 'px')
    float_unit = opt(options, 'stylesheet.floatUnit', 'em')
    aliases = opt(options, 'stylesheet.unitAliases', DEFAULT_ALIASES)
    short = opt(options, 'stylesheet.shortHex', True)
    lines, rx_lines, colors = [], [], []
    for key, atoms, imp in items:
        prop, unitless = PROPS[key]
        vals, rx_vals = [], []
        for text in atoms:
            a = parse_atom(text)
            if a[0] == 'num':
                _, d, is_float, unit = a
                if unit:
                    unit = aliases.get(unit, unit)          # alias or explicit unit: honoured
                elif d != 0 and not unitless:
                    unit = float_unit if is_float else int_unit
                s = canonical_number(d) + unit
                vals.append(s)
                rx_vals.append(re.escape(s))
            else:
                _, rgb, alpha = a
                vals.append(canonical_color(rgb, alpha, short))
                rx_vals.append(COLOR_OUT)
                colors.append((text, rgb, alpha, short))
        if imp:
            vals.append('!important')
            rx_vals.append(re.escape('!important'))
        lines.append(prop + between + ' '.join(vals) + after)
        rx_lines.append(re.escape(prop + between) + ' '.join(rx_vals) + re.escape(after))
    return '\n'.join(lines), re.compile('\n'.join(rx_lines) + r'\Z'), colors


def judge(out, syntax, options, items):
    canon, rx, colors = spec_css_line(syntax, options, items)
    if out == canon:
        return None
    if not isinstance(out, str):
        return 'expand returned %r' % (out,)
    m = rx.match(out)
    if not m:
        return 'expected %r, got %r' % (canon, out)
    for printed, (text, rgb, alpha, short) in zip(m.groups(), colors):
        err = color_error(printed, rgb, alpha, short)
        if err:
            return 'colour %s printed as %s: %s (expected line %r, got %r)' % (text, printed, err, canon, out)
    return None


# --------------------------------------------------------------------------------------------
# observation
# --------------------------------------------------------------------------------------------

_CACHE = {}
_RECHECKS = [0]


def _expand(abbr, syntax, options, cache):
    from emmet import expand
    cfg = {'type': 'stylesheet', 'syntax': syntax, 'options': dict(options)}
    if cache:
        cfg['cache'] = _CACHE      # documented `cache` key: parsed snippet table reused between calls
    return expand(abbr, cfg)


def check_line(syntax, options, items, cache=True):
    abbr = build_abbr(items)
    out = _expand(abbr, syntax, options, cache)
    err = judge(out, syntax, options, items)
    if err and cache and _RECHECKS[0] < 25:
        # is the shared cache to blame?  (bounded: a cache-less call re-parses the whole snippet table, ~8 ms)
        _RECHECKS[0] += 1
        out2 = _expand(abbr, syntax, options, False)
        err2 = judge(out2, syntax, options, items)
        if err2 is None:
            return 'expand(%r) with a shared `cache`: %s; a cache-less call gives the expected line' % (abbr, err)
        err = err2
    if err:
        return 'expand(%r, syntax=%s, options=%r): %s' % (abbr, syntax, options, err)
    return None


def check_channel(n):
    from emmet.stylesheet.color import to_hex, to_short_hex, is_short_hex
    h = to_hex(n)
    if not (isinstance(h, str) and len(h) == 2 and re.match(r'[0-9a-fA-F]{2}$', h) and int(h, 16) == n):
        return 'to_hex(%d) = %r is not the two-digit hex form of %d' % (n, h, n)
    if bool(is_short_hex(n)) != (n % 17 == 0):
        return 'is_short_hex(%d) = %r, but %s' % (n, is_short_hex(n), 'both digits are equal' if n % 17 == 0 else 'the digits differ')
    if n % 17 == 0:
        s = to_short_hex(n)
        if not (isinstance(s, str) and len(s) == 1 and int(s * 2, 16) == n):
            return 'to_short_hex(%d) = %r does not double to %d' % (n, s, n)
    return None


ALPHAS_Q = ['', '.5', '.0', '.25']
ALPHAS_T = ['', '.5', '.0', '.25', '.75', '.05', '.125']


def check_color(hexdigits, alphas):
    """one colour body in every alpha variant x shortHex on/off, on key `c`"""
    for al in alphas:
        for short in (True, False):
            r = check_line('css', {} if short else {'stylesheet.shortHex': False}, [['c', ['#' + hexdigits + al], False]])
            if r:
                return r
    return None


def check_color_pairs(which, xx, yy):
    """six-digit colours with two channels fixed to xx, yy (any of 0..255 each) and the third from GRID"""
    for zz in GRID:
        body = {0: zz + xx + yy, 1: xx + zz + yy, 2: xx + yy + zz}[which]
        r = check_color(body, ['', '.5'])
        if r:
            return r
    return None


# --------------------------------------------------------------------------------------------
# generators
# --------------------------------------------------------------------------------------------

NUM_SHAPES = ['0', '1', '10', '100', '.5', '1.', '1.25', '0.5', '12.75', '-1', '-10', '-.5', '-1.25', '-2.', '0.0', '.0',
              '1.0', '2.00', '-3.0', '10.0', '1.50']       # float literals whose fraction is all zeros / has trailing zeros


def systematic_shapes():
    """{sign} x {integer part: none, 0, 1, 10} x {fraction: none, `.`, .0, .00, .5, .50, .25}: every way of writing a number
    as an integer or a float literal (a float is recognised by its `.`, not by its value); negative zeros left out"""
    out = []
    for sign in ('', '-'):
        for ip in ('', '0', '1', '10'):
            for fp in (None, '.', '.0', '.00', '.5', '.50', '.25'):
                if ip == '' and fp in (None, '.'):
                    continue
                text = sign + ip + (fp or '')
                if sign and float(text) == 0:
                    continue
                out.append(text)
    return out


SHAPES_SYS = systematic_shapes()
UNITS = ['', 'p', 'e', 'x', 'r', 'px', 'em', '%', 'vh', 'rem', 'ex', 'pt', 's', 'ms', 'deg', 'fr', 'vmin', 'Q']
GRID = ['00', '01', '09', '0a', '0f', '10', '11', '1f', '7f', '80', '99', 'a0', 'aa', 'bc', 'e7', 'f0', 'fe', 'ff']

COLOR_SAMPLE = ['#0', '#f', '#a', '#C', '#fc', '#0b', '#b0', '#01', '#E7', '#fc0', '#FC0', '#0a1', '#123', '#e7bc0b',
                '#ffcc00', '#0a0b0c', '#000001', '#100000', '#AABBCC', '#112234']
COLOR_ALPHA_SAMPLE = ['#0.5', '#f.5', '#f.25', '#fc.75', '#0b.5', '#fc0.5', '#0a1.05', '#e7bc0b.5', '#0a0b0c.25', '#0.0', '#f.0',
                      '#000000.0', '#ffcc00.50']

ATOMS_FULL = [n + u for n in NUM_SHAPES for u in UNITS] + [n for n in SHAPES_SYS if n not in NUM_SHAPES] + COLOR_SAMPLE + COLOR_ALPHA_SAMPLE

ATOMS_SMALL_Q = ['0', '10', '.5', '1.', '1.25', '1.0', '-3.0', '-10', '-.5', '.0', '10p', '1.5e', '-2x', '3r', '10px', '-1.25rem', '50%', '0p',
                 '#f', '#0b', '#fc0', '#e7bc0b', '#f.5', '#0a0b0c.25', '#0.0']
ATOMS_SMALL_T = ATOMS_SMALL_Q + ['1', '-1', '-1.', '0.0', '2.00', '12.75', '.5p', '1.e', '10vh', '2s', '-10%', '1.5em', '100fr',
                                 '#0', '#C', '#fc', '#0a1', '#FC0', '#ffcc00', '#000001', '#fc0.5', '#0b.75', '#f.0']

OPTION_VARIANTS = [
    {},
    {'stylesheet.intUnit': 'pt'},
    {'stylesheet.floatUnit': 'vh'},
    {'stylesheet.intUnit': '', 'stylesheet.floatUnit': ''},
    {'stylesheet.intUnit': 'rem', 'stylesheet.floatUnit': 'px'},
    {'stylesheet.unitAliases': {'e': 'em', 'p': '%', 'x': 'ex', 'r': ' / @rem'}},      # tests/test_stylesheet.py
    {'stylesheet.unitAliases': {'q': 'vmin', 'p': 'pt', 's': 'sec'}},                  # e, x, r become plain units
    {'stylesheet.unitAliases': {}},
    {'stylesheet.shortHex': False},
    {'stylesheet.between': '__', 'stylesheet.after': ''},                               # README
    {'stylesheet.between': ':', 'stylesheet.after': ' ;'},
    {'stylesheet.intUnit': 'pt', 'stylesheet.floatUnit': 'vh', 'stylesheet.shortHex': False, 'stylesheet.between': ' = ',
     'stylesheet.after': '', 'stylesheet.unitAliases': {'e': 'em', 'p': '%', 'x': 'ex', 'r': ' / @rem'}},
]
SYNTAXES = ['css', 'scss', 'sass', 'less', 'stylus']


def gen_sequences(atoms, keys, maxlen):
    for n in range(1, maxlen + 1):
        for seq in itertools.product(atoms, repeat=n):
            for key in keys:
                for imp in (False, True):
                    yield ('css', {}, [[key, list(seq), imp]])


def gen_conventions(atoms, keys, variants, quick):
    if quick:
        # three faces of the product instead of the whole of it (the thorough tier runs the whole product)
        for a in atoms:                                   # every atom x every option variant
            for key in ('m', 'lh'):
                for o in variants:
                    yield ('css', o, [[key, [a], False]])
        for a in atoms:                                   # every atom x every key x every syntax convention
            for key in keys:
                for syn in SYNTAXES:
                    for imp in (False, True):
                        yield (syn, {}, [[key, [a], imp]])
        for a in ATOMS_SMALL_Q:                           # small atom list x the whole remaining product
            for key in keys:
                for syn in SYNTAXES:
                    for o in variants:
                        for imp in (False, True):
                            yield (syn, o, [[key, [a], imp]])
    else:
        for a in atoms:
            for key in keys:
                for syn in SYNTAXES:
                    for o in variants:
                        for imp in (False, True):
                            yield (syn, o, [[key, [a], imp]])
    # every key of the table (all unitless / unit-taking properties) with every unit-less number shape and alias
    for key in PROPS:
        for a in [n + u for n in SHAPES_SYS for u in ('', 'p', 'e', 'px')] + ['#fc0', '#0b', '#0a0b0c.25']:
            for syn in ('css', 'stylus'):
                for o in ({}, {'stylesheet.intUnit': 'pt', 'stylesheet.floatUnit': 'vh'}):
                    yield (syn, o, [[key, [a], False]])
    # each atom also before and after a fixed neighbour of every kind (separator / minus-sign rule), default css
    for a in atoms:
        for nb in ('10', '-5', '2e', '#fc0', '-.5'):
            for key in ('m', 'lh'):
                yield ('css', {}, [[key, [a, nb], False]])
                yield ('css', {}, [[key, [nb, a], False]])


def gen_plus_pairs(atoms, keys):
    seqs = [[a] for a in atoms] + [[a, b] for a in atoms for b in atoms]
    sides = [[k, s, imp] for k in keys for s in seqs for imp in (False, True)]
    for i, left in enumerate(sides):
        for j, right in enumerate(sides):
            syn = SYNTAXES[(i + j) % len(SYNTAXES)]
            yield (syn, {}, [left, right])


def gen_random(seed, n):
    rnd = random.Random(seed)
    keys = list(PROPS)
    for _ in range(n):
        o = {}
        for v in rnd.sample(OPTION_VARIANTS, rnd.choice((0, 1, 1, 2, 3))):
            o.update(v)
        items = []
        for _p in range(rnd.choice((1, 1, 2, 3, 4))):
            k = rnd.choice((1, 2, 3, 4, 5, 6))
            items.append([rnd.choice(keys), [rnd.choice(ATOMS_FULL) for _a in range(k)], rnd.random() < 0.3])
        yield (rnd.choice(SYNTAXES), o, items)


def gen_dict_config(seed, per):
    rnd = random.Random(seed + 1)
    fixed = [[['m', ['10', '-20', '#e7bc0b'], True]], [['lh', ['1.5'], False], ['c', ['#0a.5'], False]],
             [['p', ['10p', '-.5', '1.e'], False]], [['z', ['10', '20'], True], ['w', ['100p'], False]]]
    for syn in SYNTAXES:
        for o in OPTION_VARIANTS:
            for items in fixed:
                yield (syn, o, items, False)
            for _ in range(per):
                items = [[rnd.choice(list(PROPS)), [rnd.choice(ATOMS_FULL) for _a in range(rnd.choice((1, 2, 3)))], rnd.random() < 0.3]
                         for _p in range(rnd.choice((1, 2)))]
                yield (syn, o, items, False)


HEXD = '0123456789abcdefABCDEF'


def gen_short_colors(tier):
    alphas = ALPHAS_Q if tier == 'quick' else ALPHAS_T
    for n in (1, 2, 3):
        for t in itertools.product(HEXD, repeat=n):
            yield (''.join(t), alphas)


def gen_six_colors():
    for t in itertools.product(GRID, repeat=3):
        yield (''.join(t), ['', '.5'])
    for t in itertools.product(['0A', 'B0', 'Fe', 'cC', '1f'], repeat=3):
        yield (''.join(t), ['', '.5'])


def gen_six_pairs():
    hx = ['%02x' % n for n in range(256)]
    for which in (0, 1, 2):
        for xx in hx:
            for yy in hx:
                yield (which, xx, yy)


# ---- magnitudes: how *long* a number is written (the lists above never exceed 4 significant digits) --------------------

MAX_SIG = 15            # every decimal literal of <= 15 significant digits is a distinct IEEE double; longer ones are not generated
MAX_INT_WITH_FRACTION = MAX_SIG - 4   # numbers written with a fraction: integer part + the 4 decimal places stay within 15 digits
IDIOMS = ['65535', '100000', '999999', '1000000', '9999999', '16777216', '2147483647', '4294967295']   # "maximum z-index" etc.
MAG_FRACTIONS = [None, '.', '.5', '.25', '.125', '.0625', '.0001', '.9999', '.50']   # <= 4 decimals, as everywhere in this module
MAG_UNITS_MAIN = ['', 'p', 'px']
MAG_UNITS_MORE = ['e', 'x', 'r', '%', 'rem', 'vh', 'ms']


def mag_bodies(rnd, per_len):
    """integer parts of 1..15 digits: 10..0, 99..9, 1234.., 50..05 and `per_len` seeded random digit strings per length"""
    out = []
    for n in range(1, MAX_SIG + 1):
        for b in ['1' + '0' * (n - 1), '9' * n, '123456789012345'[:n], ('5' + '0' * (n - 2) + '5') if n > 1 else '5']:
            if b not in out:
                out.append(b)
        for _ in range(per_len):
            b = rnd.choice('123456789') + ''.join(rnd.choice('0123456789') for _d in range(n - 1))
            if b not in out:
                out.append(b)
    return out + [b for b in IDIOMS if b not in out]


def mag_numbers(bodies, fractions, signs=('', '-')):
    """sign x integer part x fraction form, at most MAX_SIG digits in all"""
    for b in bodies:
        for fp in fractions:
            if len(fp or '.') > 1 and len(b) > MAX_INT_WITH_FRACTION:
                continue                  # (a trailing `.` alone adds no digit: `123456789012345.` is generated)
            for sign in signs:
                yield sign + b + (fp or '')


def random_number(rnd):
    """an integer literal of 1..15 digits, or a float literal of 1..11 + 1..4 digits, with random sign and unit"""
    k = rnd.choice((0, 0, 0, 1, 2, 3, 4))                       # decimals
    n = rnd.randint(1, MAX_INT_WITH_FRACTION if k else MAX_SIG)  # digits of the integer part
    digits = rnd.choice('123456789') + ''.join(rnd.choice('0123456789') for _d in range(n - 1))
    if k:
        digits += '.' + ''.join(rnd.choice('0123456789') for _d in range(k))
    elif rnd.random() < 0.15:
        digits += '.'
    return rnd.choice(('', '', '-')) + digits + rnd.choice(('', '', '', 'p', 'e', 'x', 'r', 'px', '%', 'rem', 'pt', 's'))


def gen_magnitudes(seed, quick):
    rnd = random.Random(seed + 2)
    bodies = mag_bodies(rnd, 2 if quick else 12)
    long_bodies = [b for b in bodies if len(b) >= 5]
    sub = IDIOMS + [b for i, b in enumerate(long_bodies) if b not in IDIOMS and i % (3 if quick else 1) == 0]
    # (a) every number x main units x one unit-taking and one unitless key; the remaining units on the plain integers/floats
    for key in ('w', 'z'):
        for a in mag_numbers(bodies, MAG_FRACTIONS):
            for u in MAG_UNITS_MAIN:
                yield ('css', {}, [[key, [a + u], False]])
        for a in mag_numbers(bodies, (None, '.25')):
            for u in MAG_UNITS_MORE:
                yield ('css', {}, [[key, [a + u], False]])
    # (b) long numbers x every key of the table x every syntax convention x {!, no !}
    for a in mag_numbers(sub, (None, '.25'), ('',)):
        for u in ('', 'e'):
            for key in (('m', 'c', 'fsz', 'lh', 'z', 'op') if quick else PROPS):
                for syn in SYNTAXES:
                    for imp in (False, True):
                        yield (syn, {}, [[key, [a + u], imp]])
    # (c) long numbers x every option variant
    for a in mag_numbers(sub, (None, '.5')):
        for u in ('', 'p', 'r'):
            for key in ('m', 'lh'):
                for o in OPTION_VARIANTS:
                    yield ('css', o, [[key, [a + u], False]])
    # (d) separator / minus-sign rule next to a long number, and two long numbers in a row
    for a in mag_numbers(sub, (None, '.5')):
        for nb in ('10', '-5', '2e', '#fc0', '-.5', '1000000', '-2147483647', '1234567.25p'):
            for key in ('m', 'lh'):
                yield ('css', {}, [[key, [a, nb], False]])
                yield ('css', {}, [[key, [nb, a], True]])
    # (e) `+`-joined properties with a long number on either side
    for i, a in enumerate(mag_numbers(sub, (None, '.25'))):
        syn = SYNTAXES[i % len(SYNTAXES)]
        for small in (['p', ['10'], False], ['lh', ['1.5'], True], ['c', ['#fc0.5'], False]):
            yield (syn, {}, [small, ['z', [a], False]])
            yield (syn, {}, [['m', [a, a + 'p'], True], small])
    # (f) seeded random: 1..3 properties of 1..4 values, at least half of them numbers of random length
    keys = list(PROPS)
    for _ in range(4000 if quick else 200000):
        o = {}
        for v in rnd.sample(OPTION_VARIANTS, rnd.choice((0, 0, 1, 2))):
            o.update(v)
        items = []
        for _p in range(rnd.choice((1, 1, 2, 3))):
            atoms = [random_number(rnd) if rnd.random() < 0.7 else rnd.choice(ATOMS_FULL) for _a in range(rnd.choice((1, 2, 3, 4)))]
            items.append([rnd.choice(keys), atoms, rnd.random() < 0.3])
        yield (rnd.choice(SYNTAXES), o, items)


ALPHA_COLORS = ['0', 'f', 'a', 'C', 'fc', '0b', 'E7', 'fc0', '0a1', 'FC0', 'e7bc0b', '0a0b0c', '000000', 'FFFFFF', '112234']
MAX_ALPHA_DIGITS = 8


def alpha_digit_strings(rnd, per_len):
    """`.N` with N of 1..8 digits: 1234.., 99..9, 00..01, 50..0 (trailing zeros), 00..0 and seeded random digit strings"""
    out = []
    for n in range(1, MAX_ALPHA_DIGITS + 1):
        for d in ['12345678'[:n], '9' * n, '0' * (n - 1) + '1', '5' + '0' * (n - 1), '0' * n, '0' + '7' * (n - 1) if n > 1 else '7']:
            if d not in out:
                out.append(d)
        for _ in range(per_len):
            d = ''.join(rnd.choice('0123456789') for _d in range(n))
            if d not in out:
                out.append(d)
    return out


def gen_alpha(seed, quick):
    rnd = random.Random(seed + 3)
    alphas = alpha_digit_strings(rnd, 3 if quick else 40)
    # every colour form x every alpha spelling x shortHex on/off (key c, css)
    for body in ALPHA_COLORS:
        for al in alphas:
            for o in ({}, {'stylesheet.shortHex': False}):
                yield ('css', o, [['c', ['#' + body + '.' + al], False]])
    # the same alphas under the other conventions, on other keys, with `!`, between other values
    for i, al in enumerate(alphas):
        for j, body in enumerate(('f', 'fc', 'fc0', 'e7bc0b', '0')):
            col = '#' + body + '.' + al
            syn = SYNTAXES[(i + j) % len(SYNTAXES)]
            yield (syn, {}, [['bg', [col], True]])
            yield (syn, {}, [['bd', ['1', col, '10'], False]])
            yield (syn, OPTION_VARIANTS[-1], [['c', [col], False], ['m', ['10', col], True]])


def run(tier, seed):
    quick = tier == 'quick'
    out = []

    c = Clause('hex-channel', 'F', 'every channel value n', 'n in 0..255 (the whole type of a colour channel)',
               'a case is one channel value: len(to_hex(n)) == 2 and int(to_hex(n), 16) == n; is_short_hex(n) == (n % 17 == 0); '
               'for the 16 multiples of 17 int(to_short_hex(n) * 2, 16) == n', exhaustive=True)
    run_parallel(c, 'bounded.c05', 'check_channel', ((n,) for n in range(256)), chunk=32)
    out.append(c.done())

    alphas = ALPHAS_Q if quick else ALPHAS_T
    c = Clause('color-short-forms', 'F', 'every `#` colour of 1, 2 or 3 hex digits over %r (both letter cases)' % HEXD,
               '22 + 22^2 + 22^3 = 11154 colour bodies, each x alpha in %r x stylesheet.shortHex on/off; key `c`, css' % (alphas,),
               'a case is one hex body, all its alpha x shortHex variants checked inside; the printed colour must denote the typed one '
               '(#rgb / #rrggbb, rgba() when `.N` is given); short form iff shortHex and every channel is a multiple of 17', exhaustive=True)
    run_parallel(c, 'bounded.c05', 'check_color', gen_short_colors(tier), chunk=300)
    out.append(c.done())

    if quick:
        c = Clause('color-six-digit', 'B', '6-digit colours with every channel from %r, plus mixed-case samples' % (GRID,),
                   '18^3 + 5^3 colours x alpha in ["", ".5"] x stylesheet.shortHex on/off; key `c`, css',
                   'a case is one hex body; the printed colour must denote the typed one; channels print independently, so together with '
                   'hex-channel (all 256 values of one channel) the grid covers every per-channel behaviour in every position', exhaustive=True)
        run_parallel(c, 'bounded.c05', 'check_color', gen_six_colors(), chunk=300)
    else:
        c = Clause('color-six-digit', 'B', '6-digit colours: two channels range over all 256 values, the third over %r, in all three positions' % (GRID,),
                   '3 x 256^2 x 18 colours x alpha in ["", ".5"] x stylesheet.shortHex on/off; key `c`, css',
                   'a case is (position, xx, yy) with the 18 third-channel values checked inside; the printed colour must denote the typed one',
                   exhaustive=True)
        run_parallel(c, 'bounded.c05', 'check_color', gen_six_colors(), chunk=300)
        run_parallel(c, 'bounded.c05', 'check_color_pairs', gen_six_pairs(), chunk=200)
    out.append(c.done())

    atoms = ATOMS_SMALL_Q if quick else ATOMS_SMALL_T
    keys = ['m', 'lh'] if quick else ['m', 'c', 'lh', 'z']
    c = Clause('value-sequences', 'B', 'all sequences over the atom list %r' % (atoms,),
               '1..3 values, keys %r (unit-taking / unitless), with and without `!`, css defaults' % (keys,),
               'a case is (key, value sequence, important); the abbreviation is key + values, `-` written after a unit-less number or a '
               'colour, nothing after a number with a unit; the output must equal spec_css_line', exhaustive=True)
    run_parallel(c, 'bounded.c05', 'check_line', gen_sequences(atoms, keys, 3), chunk=1500)
    out.append(c.done())

    keys = ['m', 'p', 'c', 'lh', 'z', 'op'] if quick else list(PROPS)
    variants = OPTION_VARIANTS
    c = Clause('conventions-options', 'B', 'every atom of {%d number shapes} x {%d units incl. none, aliases p e x r} + the systematic number spellings without unit + %d colour forms'
               % (len(NUM_SHAPES), len(UNITS), len(COLOR_SAMPLE) + len(COLOR_ALPHA_SAMPLE)),
               ('single values: (a) every atom x keys m, lh x %d option variants, css; (b) every atom x keys %r x syntaxes %r x {!, no !}, '
                'default options; (c) the %d atoms of value-sequences x those keys x syntaxes x option variants x {!, no !}'
                % (len(variants), keys, SYNTAXES, len(ATOMS_SMALL_Q)) if quick else
                'single values x keys %r x syntaxes %r x %d option variants x {!, no !}' % (keys, SYNTAXES, len(variants))) +
               '; plus every key of the table x the %d systematic number spellings {sign} x {int part none/0/1/10} x {fraction '
               'none/./.0/.00/.5/.50/.25} with unit none/p/e/px x css, stylus x 2 unit settings; plus every atom before/after 5 fixed '
               'neighbours on m / lh' % len(SHAPES_SYS),
               'a case is (syntax, options, key, value, important); output must equal spec_css_line under that syntax convention and options',
               exhaustive=True)
    run_parallel(c, 'bounded.c05', 'check_line', gen_conventions(ATOMS_FULL, keys, variants, quick), chunk=3000)
    out.append(c.done())

    patoms = ['0', '10', '1.0', '-.5', '10p', '#fc0', '#0b.5'] if quick else ['0', '10', '1.', '2.0', '-.5', '10p', '-2e', '#fc0', '#0b.5']
    pkeys = ['m', 'lh']
    c = Clause('plus-pairs', 'B', 'all ordered pairs of properties joined by `+`', 'each side: key in %r, 1..2 values over %r, with/without `!`; '
               'syntax cycles through %r' % (pkeys, patoms, SYNTAXES),
               'a case is a pair of properties; the output must be the two spec lines joined by a newline, in order', exhaustive=True)
    run_parallel(c, 'bounded.c05', 'check_line', gen_plus_pairs(patoms, pkeys), chunk=3000)
    out.append(c.done())

    n = 25000 if quick else 1500000
    c = Clause('random-long', 'B', 'random.Random(seed): 1..4 `+`-joined properties, 1..6 values each from the full atom list, random key, '
               'syntax and union of 0..3 option variants', '%d cases, seed %d' % (n, seed),
               'a case is (syntax, options, properties); output must equal spec_css_line', exhaustive=False)
    run_parallel(c, 'bounded.c05', 'check_line', gen_random(seed, n), chunk=2000)
    out.append(c.done())

    per = 8 if quick else 150
    c = Clause('dict-config', 'B', 'fixed + random abbreviations through expand(abbr, plain dict) without the `cache` key',
               'every syntax x option variant x (4 fixed + %d random abbreviations), seed %d' % (per, seed),
               'a case is (syntax, options, properties); the snippet table is re-parsed on every call (the default public path)', exhaustive=False)
    run_parallel(c, 'bounded.c05', 'check_line', gen_dict_config(seed, per), chunk=40)
    out.append(c.done())

    c = Clause('number-magnitudes', 'B', 'numbers by length: integer part of 1..%d digits (10..0, 99..9, 1234.., 50..05, seeded random digit strings, '
               'idioms %r) x fraction form %r (integer part <= %d digits when a fraction is written) x sign x unit' % (MAX_SIG, IDIOMS, MAG_FRACTIONS, MAX_INT_WITH_FRACTION),
               '(a) every such number x units %r (plain integers and .25 floats also x %r) x keys w, z, css; (b) the numbers of >= 5 digits '
               '(a third of them in quick) x units none/e x keys x %r x {!, no !}; (c) x units none/p/r x keys m, lh x %d option variants; '
               '(d) before/after 8 neighbours on m / lh; (e) in `+` pairs; (f) %d seeded random properties lists with numbers of random '
               'length, dot position, sign and unit; seed %d' % (MAG_UNITS_MAIN, MAG_UNITS_MORE, SYNTAXES, len(OPTION_VARIANTS),
                                                                 4000 if quick else 200000, seed),
               'a case is (syntax, options, properties); output must equal spec_css_line: the number prints in plain decimal notation of '
               'the typed value whatever its length, with the unit the statement gives it', exhaustive=False)
    run_parallel(c, 'bounded.c05', 'check_line', gen_magnitudes(seed, quick), chunk=1500)
    out.append(c.done())

    c = Clause('alpha-precision', 'B', '`.N` alpha with N of 1..%d digits (1234.., 99..9, 00..01, 50..0, 00..0, 07..7, seeded random digit strings) '
               'on the colour bodies %r' % (MAX_ALPHA_DIGITS, ALPHA_COLORS),
               'every body x every alpha x shortHex on/off on key c, css; plus every alpha on 5 bodies x keys bg (with !), bd (between two '
               'numbers), c + m pair under all options together; syntax cycles through %r; seed %d' % (SYNTAXES, seed),
               'a case is (syntax, options, properties); the printed rgba() is parsed back and must denote exactly the typed (r, g, b, alpha)',
               exhaustive=False)
    run_parallel(c, 'bounded.c05', 'check_line', gen_alpha(seed, quick), chunk=500)
    out.append(c.done())
    return out
