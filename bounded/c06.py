"""C06 -- a stylesheet snippet is always reachable by its own key.

Clauses (see notes/C06.md):

  builtin-keys       F  every key of Config({'type': 'stylesheet', 'syntax': s}).snippets x every stylesheet
                        syntax, no scope: expand(key) is that snippet (property line / raw body); no other key
                        is a "direct hit" for it
  builtin-keys-scoped F the same under scope @@global / @@section / @@property: that snippet when its kind is
                        permitted, and a snippet of the permitted kind (or nothing) otherwise
  user-override-builtin F every built-in key overridden by a user snippet (property and raw kind)
  builtin-keywords   F  every property snippet x every dash-free keyword it lists x lower/upper/mixed case x
                        `key:kw` / `key-kw` x every syntax x scope in {none, @@property}
  builtin-inner-keywords F every property snippet x every dash-free keyword it lists *inside* an alternative (placeholder
                        word of a top-level tabstop, blanks around it not counted; bare word of a several-token alternative) x
                        case x `key:kw` / `key-kw` x every syntax x scope in {none, @@property}
  user-keywords      B  random user property snippets (new and overriding keys) listing keywords in every way the table
                        syntax offers (one-word alternatives, function names, padded / glued tabstop placeholders, words
                        among several tokens): every listed keyword resolves to itself, scopes none/@@global/@@property
  history-independence B every key in sequences where it occurs several times in different forms (function keyword with
                        arguments, bare keyword, bare key, typed values): as one `+`-joined abbreviation and as a
                        history of calls sharing a `cache`; every occurrence equals the fresh single expansion
  user-tables        B  random user snippet tables: overriding and new keys, property and raw kinds
  user-case-keys     B  user keys that differ from another key only in letter case
  global-config-tables B random user snippet tables handed over through the *global* config (second argument of expand()):
                        a block for the `stylesheet` type, a block for the syntax in use, the per-call config, in every
                        combination, next to blocks that hold only options / variables and blocks for other syntaxes
  sibling-keyword-history B snippets that share their CSS property (built-in font-family family; every built-in property
                        snippet next to a user snippet of the same property; pairs of user snippets): `sibling:word` and then
                        `key:word` with the same `cache` -- the keyword listed by `key` still resolves to itself

The expected output is computed from the snippet *text* (the table entry) and the statement; the
`between` / `after` strings are read from the resolved Config (they are C05 / C20 matter, not C06).
"""
import random
import re

from .common import Clause, run_parallel

SCOPES = [None, '@@global', '@@section', '@@property']

# --------------------------------------------------------------------------------------------
# specification side
# --------------------------------------------------------------------------------------------


def field(index, placeholder, **kwargs):
    """`output.field` hook that makes tabstops visible (same rendering as tests/test_stylesheet.py)"""
    if placeholder:
        return '${%d:%s}' % (index, placeholder)
    return '${%d}' % index


PROP_RE = re.compile(r'(-?[a-z][a-z-]*)(?:[ \t]*:[ \t]*([^\n\r;]+?);*)?')


def classify(body):
    """('prop', property name, [listed values]) for `name` / `name:v1|v2|...`, otherwise ('raw', body)"""
    m = PROP_RE.fullmatch(body)
    if m:
        return ('prop', m.group(1), [v.strip() for v in m.group(2).split('|')] if m.group(2) else [])
    return ('raw', body)


FIELD_RE = re.compile(r'\$\{(\d+)(?::([^${}]*))?\}')


def defield(s):
    """replace every tabstop by its placeholder text (innermost first)"""
    prev = None
    while prev != s:
        prev = s
        s = FIELD_RE.sub(lambda m: m.group(2) or '', s)
    return s


def norm(s):
    """layout-insensitive form of a CSS value: runs of blanks collapse, no blank after `(` `,` or before `)` `,`"""
    s = re.sub(r'[ \t]+', ' ', s.strip())
    s = re.sub(r' ?([(),]) ?', r'\1', s)
    return s


def keywords_of(values):
    """dash-free keywords listed by a property snippet: whole alternatives that are one word, and function names"""
    words, funcs = [], []
    for v in values:
        if re.fullmatch(r'[A-Za-z]+', v):
            if v not in words:
                words.append(v)
        else:
            m = re.fullmatch(r'([A-Za-z]+)\(.*\)', v)
            if m and m.group(1) not in funcs:
                funcs.append(m.group(1))
    return words, funcs


def top_level_tokens(alt):
    """the blank- / comma-separated tokens of one alternative; a tabstop `${...}`, a quoted string and a parenthesised
    argument list are never split (so the blank of `${1:inset }` or of `"Times New Roman"` does not end a token)"""
    toks, cur, depth, quote, i = [], '', 0, None, 0
    while i < len(alt):
        ch = alt[i]
        if quote:
            cur += ch
            if ch == quote:
                quote = None
        elif ch in '"\'':
            quote = ch
            cur += ch
        elif alt.startswith('${', i):
            j, d = i + 2, 1
            while j < len(alt) and d:
                d += 1 if alt.startswith('${', j) else -1 if alt[j] == '}' else 0
                j += 1
            cur += alt[i:j]
            i = j - 1
        elif ch in '()':
            depth += 1 if ch == '(' else -1
            cur += ch
        elif depth == 0 and ch in ' \t,':
            if cur:
                toks.append(cur)
            cur = ''
        else:
            cur += ch
        i += 1
    if cur:
        toks.append(cur)
    return toks


ONLY_TABSTOPS_RE = re.compile(r'(?:\$\{\d+(?::[^${}]*)?\})+')
TABSTOP_TEXT_RE = re.compile(r'\$\{\d+:([^${}]*)\}')


def inner_keywords_of(values):
    """dash-free keywords a property snippet lists *inside* an alternative (keywords_of covers one-word alternatives and
    function names): (a) the placeholder of a top-level tabstop, surrounding blanks not counted -- `${2:solid}` lists `solid`,
    `${1:inset }${2:hoff}` lists `inset` and `hoff`; only tokens that consist of tabstops and nothing else are read, so the
    `fff` of `#${1:fff}`, the `0` of `${1:0}s` and the arguments of a function are not keywords; (b) a bare alphabetic word that is
    one of several top-level tokens of an alternative -- `Arial, "Helvetica Neue", Helvetica, sans-serif` lists `Arial`, `Helvetica`"""
    out = []
    for v in values:
        toks = top_level_tokens(v)
        for t in toks:
            if re.fullmatch(r'[A-Za-z]+', t):
                if len(toks) > 1 and t not in out:
                    out.append(t)
            elif ONLY_TABSTOPS_RE.fullmatch(t):
                for text in TABSTOP_TEXT_RE.findall(t):
                    w = text.strip(' \t')
                    if re.fullmatch(r'[A-Za-z]+', w) and w not in out:
                        out.append(w)
    return out


def unambiguous(words, funcs):
    """drop keywords that another listed keyword equals up to letter case (typed in another case they name two keywords)"""
    low = [w.lower() for w in list(words) + list(funcs)]
    return [w for w in words if low.count(w.lower()) == 1], [f for f in funcs if low.count(f.lower()) == 1]


def case_variants(w):
    mixed = ''.join(c.upper() if i % 2 else c.lower() for i, c in enumerate(w))
    out = []
    for v in (w, w.lower(), w.upper(), w.capitalize(), mixed):
        if v not in out:
            out.append(v)
    return out


def judge_own(out, body, between, after):
    """is `out` the expansion of the snippet with text `body`?"""
    kind = classify(body)
    if not isinstance(out, str):
        return 'expand returned %r' % (out,)
    if kind[0] == 'raw':
        if out != body:
            return 'raw snippet must produce its body with its tabstops %r, got %r' % (body, out)
        return None
    _, prop, values = kind
    head = prop + between
    if not out.startswith(head) or not out.endswith(after) or len(out) < len(head) + len(after):
        return 'expected %r + value + %r, got %r' % (head, after, out)
    val = out[len(head):len(out) - len(after)] if after else out[len(head):]
    if not values:
        if not re.fullmatch(r'\$\{\d+\}', val):
            return 'property snippet without listed values must produce a tabstop as value, got %r in %r' % (val, out)
        return None
    if norm(defield(val)) != norm(defield(values[0])):
        return 'value %r is not the first listed value %r (output %r)' % (val, values[0], out)
    return None


# --------------------------------------------------------------------------------------------
# observation
# --------------------------------------------------------------------------------------------


def _config(syntax, scope, snippets=None, cache=None):
    cfg = {'type': 'stylesheet', 'syntax': syntax, 'options': {'output.field': field}}
    if scope is not None:
        cfg['context'] = {'name': scope}
    if snippets is not None:
        cfg['snippets'] = snippets
    if cache is not None:
        cfg['cache'] = cache
    return cfg


def _table(syntax, snippets=None):
    from emmet.config import Config
    c = Config(_config(syntax, None, snippets))
    return c.snippets, c.options['stylesheet.between'], c.options['stylesheet.after']


def _permitted(kind, scope):
    if scope == '@@section':
        return kind == 'raw'
    if scope == '@@property':
        return kind == 'prop'
    return True


def _judge_other_kind(out, table, scope, between):
    """the key's own snippet is not of the permitted kind: nothing, or a snippet of the permitted kind"""
    if out == '':
        return None
    if scope == '@@section':
        if any(classify(b)[0] == 'raw' and out == b for b in table.values()):
            return None
        return 'scope @@section permits raw snippets only, got %r' % (out,)
    props = set(classify(b)[1] for b in table.values() if classify(b)[0] == 'prop')
    if any(out.startswith(p + between) for p in props):
        return None
    return 'scope @@property permits property snippets only, got %r' % (out,)


_CONVERTED = {}


def _expand_key(syntax, scope, key, table, between, after, cache=None):
    from emmet import expand
    body = table[key]
    kind = classify(body)[0]
    out = expand(key, _config(syntax, scope, cache=cache))
    if _permitted(kind, scope):
        err = judge_own(out, body, between, after)
    else:
        err = _judge_other_kind(out, table, scope, between)
    if err:
        return 'expand(%r, syntax=%s, scope=%s) for snippet %r: %s' % (key, syntax, scope, body, err)
    return None


def check_key_scoped(syntax, key):
    """one key under the three context scopes (one parse of the snippet table, shared through a case-local `cache`)"""
    table, between, after = _table(syntax)
    cache = {}
    errs = []
    for scope in SCOPES[1:]:
        try:
            err = _expand_key(syntax, scope, key, table, between, after, cache)
        except Exception as e:
            err = 'expand(%r, syntax=%s, scope=%s) raised %s: %s' % (key, syntax, scope, type(e).__name__, e)
        if err:
            errs.append(err)
    return ' | '.join(errs) or None


def check_key(syntax, scope, key):
    table, between, after = _table(syntax)
    err = _expand_key(syntax, scope, key, table, between, after)
    if err:
        return err
    if scope is None:
        # "and no other": the search stops at the first item scoring exactly 1 -- only the key itself may do so
        from emmet.stylesheet.score import calculate_score
        from emmet.stylesheet import find_best_match, convert_snippets
        for other in table:
            if other != key and calculate_score(key, other, True) == 1:
                return 'key %r is a direct hit (score 1) for the different key %r' % (key, other)
        if syntax not in _CONVERTED:
            _CONVERTED[syntax] = convert_snippets(table)       # per process; the search does not write to it
        hit = find_best_match(key, _CONVERTED[syntax], 0, True)
        if hit is None or hit.key != key:
            return 'find_best_match(%r) over the whole table selects %r' % (key, hit and hit.key)
    return None


def check_keywords(syntax, key):
    from emmet import expand
    table, between, after = _table(syntax)
    kind = classify(table[key])
    if kind[0] != 'prop':
        return None
    _, prop, values = kind
    words, funcs = keywords_of(values)
    cache = {}
    for w in words + funcs:
        for typed in case_variants(w):
            for sep, scope in ((':', None), ('-', None), (':', '@@property'), ('-', '@@property')):
                abbr = key + sep + typed
                out = expand(abbr, _config(syntax, scope, cache=cache))
                if w in words:
                    exp = prop + between + w + after
                    ok = out == exp
                else:
                    exp = prop + between + w + '(...)' + after
                    ok = isinstance(out, str) and out.startswith(prop + between) and out.endswith(after) and \
                        norm(defield(out[len(prop + between):])).startswith(w + '(')
                if not ok:
                    return 'expand(%r, syntax=%s, scope=%s): keyword %r listed by %r must resolve to itself: expected %r, got %r' % (
                        abbr, syntax, scope, w, table[key], exp, out)
    return None


def _check_listed(syntax, scopes, key, body, words, funcs, between, after, user=None):
    """every keyword of `words` / function name of `funcs`, typed in full after `key` in every letter case, in both forms and
    under every scope of `scopes`, must give `<property><between><keyword as listed><after>`"""
    from emmet import expand
    prop = classify(body)[1]
    cache = {}
    for w in list(words) + list(funcs):
        for typed in case_variants(w):
            for scope in scopes:
                for sep in (':', '-'):
                    abbr = key + sep + typed
                    out = expand(abbr, _config(syntax, scope, user, cache))
                    if w in words:
                        exp = prop + between + w + after
                        ok = out == exp
                    else:
                        exp = prop + between + w + '(...)' + after
                        ok = isinstance(out, str) and out.startswith(prop + between) and out.endswith(after) and \
                            norm(defield(out[len(prop + between):])).startswith(w + '(')
                    if not ok:
                        return 'expand(%r, syntax=%s, scope=%s%s): keyword %r listed by %r must resolve to itself: expected %r, got %r' % (
                            abbr, syntax, scope, ', user snippets %r' % (user,) if user else '', w, body, exp, out)
    return None


def check_inner_keywords(syntax, key):
    """built-in property snippet `key`: the keywords it lists inside an alternative (tabstop placeholders, words of a
    several-token alternative)"""
    table, between, after = _table(syntax)
    kind = classify(table[key])
    if kind[0] != 'prop':
        return None
    words, funcs = keywords_of(kind[2])
    inner, _ = unambiguous([w for w in inner_keywords_of(kind[2]) if w not in words], words + funcs)
    return _check_listed(syntax, (None, '@@property'), key, table[key], inner, [], between, after)


def check_user_keywords(syntax, user):
    """user: {key: body}.  Every dash-free keyword listed by every property snippet of the user table (one-word alternatives,
    function names, tabstop placeholders, words of several-token alternatives) resolves to itself after the snippet's key"""
    table, between, after = _table(syntax, user)
    for key, body in user.items():
        if table.get(key) != body:
            return 'merged table: user snippet %r does not replace / add the entry (found %r)' % (key, table.get(key))
        kind = classify(body)
        if kind[0] != 'prop':
            continue
        words, funcs = keywords_of(kind[2])
        words, funcs = unambiguous(words + [w for w in inner_keywords_of(kind[2]) if w not in words], funcs)
        err = _check_listed(syntax, (None, '@@global', '@@property'), key, body, words, funcs, between, after, user)
        if err:
            return err
    return None


def check_user_table(syntax, scope, user, probe_builtin):
    """user: {key: body}.  Every user key (and the probed built-in keys) reaches its own snippet of the merged table"""
    from emmet import expand
    table, between, after = _table(syntax, user)
    for k, b in user.items():
        if table.get(k) != b:
            return 'merged table: user snippet %r does not replace / add the entry (found %r)' % (k, table.get(k))
    cache = {}
    for key in list(user) + [k for k in probe_builtin if k not in user]:
        body = table[key]
        kind = classify(body)[0]
        out = expand(key, _config(syntax, scope, user, cache))
        if _permitted(kind, scope):
            err = judge_own(out, body, between, after)
        else:
            err = _judge_other_kind(out, table, scope, between)
        if err:
            return 'expand(%r, syntax=%s, scope=%s, user snippets %r) for %s snippet %r: %s' % (
                key, syntax, scope, user, 'user' if key in user else 'built-in', body, err)
    return None


# ---- user snippets through the global config ---------------------------------------------------
# "A user-defined snippet replaces a built-in one under the same key, is reachable under a new key" -- however the user
# handed it over.  expand(abbr, config, global_config) / Config(config, global_config) accept user snippets in three
# places: global_config['stylesheet'] (for the whole type), global_config[<syntax>] (for one syntax) and
# config['snippets'] (per call).  The layers of one case use different keys (also up to letter case), so the oracle needs
# no precedence rule between them: the expected table is the built-in one with every user entry put in.

EXTRA_BLOCKS = [{'options': {'stylesheet.intUnit': 'px'}}, {'variables': {'lang': 'en'}},
                {'options': {'stylesheet.floatUnit': 'em', 'stylesheet.fuzzySearchMinScore': 0}, 'variables': {'charset': 'UTF-8'}}]


def _global_config(syntax, type_snips, syntax_snips, type_extra, syntax_extra, distract):
    glob = {}
    for name, snips, extra in (('stylesheet', type_snips, type_extra), (syntax, syntax_snips, syntax_extra)):
        block = {}
        if extra:
            block.update({k: dict(v) for k, v in extra.items()})
        if snips is not None:
            block['snippets'] = dict(snips)
        if block:
            glob[name] = block
    if distract:
        # blocks that are not for this expansion: another stylesheet syntax, the markup type
        other = STYLESHEET_SYNTAXES[(STYLESHEET_SYNTAXES.index(syntax) + 1) % len(STYLESHEET_SYNTAXES)]
        glob[other] = {'snippets': {'zzother': 'my-prop:other'}, 'options': {'stylesheet.between': ' :: '}}
        glob['markup'] = {'snippets': {'zzmark': 'div.zzmark'}}
    return glob


def check_global_tables(syntax, scope, type_snips, syntax_snips, call_snips, type_extra, syntax_extra, distract, probe_builtin):
    """type_snips / syntax_snips / call_snips: {key: body} or None -- user snippets in global_config['stylesheet'],
    global_config[syntax] and config['snippets'] (pairwise different keys); type_extra / syntax_extra: options / variables
    (default values) carried by the two global blocks.  Every user key and every probed built-in key reaches its own snippet"""
    from emmet import expand
    from emmet.config import Config
    builtin, _, _ = _table(syntax)
    glob = _global_config(syntax, type_snips, syntax_snips, type_extra, syntax_extra, distract)
    layers = (('global_config[stylesheet]', type_snips), ('global_config[%s]' % syntax, syntax_snips), ('config', call_snips))
    want = dict(builtin)
    origin = {}
    for name, snips in layers:
        for k, b in (snips or {}).items():
            if k in origin:
                return 'generator: key %r occurs in two layers' % k
            want[k] = b
            origin[k] = name
    where = 'syntax=%s, scope=%s, global config %r, config snippets %r' % (syntax, scope, glob, call_snips)
    resolved = Config(_config(syntax, scope, call_snips), glob)
    between, after = resolved.options['stylesheet.between'], resolved.options['stylesheet.after']
    for k, name in origin.items():
        if resolved.snippets.get(k) != want[k]:
            return 'merged table: user snippet %r given in %s does not replace / add the entry (found %r; %s)' % (
                k, name, resolved.snippets.get(k), where)
    cache = {}
    for key in list(origin) + [k for k in probe_builtin if k not in origin]:
        body = want[key]
        kind = classify(body)[0]
        out = expand(key, _config(syntax, scope, call_snips, cache), glob)
        if _permitted(kind, scope):
            err = judge_own(out, body, between, after)
        else:
            err = _judge_other_kind(out, want, scope, between)
        if err:
            return 'expand(%r, %s) for %s snippet %r: %s' % (
                key, where, 'user (%s)' % origin[key] if key in origin else 'built-in', body, err)
    return None


# ---- keyword lookups after a sibling snippet of the same property -------------------------------------
# "A dash-free keyword listed by a property snippet, typed in full (in any letter case) after the key, resolves to that
# keyword" -- whatever was asked before of *another* snippet with the same Config `cache`.  Snippets that share their CSS
# property but not their keyword lists (built-in: ff / fft / ffa / ffv; any user snippet written for a property the table
# already has) are the histories in which a lookup remembered per property, not per snippet, shows.


def listed_keywords(body):
    """(words, function names) -- every dash-free keyword the property snippet `body` lists, ambiguous ones dropped"""
    kind = classify(body)
    if kind[0] != 'prop':
        return [], []
    words, funcs = keywords_of(kind[2])
    return unambiguous(words + [w for w in inner_keywords_of(kind[2]) if w not in words], funcs)


def _judge_keyword(out, prop, between, after, w, is_word):
    if is_word:
        exp = prop + between + w + after
        return exp, out == exp
    exp = prop + between + w + '(...)' + after
    return exp, (isinstance(out, str) and out.startswith(prop + between) and out.endswith(after) and
                 norm(defield(out[len(prop + between):])).startswith(w + '('))


def check_sibling_history(syntax, scope, keys, user):
    """keys: keys of the merged table (built-in + `user`) whose snippets share one CSS property.  For every ordered pair
    (sibling, key) and every keyword `key` lists: expand(sibling:typed) -- outcome not judged, the statement is silent when
    the sibling does not list the word -- and then expand(key:typed) with the same `cache` must give the keyword as listed"""
    from emmet import expand
    table, between, after = _table(syntax, user)
    props = set(classify(table[k])[1] if classify(table[k])[0] == 'prop' else None for k in keys)
    if len(props) != 1 or None in props:
        return 'generator: keys %r do not share one property (%r)' % (keys, props)
    prop = props.pop()
    for sibling in keys:
        for key in keys:
            if key == sibling:
                continue
            words, funcs = listed_keywords(table[key])
            cache = {}
            n = 0
            for w in words + funcs:
                for typed in case_variants(w):
                    n += 1
                    for sep in ((':', '-')[n % 2],):          # both forms, alternating over the typed words
                        first = sibling + sep + typed
                        try:
                            expand(first, _config(syntax, scope, user, cache))
                        except Exception:
                            pass
                        abbr = key + sep + typed
                        out = expand(abbr, _config(syntax, scope, user, cache))
                        exp, ok = _judge_keyword(out, prop, between, after, w, w in words)
                        if not ok:
                            return ('expand(%r, syntax=%s, scope=%s%s) after expand(%r) with the same `cache`: keyword %r listed by %r '
                                    'must resolve to itself: expected %r, got %r' % (
                                        abbr, syntax, scope, ', user snippets %r' % (user,) if user else '', first, w, table[key], exp, out))
    return None


# ---- history independence -------------------------------------------------------------------
# The statement has no "unless something else was expanded before": a key / a keyword typed in full selects its snippet /
# keyword whatever preceded it -- an earlier property of the same `+`-joined abbreviation, or an earlier expand() call
# sharing the `cache` dict.  Each occurrence must therefore equal what a fresh, cache-less, single expansion gives (and the
# fresh forms `key`, `key:keyword` are judged against the statement by the clauses above).

FUNC_ALT_RE = re.compile(r'([A-Za-z][A-Za-z0-9]*)\(.*\)')
ARG_FORMS = ['2', '7, a']


def function_names(values):
    out = []
    for v in values:
        m = FUNC_ALT_RE.fullmatch(v)
        if m and m.group(1) not in out:
            out.append(m.group(1))
    return out


def history_sequences(key, body):
    """(parts, joinable) -- lists of abbreviation parts in which the same key occurs several times in different forms;
    joinable: the parts may also be written as one `+`-joined abbreviation.  (Not for raw keys with typed values: an
    `@`-prefixed name that is not at the start of the abbreviation is read up to the next operator, `-foo` included --
    a tokenizer rule outside this property -- so those forms are only used as separate calls.)"""
    kind = classify(body)
    if kind[0] == 'raw':
        return [([key, key], True), ([key + '-foo', key], False), ([key, key + '-foo10', key], False)]
    values = kind[2]
    words, _ = keywords_of(values)
    seqs = []
    for f in function_names(values):
        for args in ARG_FORMS:
            seqs.append(['%s:%s(%s)' % (key, f, args), '%s:%s' % (key, f), key])            # keyword with arguments, bare keyword, bare key
        seqs.append(['%s-%s(%s)' % (key, f, ARG_FORMS[0]), key, '%s:%s' % (key, f.upper())])  # ... bare key first, keyword in upper case
        seqs.append([key, '%s:%s' % (key, f), '%s:%s(%s)' % (key, f, ARG_FORMS[1]), '%s:%s' % (key, f), key])
    for w in words[:2]:
        seqs.append(['%s:%s' % (key, w), key, '%s-%s' % (key, w.upper()), key])
    seqs.append([key + '10', key, key + '#f-1.5', key])                                       # typed values, then the bare key
    return [(q, True) for q in seqs]


def check_history(syntax, key, user=None):
    from emmet import expand
    table, _, _ = _table(syntax, user)
    fresh = {}

    def reference(part):
        if part not in fresh:
            try:
                fresh[part] = expand(part, _config(syntax, None, user))
            except Exception:
                fresh[part] = None          # a form that fails on its own is not this property's business (C07)
        return fresh[part]

    where = 'syntax=%s%s' % (syntax, ', user snippets %r' % (user,) if user else '')
    for seq, joinable in history_sequences(key, table[key]):
        refs = [reference(p) for p in seq]
        if any(r is None for r in refs):
            continue
        # (a) one `+`-joined abbreviation, no cache
        abbr = '+'.join(seq)
        out = expand(abbr, _config(syntax, None, user)) if joinable else None
        exp = '\n'.join(r for r in refs if r != '')
        if joinable and out != exp:
            lines = out.split('\n') if isinstance(out, str) else []
            bad = [i for i, r in enumerate(refs) if i >= len(lines) or lines[i] != r]
            hint = ''
            if bad and len(lines) == len(refs):
                hint = ': part %r gives %r here, but %r when expanded on its own' % (seq[bad[0]], lines[bad[0]], refs[bad[0]])
            return 'expand(%r, %s)%s (whole output %r, expected the single expansions %r joined by newlines)' % (abbr, where, hint, out, refs)
        # (b) a history of calls sharing one `cache`
        cache = {}
        for i, part in enumerate(seq):
            out = expand(part, _config(syntax, None, user, cache))
            if out != refs[i]:
                return 'expand(%r, %s) = %r after the calls %r with the same `cache`, but %r in a fresh cache-less call' % (
                    part, where, out, seq[:i], refs[i])
    return None


HISTORY_USER = [
    {'zzfn': 'my-prop:foo(${1:a}, ${2:b})|bar(${1})|baz'},
    {'trf': 'my-prop:url(${0})|scale(${1:x})|none'},
    {'zzfn': 'my-prop:baz|fit(${1:w}, ${2:h})', 'zzraw': 'x { y: ${1}; ${0} }'},
]


# --------------------------------------------------------------------------------------------
# generators
# --------------------------------------------------------------------------------------------

STYLESHEET_SYNTAXES = ['css', 'sass', 'scss', 'less', 'sss', 'stylus']


def builtin_keys():
    from . import common  # noqa: sets sys.path
    from emmet.config import Config
    return {s: sorted(Config({'type': 'stylesheet', 'syntax': s}).snippets) for s in STYLESHEET_SYNTAXES}


USER_PROPS = ['margin', 'my-prop', 'grid-template', 'font-family', 'box-shadow', 'x', '-webkit-box-flex', 'zoom']
USER_VALUES = ['block', 'inline-block', 'none', 'auto', '${1:1px} ${2:solid}', '10px', '0', '1.5em', '"Arial", sans-serif',
               'url(${0})', 'repeat(2,auto) / repeat(auto-fit, minmax(250px, 1fr))', '${1}', '#${1:fff}', '-10px 20%', "'x'",
               'var(--bxsh-${1})', 'foo bar', '1px solid', '${1:0}s']
USER_RAW = ['body {\n\tdisplay: grid;\n}', '@include ${1:mixin}(${2});', '/* ${0} */', '@media ${1:screen} {\n\t${0}\n}',
            'a { b: c; }', '${1:sel} {\n\t${2:prop}: ${3};\n\t${0}\n}', 'margin: 10px; padding: 0;', 'Hello world', '!ie', '$var: ${1};']


def random_user_table(rnd, bkeys, nmax):
    user = {}
    for _ in range(rnd.randint(1, nmax)):
        if rnd.random() < 0.45:
            key = rnd.choice(bkeys)
            if key == 'lg':        # the gradient shortcut: covered for every built-in key by the clause user-override-builtin
                continue
        else:
            while True:
                key = ''.join(rnd.choice('abcdefghijklmnopqrstuvwxyz') for _i in range(rnd.randint(1, 7)))
                r = rnd.random()
                if r < 0.15:
                    key = '@' + key
                elif r < 0.3 and len(key) > 2:       # camelCase key, like `myCenterAwesome` in the test-suite
                    key = key[:2] + key[2:].capitalize()
                # (keys equal to another key up to letter case are the subject of the clause user-case-keys)
                if key.lower() not in bkeys and key.lower() != 'lg' and key.lower() not in [u.lower() for u in user]:
                    break
        if rnd.random() < 0.6:
            body = rnd.choice(USER_PROPS)
            if rnd.random() < 0.75:
                vals = rnd.sample(USER_VALUES, rnd.randint(1, 4))
                body += rnd.choice([':', ': ']) + '|'.join(vals)
                if rnd.random() < 0.2:
                    body += ';'
        else:
            body = rnd.choice(USER_RAW)
        user[key] = body
    return user


def gen_user_tables(seed, n, bk):
    rnd = random.Random(seed)
    for i in range(n):
        syntax = STYLESHEET_SYNTAXES[i % len(STYLESHEET_SYNTAXES)]
        scope = rnd.choice([None, None, '@@global', '@@section', '@@property'])
        user = random_user_table(rnd, bk[syntax], 6)
        probe = rnd.sample(bk[syntax], 4)
        yield (syntax, scope, user, probe)


KW_WORDS = ['inset', 'hoff', 'voff', 'blur', 'solid', 'dashed', 'Arial', 'Helvetica', 'serif', 'name', 'ease', 'linear', 'top',
            'left', 'center', 'bold', 'italic', 'both', 'forwards', 'normal', 'row', 'wrap', 'Times', 'fn', 'x', 'tx', 'none',
            'auto', 'zzkw', 'ButtonFace', 'currentColor', 'b', 'Qq']
KW_FUNCS = ['url', 'scale', 'rotateX', 'minmax', 'myfn', 'attr']
KW_FILLERS = ['${%d:1px}', '${%d:#000}', '${%d}', '#000', '${%d:0}s', '"Helvetica Neue"', '${%d:sans-serif}', "'x y'", '#${%d:fff}']
KW_PADS = [('', ''), ('', ''), (' ', ''), ('', ' '), (' ', ' '), ('', '  '), ('\t', '')]


def random_keyword_snippet(rnd):
    """a property snippet whose alternatives list keywords in every way the table syntax offers: one-word alternatives,
    function names, tabstop placeholders (with and without blanks around the word, also glued to the next tabstop like the
    built-in `${1:inset }${2:hoff}`), bare words among several blank- / comma-separated tokens"""
    pool = rnd.sample(KW_WORDS, rnd.randint(2, 8))          # distinct, also up to letter case
    funcs = rnd.sample(KW_FUNCS, 2)
    alts = []
    tab = [0]

    def stop(fmt):
        tab[0] += 1
        return fmt % tab[0] if '%d' in fmt else fmt

    while pool:
        r = rnd.random()
        if r < 0.3:
            alts.append(pool.pop())
        elif r < 0.4 and funcs:
            alts.append('%s(%s)' % (funcs.pop(), rnd.choice(['', '${1}', '${1:a}, ${2:b}', '${0}'])))
        else:
            tab[0] = 0
            toks = []
            for _ in range(rnd.randint(1, 4)):
                q = rnd.random()
                if q < 0.5 and pool:
                    lead, trail = rnd.choice(KW_PADS)
                    tok = stop('${%d:' + lead + pool.pop() + trail + '}')
                    if trail and pool and rnd.random() < 0.6:       # glued: the blank inside the placeholder separates
                        tok += stop('${%d:' + pool.pop() + rnd.choice(['', ' ']) + '}')
                    toks.append(tok)
                elif q < 0.75 and pool:
                    toks.append(pool.pop())
                else:
                    toks.append(stop(rnd.choice(KW_FILLERS)))
            alts.append(rnd.choice([' ', ' ', ', ']).join(toks))
    rnd.shuffle(alts)
    return rnd.choice(USER_PROPS) + rnd.choice([':', ': ']) + '|'.join(alts) + rnd.choice(['', '', ';'])


def gen_keyword_tables(seed, n, bk):
    rnd = random.Random(seed * 7919 + 6)
    for i in range(n):
        syntax = STYLESHEET_SYNTAXES[i % len(STYLESHEET_SYNTAXES)]
        user = {}
        for _ in range(rnd.randint(1, 2)):
            if rnd.random() < 0.4:
                key = rnd.choice([k for k in bk[syntax] if k != 'lg'])      # `lg`: known finding, clause user-override-builtin
            else:
                while True:
                    key = ''.join(rnd.choice('abcdefghijklmnopqrstuvwxyz') for _i in range(rnd.randint(2, 6)))
                    if key not in bk[syntax] and key != 'lg' and key not in user:
                        break
            user[key] = random_keyword_snippet(rnd)
        yield (syntax, user)


def gen_global_tables(seed, n, bk):
    """user tables of random_user_table split over the three places a user can put snippets"""
    rnd = random.Random(seed * 104729 + 61)
    shapes = [('type',), ('syntax',), ('type', 'syntax'), ('type', 'call'), ('syntax', 'call'), ('type', 'syntax', 'call'),
              ('type', 'syntax'), ('type',)]
    for i in range(n):
        syntax = STYLESHEET_SYNTAXES[i % len(STYLESHEET_SYNTAXES)]
        scope = rnd.choice([None, None, None, '@@global', '@@section', '@@property'])
        shape = shapes[(i // len(STYLESHEET_SYNTAXES)) % len(shapes)]
        user = random_user_table(rnd, bk[syntax], 6)
        layers = {'type': None, 'syntax': None, 'call': None}
        for name in shape:
            layers[name] = {}
        for j, (k, b) in enumerate(user.items()):
            layers[shape[j % len(shape)] if j < len(shape) else rnd.choice(shape)][k] = b
        # a global block may also hold no snippets at all, only options / variables (here: the default values)
        type_extra = rnd.choice(EXTRA_BLOCKS) if rnd.random() < 0.4 else None
        syntax_extra = rnd.choice(EXTRA_BLOCKS) if rnd.random() < (0.7 if layers['syntax'] is None else 0.3) else None
        probe = rnd.sample([k for k in bk[syntax] if k != 'lg'], 3)      # `lg`: known finding KF-C06-LG
        yield (syntax, scope, layers['type'], layers['syntax'], layers['call'], type_extra, syntax_extra, rnd.random() < 0.3, probe)


def same_property_groups(table):
    """built-in keys (without `lg`, known finding) grouped by CSS property, groups of 2+ in which some snippet lists a keyword"""
    groups = {}
    for k in sorted(table):
        kind = classify(table[k])
        if kind[0] == 'prop' and k != 'lg':
            groups.setdefault(kind[1], []).append(k)
    return [ks for p, ks in sorted(groups.items()) if len(ks) > 1 and any(sum(listed_keywords(table[k]), []) for k in ks)]


def with_property(snippet, prop):
    return prop + snippet[re.match(r'[a-z-]+', snippet).end():]


def gen_sibling_cases(seed, npairs, bk):
    from emmet.config import Config
    rnd = random.Random(seed * 15485863 + 606)
    scopes = [None, '@@property', '@@global']
    n = 0

    def new_key(taken):
        while True:
            key = ''.join(rnd.choice('abcdefghijklmnopqrstuvwxyz') for _i in range(rnd.randint(2, 6)))
            if key not in taken and key != 'lg':
                return key

    for s in STYLESHEET_SYNTAXES:
        table = Config({'type': 'stylesheet', 'syntax': s}).snippets
        # (1) the built-in families
        for keys in same_property_groups(table):
            for scope in scopes:
                yield (s, scope, keys, None)
        # (2) every built-in property snippet that lists a keyword, next to a user snippet written for the same property
        for k in bk[s]:
            if k == 'lg' or not sum(listed_keywords(table[k]), []):
                continue
            prop = classify(table[k])[1]
            sib = new_key(bk[s])
            n += 1
            yield (s, scopes[n % 3], [k, sib], {sib: with_property(random_keyword_snippet(rnd), prop)})
    # (3) two or three user snippets for one property (new keys, or one of them overriding a built-in key)
    for i in range(npairs):
        s = STYLESHEET_SYNTAXES[i % len(STYLESHEET_SYNTAXES)]
        prop = rnd.choice(USER_PROPS)
        user = {}
        for _ in range(rnd.randint(2, 3)):
            key = rnd.choice([k for k in bk[s] if k != 'lg']) if rnd.random() < 0.25 else new_key(list(bk[s]) + list(user))
            user[key] = with_property(random_keyword_snippet(rnd), prop)
        if len(user) > 1:
            yield (s, scopes[i % 3], list(user), user)


def check_override(syntax, key, body):
    """a user snippet under a built-in key replaces the built-in one"""
    return check_user_table(syntax, None, {key: body}, [])


OVERRIDES = ['my-prop:a|b', 'my-prop', 'body {\n\t${1:display}: grid;\n}']


def gen_case_tables(bases):
    """a new user key that equals a built-in key up to letter case"""
    for base in bases:
        for variant in sorted(set((base.upper(), base.capitalize())) - set((base,))):
            for body in ('my-prop:a|b', 'Hello ${1:world}'):
                yield ('css', None, {variant: body}, [base])


def check_table(syntax):
    """the table the other clauses quantify over is the documented one: every `|`-separated alias of every entry of
    emmet/snippets/css.py is a key of the resolved stylesheet table, with that entry's text, and there is no other key"""
    from emmet.config import Config
    from emmet.snippets.css import snippets as raw
    want = {}
    for k, v in raw.items():
        for name in k.split('|'):
            want[name] = v
    got = Config({'type': 'stylesheet', 'syntax': syntax}).snippets
    for name, v in want.items():
        if name not in got:
            return 'syntax %s: built-in snippet key %r is missing from the resolved table' % (syntax, name)
        if got[name] != v:
            return 'syntax %s: key %r holds %r instead of %r' % (syntax, name, got[name], v)
    extra = sorted(set(got) - set(want))
    if extra:
        return 'syntax %s: resolved table has keys that no built-in entry defines: %r' % (syntax, extra)
    return None


def run(tier, seed):
    quick = tier == 'quick'
    bk = builtin_keys()
    out = []

    nkeys = len(bk['css'])
    c = Clause('builtin-keys', 'F', 'every key of Config({type: stylesheet, syntax: s}).snippets',
               '%d keys x syntaxes %r, no context scope' % (nkeys, STYLESHEET_SYNTAXES),
               'a case is (syntax, None, key): expand(key) through a plain dict config (table re-parsed per call) must be the key\'s own '
               'snippet -- `<property><between><first listed value | tabstop><after>` or the raw body with its tabstops; also no other '
               'key scores 1 against it and find_best_match over the converted table returns the key\'s snippet; plus one case per syntax: '
               'the resolved table is exactly the alias-expanded table of emmet/snippets/css.py', exhaustive=True)
    run_parallel(c, 'bounded.c06', 'check_key', ((s, None, k) for s in STYLESHEET_SYNTAXES for k in bk[s]), chunk=40)
    run_parallel(c, 'bounded.c06', 'check_table', ((s,) for s in STYLESHEET_SYNTAXES), chunk=1)
    out.append(c.done())

    c = Clause('builtin-keys-scoped', 'F', 'every key of Config({type: stylesheet, syntax: s}).snippets under a context scope',
               '%d keys x syntaxes %r x scopes %r' % (nkeys, STYLESHEET_SYNTAXES, SCOPES[1:]),
               'a case is (syntax, key), the three scopes checked inside (all failing scopes are reported): as builtin-keys when the scope '
               'permits the kind of the key\'s snippet (@@global: all, @@section: raw, @@property: property snippets); otherwise the '
               'output is empty or a snippet of the permitted kind', exhaustive=True)
    run_parallel(c, 'bounded.c06', 'check_key_scoped', ((s, k) for s in STYLESHEET_SYNTAXES for k in bk[s]), chunk=40)
    out.append(c.done())

    c = Clause('builtin-keywords', 'F', 'every property snippet of the built-in table, every dash-free keyword it lists (one-word '
               'alternatives and function names)', 'x case variants {as listed, lower, UPPER, Capitalized, aLtErNaTiNg} x forms '
               '`key:kw`, `key-kw` x syntaxes %r x scopes [none, @@property]' % (STYLESHEET_SYNTAXES,),
               'a case is (syntax, key) with all keyword x case x form x scope expansions checked inside: the value must be the keyword '
               'as listed (a function name: `name(`...)', exhaustive=True)
    run_parallel(c, 'bounded.c06', 'check_keywords', ((s, k) for s in STYLESHEET_SYNTAXES for k in bk[s]), chunk=20)
    out.append(c.done())

    c = Clause('builtin-inner-keywords', 'F', 'every property snippet of the built-in table, every dash-free keyword it lists inside an '
               'alternative: the placeholder word of a top-level tabstop (blanks around the word not counted) and every bare word of an '
               'alternative with several blank- / comma-separated tokens',
               'x case variants {as listed, lower, UPPER, Capitalized, aLtErNaTiNg} x forms `key:kw`, `key-kw` x syntaxes %r x scopes '
               '[none, @@property]' % (STYLESHEET_SYNTAXES,),
               'a case is (syntax, key) with all keyword x case x form x scope expansions checked inside: the output must be '
               '`<property><between><keyword as listed><after>` exactly', exhaustive=True)
    run_parallel(c, 'bounded.c06', 'check_inner_keywords', ((s, k) for s in STYLESHEET_SYNTAXES for k in bk[s]), chunk=40)
    out.append(c.done())

    n = 300 if quick else 12000
    c = Clause('user-keywords', 'B', 'random.Random(seed) user tables of 1..2 property snippets (40%% overriding a built-in key, else a new key of '
               '2..6 letters) whose alternatives list 2..8 keywords from a pool of %d words in every way the table syntax offers: one-word '
               'alternatives, function names, tabstop placeholders with and without blanks / a tab around the word (also glued '
               '`${1:w }${2:v}`), bare words among several blank- or comma-separated tokens; fillers %r'
               % (len(KW_WORDS), KW_FILLERS),
               '%d tables, seed %d, syntax cycling through %r; per keyword: case variants x `key:kw`, `key-kw` x scopes [none, @@global, '
               '@@property]' % (n, seed, STYLESHEET_SYNTAXES),
               'a case is (syntax, user table): the merged table holds the user entries and every listed dash-free keyword (read from the '
               'snippet text by keywords_of + inner_keywords_of), typed in full in any letter case after the key, gives '
               '`<property><between><keyword as listed><after>` (function name: the value starts with `name(`)', exhaustive=False)
    run_parallel(c, 'bounded.c06', 'check_user_keywords', gen_keyword_tables(seed, n, bk), chunk=10)
    out.append(c.done())

    hsyn = ['css', 'stylus'] if quick else STYLESHEET_SYNTAXES
    c = Clause('history-independence', 'B', 'every built-in key (and 3 fixed user tables with function keywords) in sequences where the same key '
               'occurs several times in different forms',
               '%d keys x syntaxes %r; per key: for every function keyword f it lists (names over letters and digits) '
               '[key:f(args), key:f, key] for args in %r, [key-f(args), key, key:F], [key, key:f, key:f(args), key:f, key]; for its first two '
               'word keywords [key:w, key, key-W, key]; [key10, key, key#f-1.5, key]; raw snippets [key, key] and, as separate calls only, '
               '[key-foo, key], [key, key-foo10, key]'
               % (nkeys, hsyn, ARG_FORMS),
               'a case is (syntax, key[, user table]); each sequence is run (a) as one `+`-joined abbreviation without cache and (b) as a history '
               'of expand() calls sharing one `cache` dict; every occurrence must equal the fresh cache-less single expansion of that part',
               exhaustive=True)
    run_parallel(c, 'bounded.c06', 'check_history', [(s, k) for s in hsyn for k in bk[s]] +
                 [(s, k, u) for s in hsyn for u in HISTORY_USER for k in u], chunk=12)
    out.append(c.done())

    osyn = ['css'] if quick else STYLESHEET_SYNTAXES
    c = Clause('user-override-builtin', 'F', 'every built-in key overridden by a one-entry user table', '%d keys x syntaxes %r x user bodies %r'
               % (nkeys, osyn, OVERRIDES), 'a case is (syntax, key, user body): expand(key) must be the user snippet, not the built-in one',
               exhaustive=True)
    run_parallel(c, 'bounded.c06', 'check_override', ((s, k, b) for s in osyn for k in bk[s] for b in OVERRIDES), chunk=40)
    out.append(c.done())

    n = 1200 if quick else 60000
    c = Clause('user-tables', 'B', 'random.Random(seed) user snippet tables: 1..6 entries, 45% overriding a built-in key, else a new key of 1..7 letters '
               '(15% with @ prefix, 15% camelCase); 60% property kind (name, 0..4 values from a pool) / 40% raw bodies',
               '%d tables, seed %d, syntax cycling through %r, scope random in none/@@global/@@section/@@property' % (n, seed, STYLESHEET_SYNTAXES),
               'a case is (syntax, scope, user table, 4 probed built-in keys): the merged table holds the user entries, every user key and '
               'every probed built-in key expands to its own snippet (scope permitting)', exhaustive=False)
    run_parallel(c, 'bounded.c06', 'check_user_table', gen_user_tables(seed, n, bk), chunk=25)
    out.append(c.done())

    bases = ['m', 'tbl', 'pos', 'cm'] if quick else [k for k in bk['css'] if re.fullmatch(r'[a-z]+', k)]
    c = Clause('user-case-keys', 'B', 'one new user key that is the UPPER / Capitalized spelling of a built-in key; user body property / raw kind',
               'base keys %s, syntax css' % (bases if quick else 'all %d purely alphabetic built-in keys' % len(bases)),
               'a case is ({VARIANT: body}, [base key]): both the user key and the built-in key it resembles must still select '
               'their own snippet ("typing the key exactly selects that snippet and no other")', exhaustive=True)
    run_parallel(c, 'bounded.c06', 'check_user_table', gen_case_tables(bases), chunk=8)
    out.append(c.done())

    n = 900 if quick else 30000
    c = Clause('global-config-tables', 'B', 'random.Random(seed) user snippet tables (as user-tables: 1..6 entries, overriding and new keys, property '
               'and raw kinds) split over the places a user can put snippets: global_config[stylesheet], global_config[<syntax in use>], '
               'config[snippets] -- shapes type / syntax / type+syntax / type+call / syntax+call / all three, pairwise different keys; each '
               'global block may in addition (or only) carry options / variables with their default values (%d forms); 30%% with blocks for '
               'another stylesheet syntax and for markup next to them' % len(EXTRA_BLOCKS),
               '%d cases, seed %d, syntax cycling through %r, scope random in none/@@global/@@section/@@property, 3 probed built-in keys'
               % (n, seed, STYLESHEET_SYNTAXES),
               'a case is (syntax, scope, type snippets, syntax snippets, call snippets, type extra, syntax extra, distractors, probes): '
               'Config(config, global_config).snippets holds every user entry, and expand(key, config, global_config) of every user key '
               'and every probed built-in key is its own snippet (scope permitting) -- expected table = built-in table with all user '
               'entries put in', exhaustive=False)
    run_parallel(c, 'bounded.c06', 'check_global_tables', gen_global_tables(seed, n, bk), chunk=25)
    out.append(c.done())

    n = 120 if quick else 6000
    c = Clause('sibling-keyword-history', 'B', 'groups of snippets sharing one CSS property: (1) the built-in groups (font-family: ff fft ffa ffv; '
               '`lg` left out) x 3 scopes, (2) every built-in property snippet that lists a dash-free keyword next to a random user snippet '
               '(random_keyword_snippet) written for the same property under a new key, (3) random.Random(seed) tables of 2..3 user snippets for '
               'one property (25%% overriding a built-in key)',
               'syntaxes %r, scope cycling none/@@property/@@global, %d tables of kind (3), seed %d; per ordered pair (sibling, key) and per '
               'keyword listed by key: case variants, forms `key:kw` / `key-kw` alternating' % (STYLESHEET_SYNTAXES, n, seed),
               'a case is (syntax, scope, keys, user table): with one `cache` per ordered pair, expand(sibling:typed) (not judged) and then '
               'expand(key:typed) must give `<property><between><keyword as listed><after>` (function name: value starts with `name(`)',
               exhaustive=False)
    run_parallel(c, 'bounded.c06', 'check_sibling_history', gen_sibling_cases(seed, n, bk), chunk=12)
    out.append(c.done())
    return out
