"""C07 bounded stand-in: expand() fails only with its two parse errors, never with an internal error.

Oracle (from the statement of C07, nothing else): for an input string `abbr`, a supported syntax and an
option set, `emmet.expand(abbr, config)`

  * terminates                      -- stand-in: an alarm after 5 s of CPU time per call (a normal call takes < 1 ms);
  * returns a `str`, or raises `emmet.scanner.ScannerException` or
    `emmet.token_scanner.TokenScannerException` (isinstance);
  * the exception's `.pos`, when it is not None, is an int with 0 <= pos <= len(abbr);
  * anything else that escapes (TypeError, IndexError, ValueError, KeyError, AttributeError, a bare
    Exception, RecursionError, ...) is a violation.

Every violation message starts with a stable *classification* `<ExceptionType>@<module>.<function>` (module
relative to the `emmet` package, function = innermost frame of the traceback that lies inside the `emmet`
package), e.g. `IndexError@abbreviation.convert.create_attribute`, so that distinct defects can be told
apart.  A clause reports at most PER_CLASS inputs per class (the shortest ones, deterministic order).

One *evaluation* is one `expand()` call on one (abbreviation, configuration) pair.  Configurations are plain
JSON dicts (see `configs()`); every call gets a freshly built config dict (no state is shared between calls,
with one stated exception: stylesheet configurations carry a `cache` dict that is shared between the calls
of one worker process for one and the same configuration -- without it every stylesheet call re-parses the
~500 built-in snippets (7 ms); a failure seen with a cache is re-run with a fresh cache before it is
reported, and a small uncached sweep is part of the run).
"""
import itertools
import json
import random

from .common import Clause, NPROC, chunked
from .c07_corpus import MARKUP as CORPUS_MARKUP, STYLESHEET as CORPUS_STYLESHEET

PER_CLASS = 3          # reported inputs per classification and clause
TIMEOUT = 5.0          # seconds of CPU time per expand() call

# ------------------------------------------------------------------------------------------ alphabets
# markup: one lower-case letter, one digit, every operator / bracket / quote / special character of the markup
# tokenizer (abbreviation/tokenizer/utils.py: Chars) except the single quote, colon, underscore (they behave
# like `"` resp. like a letter; they are part of MUT_MARKUP below), plus the escape and a blank.
ALPHA_MARKUP = 'a1>+^*()[]{}.#$@-/="\\! '
# stylesheet: letter, hex letter/digit, digit, every operator of the css tokenizer, brackets, quote, field chars
ALPHA_STYLE = 'ae1.-+!,:#$@%()"{}/ '
# extra characters for mutations / random strings (capital letter for JSX components, single quote, colon, ...)
MUT_MARKUP = ALPHA_MARKUP + "A':_|"
MUT_STYLE = ALPHA_STYLE + "p0'_*\\"

# "foreign" characters: the complement of the alphabets above.  The statement quantifies over *every input string*; a
# character that no tokenizer rule knows must end in a parse error (or be accepted), like everything else.  The set is
# defined from the harness alphabets only (every printable ASCII character that is neither alphanumeric nor in the
# mutation alphabet of the type), plus control characters, blanks other than ' ', and non-ASCII letters / symbols
# (Latin-1, Cyrillic, CJK, a currency sign, a zero-width space, a no-break space, one astral-plane character).
FOREIGN_EXTRA = '\t\n\r\x00\x7f\xa0\xe9\xdf\u044f\u4e2d\u20ac\u200b\U0001f600'


def foreign(mut_alpha):
    return ''.join(chr(c) for c in range(0x20, 0x7f) if chr(c) not in mut_alpha and not chr(c).isalnum()) + FOREIGN_EXTRA


FOREIGN_MARKUP = foreign(MUT_MARKUP)      # %&,;<?`~ + extras
FOREIGN_STYLE = foreign(MUT_STYLE)        # &;<=>?[]^`|~ + extras

MARKUP_SYNTAXES = ['html', 'xml', 'xsl', 'jsx', 'js', 'pug', 'slim', 'haml', 'vue', 'svelte']
STYLE_SYNTAXES = ['css', 'sass', 'scss', 'less', 'sss', 'stylus']

# ------------------------------------------------------------------------------------------ option pools
# Only documented configuration keys with values of the documented type (emmet/config.py, README, tests).
MARKUP_POOL = [
    {},
    {'text': 'foo'},
    {'text': ['foo', 'bar']},
    {'text': []},
    {'text': ['', '  ']},
    {'text': 'http://emmet.io\n$# ${1:x} <b>*</b>'},
    {'options': {'bem.enabled': True}},
    {'options': {'comment.enabled': True}},
    {'options': {'jsx.enabled': True}},
    {'context': {'name': 'ul'}},
    {'options': {'bem.enabled': True}, 'context': {'name': 'div', 'attributes': {'class': 'bl'}}},
    {'text': ['a', 'b'], 'options': {'bem.enabled': True, 'comment.enabled': True, 'jsx.enabled': True},
     'context': {'name': 'p'}},
    {'options': {'output.format': False, 'output.reverseAttributes': True, 'output.compactBoolean': True,
                 'output.selfClosingStyle': 'xhtml', 'output.tagCase': 'upper', 'output.attributeCase': 'upper',
                 'output.attributeQuotes': 'single', 'markup.href': False}},
    {'options': {'output.formatLeafNode': True, 'output.inlineBreak': 0, 'comment.enabled': True,
                 'comment.before': '<!-- [#ID] -->', 'comment.trigger': ['class', 'a']},
     'snippets': {'a': 'a[href title]>b', 'x': 'x+y'}, 'maxRepeat': 3},
]
STYLE_POOL = [
    {},
    {'context': {'name': 'align-content'}},
    {'context': {'name': '@@section'}},
    {'context': {'name': '@@property'}},
    {'context': {'name': '@@value'}},
    {'context': {'name': '@@global'}},
    {'options': {'stylesheet.json': True, 'stylesheet.jsonDoubleQuotes': True}},
    {'options': {'stylesheet.shortHex': False, 'stylesheet.fuzzySearchMinScore': 0.3, 'stylesheet.skipUnmatched': False,
                 'stylesheet.intUnit': '', 'stylesheet.floatUnit': 'rem', 'stylesheet.unitless': ['a'],
                 'stylesheet.keywords': ['a', 'e1']}},
    {'snippets': {'a': 'e:1|${2:a}|a(1, e)', 'e': 'a ${1} e ${2:1}', 'ae': 'a-e'}, 'text': 'foo'},
]
# small sets used where the full product would not fit the budget
MARKUP_CORE = [('html', 0), ('jsx', 11), ('pug', 2), ('html', 1)]
STYLE_CORE = [('css', 0), ('scss', 1), ('stylus', 7)]


def _cfg(typ, syntax, spec):
    c = {'type': typ, 'syntax': syntax}
    c.update(spec)
    return c


def configs(typ, which):
    """list of config dicts. which: 'full' (every syntax x every pool entry); 'mid' (markup: every syntax with default
    options + html x every other pool entry + jsx and pug x 6 pool entries = 35; stylesheet: every syntax with default
    options + css x every other pool entry = 14); 'core' (4 resp. 3 hand-picked); 'two' (first two of core);
    'nocache' (stylesheet, 2 configurations, run without any cache dict)"""
    if typ == 'markup':
        syn, pool, core = MARKUP_SYNTAXES, MARKUP_POOL, MARKUP_CORE
        rich = [('html', range(1, len(pool))), ('jsx', (1, 2, 3, 6, 7, 11)), ('pug', (1, 2, 3, 6, 7, 11))]
    else:
        syn, pool, core = STYLE_SYNTAXES, STYLE_POOL, STYLE_CORE
        rich = [('css', range(1, len(pool)))]
    if which == 'full':
        return [_cfg(typ, s, p) for s in syn for p in pool]
    if which == 'mid':
        return [_cfg(typ, s, pool[0]) for s in syn] + [_cfg(typ, s, pool[i]) for s, idx in rich for i in idx]
    if which == 'core':
        return [_cfg(typ, s, pool[i]) for s, i in core]
    if which == 'two':
        return [_cfg(typ, s, pool[i]) for s, i in core[:2]]
    if which == 'nocache':
        return [_cfg(typ, syn[0], pool[0]), _cfg(typ, syn[-1], pool[1])]
    raise ValueError(which)


def random_configs(typ, seed, n):
    """seeded random combinations of options, text payloads and contexts (statement: 'random combinations of
    options, text payloads and contexts')"""
    rnd = random.Random('c07-%s-%d' % (typ, seed))
    out = []
    for _ in range(n):
        if typ == 'markup':
            c = {'type': typ, 'syntax': rnd.choice(MARKUP_SYNTAXES), 'maxRepeat': rnd.choice([2, 5, 40])}
            t = rnd.choice([None, 'x', 'a b\nc', ['l1', '', 'l2'], [], ['$#'], 'www.a.bc', ['  ']])
            if t is not None:
                c['text'] = t
            o = {}
            for k, vals in (('bem.enabled', [True]), ('comment.enabled', [True]), ('jsx.enabled', [True, False]),
                            ('markup.href', [False]), ('output.format', [False]), ('output.reverseAttributes', [True]),
                            ('output.compactBoolean', [True]), ('output.selfClosingStyle', ['xml', 'xhtml', 'html']),
                            ('output.formatLeafNode', [True]), ('output.inlineBreak', [0, 1]),
                            ('output.tagCase', ['upper', 'lower']), ('output.attributeQuotes', ['single']),
                            ('output.indent', ['  ']), ('output.baseIndent', ['>>']), ('output.newline', ['\r\n'])):
                if rnd.random() < 0.3:
                    o[k] = rnd.choice(vals)
            if o:
                c['options'] = o
            ctx = rnd.choice([None, None, {'name': 'ul'}, {'name': 'a'}, {'name': 'div', 'attributes': {'class': 'b b_m'}},
                              {'name': 'P', 'attributes': {}}])
            if ctx is not None:
                c['context'] = ctx
        else:
            c = {'type': typ, 'syntax': rnd.choice(STYLE_SYNTAXES)}
            o = {}
            for k, vals in (('stylesheet.json', [True]), ('stylesheet.shortHex', [False]), ('stylesheet.intUnit', ['', 'pt']),
                            ('stylesheet.floatUnit', ['', 'rem']), ('stylesheet.fuzzySearchMinScore', [0.3, 0.9, 1]),
                            ('stylesheet.skipUnmatched', [False]), ('stylesheet.between', ['', ' = ']),
                            ('stylesheet.after', ['', ';;']), ('stylesheet.unitAliases', [{}, {'e': 'em', 'a': 'q'}]),
                            ('stylesheet.keywords', [[], ['auto', 'a']]), ('stylesheet.unitless', [[], ['margin', 'a']])):
                if rnd.random() < 0.3:
                    o[k] = rnd.choice(vals)
            if o:
                c['options'] = o
            ctx = rnd.choice([None, None, {'name': 'margin'}, {'name': 'color'}, {'name': '@@section'}, {'name': '@@property'},
                              {'name': '@@value'}, {'name': 'nosuchproperty'}])
            if ctx is not None:
                c['context'] = ctx
            if rnd.random() < 0.3:
                c['snippets'] = rnd.choice([{'a': 'a'}, {'ae': 'a-e:1|2|${3:e}'}, {'e': 'x ${1} y'}])
        out.append(c)
    return out


# ------------------------------------------------------------------------------------------ the oracle
class _Timeout(BaseException):
    pass


def _alarm(signum, frame):
    raise _Timeout()


def _innermost_emmet_frame(tb):
    import os
    import emmet
    root = os.path.dirname(os.path.abspath(emmet.__file__)) + os.sep
    best = None
    while tb is not None:
        co = tb.tb_frame.f_code
        fn = os.path.abspath(co.co_filename)
        if fn.startswith(root):
            mod = tb.tb_frame.f_globals.get('__name__', '?')
            if mod.startswith('emmet.'):
                mod = mod[len('emmet.'):]
            best = '%s.%s' % (mod, co.co_name)
        tb = tb.tb_next
    return best or '?'


_CACHES = {}
_RANDOM_CFGS = {}
_RETRIES = [0]


def _with_cache(cfg):
    "stylesheet only: add the per-process, per-configuration cache dict"
    if cfg.get('type') != 'stylesheet':
        return cfg
    k = json.dumps(cfg, sort_keys=True)
    c = dict(cfg)
    c['cache'] = _CACHES.setdefault(k, {})
    return c


def _call(abbr, cfg):
    """one guarded expand() call -> None | (classification, detail)"""
    import signal
    from emmet import expand
    from emmet.scanner import ScannerException
    from emmet.token_scanner import TokenScannerException
    # CPU-time alarm (ITIMER_VIRTUAL counts this process's user time): a loaded machine cannot cause a false "timeout"
    old = signal.signal(signal.SIGVTALRM, _alarm)
    signal.setitimer(signal.ITIMER_VIRTUAL, TIMEOUT)
    try:
        try:
            r = expand(abbr, cfg)
        finally:
            signal.setitimer(signal.ITIMER_VIRTUAL, 0)
            signal.signal(signal.SIGVTALRM, old)
    except (ScannerException, TokenScannerException) as e:
        pos = getattr(e, 'pos', None)
        if pos is not None and not (isinstance(pos, int) and not isinstance(pos, bool) and 0 <= pos <= len(abbr)):
            return ('BadPos(%s)@%s' % (type(e).__name__, _innermost_emmet_frame(e.__traceback__)),
                    'reported pos=%r outside 0..%d' % (pos, len(abbr)))
        return None
    except _Timeout as e:
        return ('Timeout@%s' % _innermost_emmet_frame(e.__traceback__), 'no result after %.0f s of CPU time' % TIMEOUT)
    except RecursionError as e:
        return ('RecursionError@expand', 'maximum recursion depth exceeded')
    except Exception as e:
        return ('%s@%s' % (type(e).__name__, _innermost_emmet_frame(e.__traceback__)), 'raised %s(%s)' % (type(e).__name__, e))
    if not isinstance(r, str):
        return ('NonStr@expand', 'returned %s' % type(r).__name__)
    return None


def _fresh(cfg):
    return json.loads(json.dumps(cfg))


def check_expand(abbr, cfg):
    """replayable single case: one abbreviation, one JSON configuration (fresh dict, fresh cache if any)"""
    cfg = _fresh(cfg)
    if cfg.get('type') == 'stylesheet' and cfg.pop('_cache', True):
        cfg['cache'] = {}
    shown = json.dumps({k: v for k, v in cfg.items() if k != 'cache'}, sort_keys=True)
    r = _call(abbr, cfg)
    if r is None:
        return None
    return '%s: expand(%r, %s%s) %s; allowed: str result, ScannerException or TokenScannerException with pos in 0..len' % (
        r[0], abbr, shown, ' + fresh cache dict' if 'cache' in cfg else '', r[1])


def scan(abbr, typ, which, seed):
    """worker-side: one abbreviation against a whole configuration list -> (n_calls, [(class, abbr, cfg, detail)])"""
    if which.startswith('random:'):
        k = (typ, seed, which)
        if k not in _RANDOM_CFGS:
            _RANDOM_CFGS[k] = random_configs(typ, seed, int(which.split(':')[1]))
        cfgs = _RANDOM_CFGS[k]
        # a long random string gets 3 of the random configurations, chosen by its own content (deterministic)
        r = random.Random('%s|%d' % (abbr, seed))
        cfgs = r.sample(cfgs, 3)
    else:
        k = (typ, which)
        if k not in _RANDOM_CFGS:
            _RANDOM_CFGS[k] = configs(typ, which)
        cfgs = _RANDOM_CFGS[k]
    out = []
    for cfg in cfgs:
        nocache = which == 'nocache'
        run_cfg = _fresh(cfg) if nocache or typ != 'stylesheet' else _with_cache(_fresh(cfg))
        r = _call(abbr, run_cfg)
        if r is not None and typ == 'stylesheet' and not nocache and _RETRIES[0] < 300:
            # confirm with a fresh cache (7 ms each: at most 300 confirmations per worker process)
            _RETRIES[0] += 1
            r2 = _call(abbr, dict(_fresh(cfg), cache={}))
            if r2 is None or r2[0] != r[0]:
                r = (r[0], r[1] + ' -- ONLY with a cache dict shared with earlier calls of the same configuration '
                     '(a fresh cache gives %s); replay will not reproduce' % (r2 and r2[0],))
        if r is not None:
            c = dict(cfg)
            if nocache and typ == 'stylesheet':
                c['_cache'] = False
            out.append((r[0], abbr, c, r[1]))
            if str(r[0]).startswith('Timeout') and sum(1 for o in out if str(o[0]).startswith('Timeout')) >= 2:
                # the call does not return under two configurations already: the other configurations of this
                # abbreviation are not tried (each would cost the full time-out)
                break
    return len(cfgs), out


_STOP_EVENT = None      # set by drive() before the pool forks; workers skip their chunk once it is set


def _worker(job):
    typ, which, seed, abbrs = job
    if _STOP_EVENT is not None and _STOP_EVENT.is_set():
        return 0, [], []
    n = 0
    found = []
    hashes = []
    timeouts = 0
    for a in abbrs:
        hashes.append(hash((typ, a)))
        k, out = scan(a, typ, which, seed)
        n += k
        found.extend(out)
        timeouts += sum(1 for o in out if str(o[0]).startswith('Timeout'))
        if timeouts >= 3:
            # three calls of this chunk did not return: the rest of the chunk is not run (drive() stops the clause
            # once enough of them are collected); cannot happen on a tree where expand() terminates
            break
    return n, hashes, found


def drive(clause, typ, which, abbrs, seed=0, chunk=400):
    """run `scan` over abbreviations on the process pool; per classification report the PER_CLASS shortest distinct
    abbreviations (ties: alphabetical), each with its simplest failing configuration"""
    import multiprocessing as mp
    classes = {}      # class -> {abbr: (simplicity rank of cfg, cfg json, detail)}
    counts = {}

    def sampled(it):
        for i, a in enumerate(it):
            if len(clause.samples) < 4 and i % 97 == 50:
                clause.samples.append(a)
            yield a

    global _STOP_EVENT
    _STOP_EVENT = mp.Event()
    with mp.Pool(NPROC) as pool:
        jobs = ((typ, which, seed, c) for c in chunked(sampled(abbrs), chunk))
        for n, hashes, found in pool.imap_unordered(_worker, jobs):
            clause.evaluations += n
            clause.distinct.update(hashes)
            for cls, abbr, cfg, detail in found:
                counts[cls] = counts.get(cls, 0) + 1
                per = classes.setdefault(cls, {})
                cj = json.dumps(cfg, sort_keys=True)
                # simplest configuration: fewest keys, html / css before the other syntaxes, then shortest JSON
                cand = ((len(cfg), cfg.get('syntax') not in ('html', 'css'), len(cj)), cj, detail)
                if abbr not in per or cand < per[abbr]:
                    per[abbr] = cand
            if sum(v for k_, v in counts.items() if k_.startswith('Timeout')) >= 40:
                # every further non-terminating call costs TIMEOUT seconds of CPU: the clause is decided (40 calls that
                # do not return), the remaining cases are not run.  Never taken on a tree where expand() terminates.
                clause.stopped_early = True
                _STOP_EVENT.set()      # workers return at once from now on; no pool.terminate() (it can dead-lock)
    rows = []
    for cls in sorted(classes):
        per = classes[cls]
        for rank, abbr in enumerate(sorted(per, key=lambda x: (len(x), x))[:PER_CLASS]):
            rows.append((rank, cls, abbr, per[abbr][1], per[abbr][2], len(per)))
    rows.sort()          # round robin: the shortest input of every class first
    for rank, cls, abbr, cj, detail, n_abbr in rows:
        args = [abbr, json.loads(cj)]
        what = '%s: expand(%r, %s) %s [this classification: %d failing abbreviations, %d failing (abbreviation, configuration) pairs in this clause]' % (
            cls, abbr, cj, detail, n_abbr, counts[cls])
        clause.violation(json.dumps(args, ensure_ascii=True, sort_keys=True), what, 'bounded.c07:check_expand', args)
    return clause


# ------------------------------------------------------------------------------------------ generators
def strings(alpha, lo, hi):
    for n in range(lo, hi + 1):
        for t in itertools.product(alpha, repeat=n):
            yield ''.join(t)


def prefixes(corpus):
    seen = set()
    for a in corpus:
        for i in range(0, len(a) + 1):
            p = a[:i]
            if p not in seen:
                seen.add(p)
                yield p


def mutations(corpus, alpha):
    """every single-character deletion, replacement (by every character of `alpha`) and insertion (of every
    character of `alpha` at every position) of every corpus entry; duplicates removed"""
    seen = set(corpus)
    for a in corpus:
        for i in range(len(a) + 1):
            cands = [a[:i] + ch + a[i:] for ch in alpha]
            if i < len(a):
                cands.append(a[:i] + a[i + 1:])
                cands.extend(a[:i] + ch + a[i + 1:] for ch in alpha if ch != a[i])
            for m in cands:
                if m not in seen:
                    seen.add(m)
                    yield m


def random_strings(alpha, corpus, seed, n, typ):
    """seeded strings beyond the exhaustive bound: length 5..12 over the mutation alphabet (markup: no two adjacent digits, so
    that repeat counts stay below 10 and no call is slow by design), and splices of two corpus entries"""
    rnd = random.Random('c07-rs-%s-%d' % (typ, seed))
    seen = set()
    while len(seen) < n:
        if rnd.random() < 0.6:
            k = rnd.randint(5, 12)
            s = []
            for _ in range(k):
                ch = rnd.choice(alpha)
                while typ == 'markup' and s and ch.isdigit() and s[-1].isdigit():
                    ch = rnd.choice(alpha)
                s.append(ch)
            s = ''.join(s)
        else:
            a, b = rnd.choice(corpus), rnd.choice(corpus)
            s = a[:rnd.randint(0, len(a))] + rnd.choice(['', '>', '+', '*', '[', '{', '(', ' ']) + b[rnd.randint(0, len(b)):]
        if s not in seen:
            seen.add(s)
            yield s


def foreign_contexts(alpha, fchars, n):
    """every string u + f + v with u, v over `alpha`, len(u) + len(v) <= n, f one foreign character: the foreign
    character at every position of every short string"""
    for total in range(0, n + 1):
        for t in itertools.product(alpha, repeat=total):
            w = ''.join(t)
            for i in range(total + 1):
                for f in fchars:
                    yield w[:i] + f + w[i:]


def foreign_mutations(corpus, fchars, replace):
    """every insertion of one foreign character at every position of every corpus entry (inside and outside of
    quotes, `[...]`, `{...}`, `(...)`, after operators, at both ends); with `replace` also every replacement"""
    seen = set()
    for a in corpus:
        for i in range(len(a) + 1):
            for f in fchars:
                cands = [a[:i] + f + a[i:]]
                if replace and i < len(a):
                    cands.append(a[:i] + f + a[i + 1:])
                for m in cands:
                    if m not in seen:
                        seen.add(m)
                        yield m


def foreign_random(alpha, fchars, corpus, seed, n, typ):
    """the strings of `random_strings` (own seed stream) with one to three foreign characters inserted at random positions"""
    rnd = random.Random('c07-fr-%s-%d' % (typ, seed))
    seen = set()
    for s in random_strings(alpha, corpus, seed + 7919, n, typ):
        for _ in range(rnd.randint(1, 3)):
            i = rnd.randint(0, len(s))
            s = s[:i] + rnd.choice(fchars) + s[i:]
        if s not in seen:
            seen.add(s)
            yield s


# ------------------------------------------------------------------------------------------ run
def run(tier, seed):
    quick = tier == 'quick'
    out = []
    rule = ('an evaluation is one guarded expand() call on one (abbreviation, configuration) pair; distinct counts distinct '
            '(type, abbreviation) strings; violations are grouped by classification <Exception>@<innermost emmet function> '
            'and at most %d shortest inputs per classification are reported' % PER_CLASS)

    def clause(name, gen, bound, typ, which, abbrs, exhaustive, chunk=400):
        c = Clause(name, 'B', gen, bound, rule, exhaustive=exhaustive)
        drive(c, typ, which, abbrs, seed, chunk)
        c.done()
        out.append(c)

    # --- markup, exhaustive small strings
    l_full = 2 if quick else 3
    clause('markup-exhaustive-full', 'all strings over %r' % ALPHA_MARKUP,
           'length <= %d x %d syntaxes x %d option sets (every combination)' % (l_full, len(MARKUP_SYNTAXES), len(MARKUP_POOL)),
           'markup', 'full', strings(ALPHA_MARKUP, 0, l_full), True, chunk=40 if quick else 200)
    l_mid = 3 if quick else 4
    clause('markup-exhaustive-mid', 'all strings over %r' % ALPHA_MARKUP,
           'length %d x %d configurations (10 syntaxes with default options + html x %d option sets + jsx, pug x 6 option sets)'
           % (l_mid, len(configs('markup', 'mid')), len(MARKUP_POOL) - 1),
           'markup', 'mid', strings(ALPHA_MARKUP, l_mid, l_mid), True, chunk=60 if quick else 400)
    l_top = 4 if quick else 5
    clause('markup-exhaustive-long', 'all strings over %r' % ALPHA_MARKUP,
           'length %d x 2 configurations (html defaults; jsx + text list + BEM + comments + context)' % l_top,
           'markup', 'two', strings(ALPHA_MARKUP, l_top, l_top), True, chunk=1500)
    # --- markup, corpus prefixes and mutations
    clause('markup-prefixes', 'every prefix of the %d markup abbreviations of tests + README (bounded/c07_corpus.py)' % len(CORPUS_MARKUP),
           'all prefixes x %s' % ('the mid configuration list (%d)' % len(configs('markup', 'mid')) if quick else 'every syntax x every option set'),
           'markup', 'mid' if quick else 'full', list(prefixes(CORPUS_MARKUP)), True, chunk=30)
    clause('markup-mutations', 'every single-character deletion / replacement / insertion over %r of the %d corpus abbreviations'
           % (ALPHA_MARKUP if quick else MUT_MARKUP, len(CORPUS_MARKUP)),
           'all single-character mutations x %d configurations' % (2 if quick else 4),
           'markup', 'two' if quick else 'core', list(mutations(CORPUS_MARKUP, ALPHA_MARKUP if quick else MUT_MARKUP)), True, chunk=800)
    from emmet.snippets import markup_snippets, xsl_snippets, pug_snippets, stylesheet_snippets
    names = sorted(set(markup_snippets) | set(xsl_snippets) | set(pug_snippets))
    clause('markup-snippet-names', 'every built-in markup snippet name (html, xsl, pug tables of the tree under check)',
           '%d names x %d syntaxes x %d option sets (every combination)' % (len(names), len(MARKUP_SYNTAXES), len(MARKUP_POOL)),
           'markup', 'full', names, True, chunk=8)
    n_rand = 20000 if quick else 300000
    clause('markup-random', 'seeded random strings of length 5..12 over %r and splices of two corpus entries' % MUT_MARKUP,
           '%d strings x 3 of 40 seeded random configurations (syntax, text, options, context, maxRepeat)' % n_rand,
           'markup', 'random:40', list(random_strings(MUT_MARKUP, CORPUS_MARKUP, seed, n_rand, 'markup')), False, chunk=500)
    # --- markup, characters outside the abbreviation alphabet ("for every input string")
    show_fm = FOREIGN_MARKUP.encode('ascii', 'backslashreplace').decode()
    n_ctx = 2 if quick else 3
    clause('markup-foreign-short', 'every string u + f + v: u, v over %r, f one of the %d foreign characters %r (printable ASCII outside '
           'the markup alphabets, control characters, non-ASCII)' % (ALPHA_MARKUP, len(FOREIGN_MARKUP), show_fm),
           'len(u) + len(v) <= %d x 4 configurations (html defaults; jsx + text list + BEM + comments + context; pug + text list; html + text)' % n_ctx,
           'markup', 'core', foreign_contexts(ALPHA_MARKUP, FOREIGN_MARKUP, n_ctx), True, chunk=1500)
    clause('markup-foreign-corpus', 'every insertion%s of one of the %d foreign characters %r at every position of the %d corpus abbreviations'
           % ('' if quick else ' / replacement', len(FOREIGN_MARKUP), show_fm, len(CORPUS_MARKUP)),
           'all such mutations x %d configurations' % (2 if quick else 4),
           'markup', 'two' if quick else 'core', list(foreign_mutations(CORPUS_MARKUP, FOREIGN_MARKUP, not quick)), True, chunk=1500)
    n_frand = 5000 if quick else 80000
    clause('markup-foreign-random', 'seeded random strings (as markup-random, own seed stream) with 1..3 foreign characters inserted at random positions',
           '%d strings x 3 of 40 seeded random configurations' % n_frand,
           'markup', 'random:40', list(foreign_random(MUT_MARKUP, FOREIGN_MARKUP, CORPUS_MARKUP, seed, n_frand, 'markup')), False, chunk=500)
    # --- stylesheet
    clause('stylesheet-exhaustive-full', 'all strings over %r' % ALPHA_STYLE,
           'length <= 3 x %d syntaxes x %d option sets (every combination), per-configuration cache' % (len(STYLE_SYNTAXES), len(STYLE_POOL)),
           'stylesheet', 'full', strings(ALPHA_STYLE, 0, 3), True, chunk=100)
    if quick:
        clause('stylesheet-exhaustive-long', 'all strings over %r' % ALPHA_STYLE,
               'length 4 x 3 configurations (css defaults; scss in value context; stylus with changed stylesheet.* options)',
               'stylesheet', 'core', strings(ALPHA_STYLE, 4, 4), True, chunk=1500)
    else:
        clause('stylesheet-exhaustive-mid', 'all strings over %r' % ALPHA_STYLE,
               'length 4 x %d configurations (6 syntaxes with default options + css x %d option sets)' % (len(configs('stylesheet', 'mid')), len(STYLE_POOL) - 1),
               'stylesheet', 'mid', strings(ALPHA_STYLE, 4, 4), True, chunk=800)
        clause('stylesheet-exhaustive-long', 'all strings over %r' % ALPHA_STYLE,
               'length 5 x 2 configurations (css defaults; scss in value context)',
               'stylesheet', 'two', strings(ALPHA_STYLE, 5, 5), True, chunk=3000)
    clause('stylesheet-nocache', 'all strings over %r' % ALPHA_STYLE,
           'length <= %d x 2 configurations without any cache (css defaults, stylus in value context)' % (1 if quick else 2),
           'stylesheet', 'nocache', strings(ALPHA_STYLE, 0, 1 if quick else 2), True, chunk=2)
    clause('stylesheet-prefixes-mutations', 'every prefix and every single-character deletion / replacement / insertion over %r of the %d '
           'stylesheet abbreviations of tests + README' % (MUT_STYLE, len(CORPUS_STYLESHEET)),
           'all prefixes and mutations x %s' % ('3 configurations' if quick else 'every syntax x every option set'),
           'stylesheet', 'core' if quick else 'full',
           list(prefixes(CORPUS_STYLESHEET)) + [m for m in mutations(CORPUS_STYLESHEET, MUT_STYLE)], True, chunk=400)
    names = sorted(stylesheet_snippets)
    clause('stylesheet-snippet-keys', 'every built-in stylesheet snippet key, alone and followed by `1`, `-a`, `:e` and `!`',
           '%d keys x 5 forms x %d syntaxes x %d option sets (every combination)' % (len(names), len(STYLE_SYNTAXES), len(STYLE_POOL)),
           'stylesheet', 'full', [k + suf for k in names for suf in ('', '1', '-a', ':e', '!')], True, chunk=40)
    n_rand = 15000 if quick else 200000
    clause('stylesheet-random', 'seeded random strings of length 5..12 over %r and splices of two corpus entries' % MUT_STYLE,
           '%d strings x 3 of 40 seeded random configurations (syntax, options, context, snippets)' % n_rand,
           'stylesheet', 'random:40', list(random_strings(MUT_STYLE, CORPUS_STYLESHEET, seed, n_rand, 'stylesheet')), False, chunk=500)
    # --- stylesheet, characters outside the abbreviation alphabet
    show_fs = FOREIGN_STYLE.encode('ascii', 'backslashreplace').decode()
    n_ctx = 1 if quick else 2
    clause('stylesheet-foreign-short', 'every string u + f + v: u, v over %r, f one of the %d foreign characters %r' % (ALPHA_STYLE, len(FOREIGN_STYLE), show_fs),
           'len(u) + len(v) <= %d x %d syntaxes x %d option sets (every combination), per-configuration cache' % (n_ctx, len(STYLE_SYNTAXES), len(STYLE_POOL)),
           'stylesheet', 'full', foreign_contexts(ALPHA_STYLE, FOREIGN_STYLE, n_ctx), True, chunk=100)
    clause('stylesheet-foreign-corpus', 'every insertion%s of one of the %d foreign characters %r at every position of the %d corpus abbreviations'
           % ('' if quick else ' / replacement', len(FOREIGN_STYLE), show_fs, len(CORPUS_STYLESHEET)),
           'all such mutations x %s' % ('3 configurations' if quick else 'every syntax x every option set'),
           'stylesheet', 'core' if quick else 'full', list(foreign_mutations(CORPUS_STYLESHEET, FOREIGN_STYLE, not quick)), True, chunk=800)
    clause('stylesheet-foreign-random', 'seeded random strings (as stylesheet-random, own seed stream) with 1..3 foreign characters inserted at random positions',
           '%d strings x 3 of 40 seeded random configurations' % n_frand,
           'stylesheet', 'random:40', list(foreign_random(MUT_STYLE, FOREIGN_STYLE, CORPUS_STYLESHEET, seed, n_frand, 'stylesheet')), False, chunk=500)
    return out
