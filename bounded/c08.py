"""C08 bounded stand-in: expansion is a pure function of its arguments.

Oracles (each from one sentence of the statement of C08):

* `check_history(steps, probe)` -- "equal arguments give equal results whatever calls came before, with or
  without a shared `cache`, and in particular a cache never changes any result" and "a configuration object
  supplied by the caller keeps producing the same results after any call, including calls that raised":
  the history `steps` is executed (outcomes ignored, every exception swallowed), then the probe call is made in the
  same process; its outcome must equal the outcome of the *same abbreviation with an equal, freshly built
  configuration and no cache* in a **fresh interpreter process** (one new `python` process per distinct probe, see
  `reference()`; memoised per worker, pre-computed by `run()` before the pool forks).
  An outcome is `['ok', <returned value>]` or `['err', <exception type name>, <.pos>]`.
  Only *results* are compared: the statement does not say that the caller's dict is left bit-identical (the
  current code adds a `'text': None` key to it), so the dict itself is not compared.

* `check_retention(steps, repeats)` -- "the library keeps no per-call data alive after a call returns": the steps
  are executed twice (warm-up: lazily initialised tables and memo entries keyed by the arguments may appear), a
  snapshot is taken, the *same* steps are executed `repeats` more times, a second snapshot is taken.  Nothing may
  have grown: (a) the deep element count of every module-level container, of every container in a function's
  `__defaults__` / `__kwdefaults__` / closure cells and of every class-level container in all `emmet.*` modules
  (walk over sys.modules); (b) after `gc.collect()`, the number of live instances of every class defined in an
  `emmet.*` module.  Objects the *caller* holds (shared config dicts, `Config` objects, cache dicts) stay alive
  across the repetitions, so whatever they legitimately keep is in both snapshots.

Round 2: markup histories that share a `cache` dict (clause markup-shared-cache) and histories in which a call raises inside
*nested* snippet resolution (clause raise-inside-resolution, complete over the alias chains of the built-in html table);
every expand call of a history runs under a CPU-time alarm and a memory cap (see `_outcome`, `_limit_memory`).

Round 3: the option dimension of the quantifier ("with differing options"): clause markup-option-switch (the same element names
under configurations that differ in `inlineElements` / any other markup option / context / syntax) and clause snippet-value-units
(user stylesheet snippets whose default values carry units, under differing `unitAliases` / unit options, through one cache). Pools
and generators: c08_opts.py. Their > 1 400 distinct probes get their reference from `reference_batch` (one process per probe, forked
from an interpreter that has only imported the library) instead of one `python` start each.

Round 4: the `context` element of the configuration and caller dicts that are *edited in place* between calls (clause
context-switch; pools in c08_ctx.py; step kinds 'update' / 'update+Config'), and callers whose user stylesheet *snippet tables*
differ, each with a cache of its own or none (clause snippet-table-switch; tables built for every built-in property family in
c08_tables.py). `check_probes(steps, probes)` = check_history with several probe calls after one history.

Round 5: stylesheet abbreviations that call a *keyword function with explicit arguments* (`trf-s(2, 3)`, `gtc:repeat(3, 1fr)`) and
later calls that use the same function with fewer / no arguments or the bare snippet, through one cache / one caller object (clause
function-arguments; functions read from the raw css table + user tables, generators in c08_funcs.py).

A step is a JSON dict {'abbr', 'cfg' (plain config dict without cache), 'how': 'fresh' | 'dict' | 'Config' | 'update' |
'update+Config', 'obj': id of the shared caller object (for how != 'fresh'), 'cache': id of a shared cache dict or None}.
'dict' / 'Config': one object built once from `cfg` and used unchanged by all steps with that id; 'update': one dict per id
that the caller edits in place until it equals this step's `cfg` before the call (nested dicts keep their identity),
'update+Config': the same, passed as Config(dict) built for this call.

Deliberately excluded (and why): `lorem*` abbreviations (random by design -- the one sanctioned non-determinism);
`output.field` / `output.text` callbacks (caller code); a cache dict shared between configurations whose
*snippet tables* differ (the statement speaks of differing options; whether a cache may outlive a change of the
snippet table is not stated -- switch on with CHECK_CACHE_ACROSS_SNIPPET_TABLES to see today's behaviour).
"""
import json
import random
import subprocess
import sys

from .common import Clause, run_parallel, REPO
from . import c08_opts, c08_ctx, c08_tables, c08_funcs

CHECK_CACHE_ACROSS_SNIPPET_TABLES = False

# ------------------------------------------------------------------------------------------------ pools
SN_CSS = {'mten': 'margin:10', 'gp': 'gap:1.5 2', 'bxsh': 'box-shadow: var(--bxsh-${1})', 'zz': 'z-index:5|auto'}
# 'x' is a deliberately malformed user snippet: resolving it raises the parser's own TokenScannerException from inside
# snippet resolution (i.e. between the removal and the restoration of `text` in markup.parse)
SN_MK = {'x': 'a["', 'foo': '.foo[bar=baz]', 'link': 'link[foo=bar href]/', 'rep': 'div>ul>li{Hi}*2'}
# second tables with the same names (same size) but other definitions: a hidden memo with too weak a key would mix them up
SN_CSS2 = {'mten': 'margin:20', 'gp': 'gap:3', 'bxsh': 'box-shadow:none', 'zz': 'z-index:7'}
SN_MK2 = {'x': 'b', 'foo': 'i.bar', 'link': 'link[x]', 'rep': 'p*2'}
# malformed user definitions of names that built-in aliases go *through* (input:* -> inp, link:* -> link, meta:edge ->
# meta:compat -> meta, src:mt -> source:media -> source): the parser's error is raised inside nested snippet resolution
SN_BAD = {'inp': "input[name='${1}]", 'link': 'link[a="]', 'meta': 'meta["', 'source': "source['"}


def _m(**kw):
    d = {'type': 'markup', 'syntax': 'html'}
    d.update(kw)
    return d


def _s(**kw):
    d = {'type': 'stylesheet', 'syntax': 'css'}
    d.update(kw)
    return d


MK_CFGS = [
    _m(),
    _m(text='foo'),
    _m(text=['l1', 'l2']),
    _m(options={'bem.enabled': True}),
    _m(options={'bem.enabled': True}, context={'name': 'div', 'attributes': {'class': 'bl'}}, text='http://emmet.io'),
    _m(syntax='jsx', options={'comment.enabled': True}),
    _m(syntax='pug', text=['p1', 'p2']),
    _m(syntax='xsl'),
    _m(text='foo', snippets=SN_MK),
    _m(text=['x1', 'x2'], snippets=SN_MK, options={'output.reverseAttributes': True, 'output.selfClosingStyle': 'xhtml'}),
    _m(syntax='slim', variables={'charset': 'ru-RU', 'lang': 'ru'}),
    _m(snippets=SN_MK2),
    _m(snippets=SN_BAD),
]
# probes of the markup x markup block of independent-calls (a subset of MK_ABBRS)
MK_PROBES = ['ul>li.item$*2', 'a', 'x', 'foo[a=b]', 'link:css', 'input:email', 'meta:edge', 'src:mt>b', 'label>input',
             'div.b>div.-e_m.c']
# markup abbreviations over snippet-backed elements for the shared-cache histories: decorated (children, attributes,
# text, repeaters) and bare forms of the same aliases
MKC_ABBRS = ['doc>p', 'doc', 'a.x', 'a', 'a{t}', 'a[href=u title]>b', 'ul>li*2>a.k', 'link:css', 'link:css[media=print]',
             'input:email#i', 'input:email', 'inp', '!', '!>p', 'img.k/', 'img', 'ri:a>b', 'ri:a', 'btn:s{go}', 'btn:s',
             'tarea:c>{x}', 'c{y}', 'x>p', 'foo']
MKC_CFGS = [0, 3, 5, 6, 9, 11]      # indices into MK_CFGS: html, BEM, jsx + comments, pug + text, user table + reverse, 2nd user table
MK_ABBRS = ['ul>li.item$*2', 'a', 'ul>li*', 'div.b>div.-e_m.c', 'x', 'foo[a=b]', 'link:css', 'a)', 'a[b="c', 'label>input',
            'img[src="$#"]*', 'xsl:variable[name=a select=b]>x', '!', 'x>p', '[charset=${charset}]{${lang}}', 'rep+img/', '',
            'input:email', 'meta:edge', 'src:mt>b']
ST_CFGS = [
    _s(),
    _s(options={'stylesheet.intUnit': 'pt', 'stylesheet.floatUnit': 'rem'}),
    _s(options={'stylesheet.unitless': [], 'stylesheet.intUnit': 'q'}),
    _s(options={'stylesheet.unitAliases': {'e': 'ex', 'p': 'pc'}, 'stylesheet.shortHex': False}),
    _s(syntax='stylus', options={'stylesheet.json': True}),
    _s(context={'name': 'align-content'}),
    _s(syntax='scss', context={'name': '@@section'}),
    _s(snippets=SN_CSS),
    _s(snippets=SN_CSS, options={'stylesheet.intUnit': 'pt', 'stylesheet.floatUnit': 'rem', 'stylesheet.unitless': []}),
    _s(snippets=SN_CSS, syntax='sass', options={'stylesheet.unitAliases': {'e': 'ex'}, 'stylesheet.fuzzySearchMinScore': 0.3}),
]
ST_ABBRS = ['p10', 'm10-20', 'm1.5e', 'zom', 'mten', 'gp', 'zz', 'c#f.5', 'bgc', 'pos:a!', 's', 'lg(top, red)', 'a)', '(',
            'bd1-s#f+fw:b', 'bxsh', 'trf:r', '@k', 'p10p+m5e']


def _snippets_key(cfg):
    return json.dumps(cfg.get('snippets'), sort_keys=True)


def _step(abbr, cfg, how='fresh', obj=None, cache=None):
    return {'abbr': abbr, 'cfg': cfg, 'how': how, 'obj': obj, 'cache': cache}


# ------------------------------------------------------------------------------------------------ execution
def _fresh(x):
    return json.loads(json.dumps(x))


TIMEOUT = 5.0          # seconds of CPU time per expand() call in a history


_TIMEOUTS = [0]
_LIMITED = []


def _limit_memory():
    """once per process: cap the data segment at 3 GB (a regular run needs < 100 MB per worker). On a tree where a corrupted
    shared object makes expansions grow exponentially, a call can allocate gigabytes before the CPU-time alarm fires; with the
    cap it gets a MemoryError instead (reported like any other difference) and the machine is not driven into swap"""
    if not _LIMITED:
        import resource
        _LIMITED.append(True)
        try:
            soft, hard = resource.getrlimit(resource.RLIMIT_DATA)
            cap = 3 << 30
            if hard != resource.RLIM_INFINITY:
                cap = min(cap, hard)
            resource.setrlimit(resource.RLIMIT_DATA, (cap, hard))
        except (ValueError, OSError):
            pass



class _Timeout(BaseException):
    pass


def _alarm(signum, frame):
    raise _Timeout()


def _outcome(abbr, target):
    """['ok', result] | ['err', type, pos] | ['timeout'] (no result after TIMEOUT s of CPU time: a corrupted shared object can
    make an expansion grow without bound; the reference never times out, so this is reported as a difference)"""
    import signal
    from emmet import expand
    _limit_memory()
    old = signal.signal(signal.SIGVTALRM, _alarm)
    # after 3 time-outs in this process the alarm drops to 0.3 s (still > 20x the slowest regular call): a tree on which
    # expansions blow up must not stall the whole run
    signal.setitimer(signal.ITIMER_VIRTUAL, TIMEOUT if _TIMEOUTS[0] < 3 else 0.3)
    try:
        try:
            return ['ok', expand(abbr, target)]
        finally:
            signal.setitimer(signal.ITIMER_VIRTUAL, 0)
            signal.signal(signal.SIGVTALRM, old)
    except _Timeout:
        _TIMEOUTS[0] += 1
        return ['timeout', 'no result after %.0f s of CPU time' % TIMEOUT]
    except Exception as e:
        return ['err', type(e).__name__, getattr(e, 'pos', None)]


def _run_step(step, objs, caches):
    from emmet import Config
    cid = step.get('cache')
    how = step.get('how') or 'fresh'
    if how == 'fresh':
        cfg = _fresh(step['cfg'])
        if cid is not None:
            cfg['cache'] = caches.setdefault(cid, {})
        target = cfg
    elif how in ('update', 'update+Config'):
        # round 4: ONE caller-owned dict per `obj` id that the caller edits in place between its calls until it equals
        # step['cfg'] (nested dicts such as `context` / `context.attributes` / `options` keep their identity); the call is made
        # with that dict ('update') or with a Config built from it for this call ('update+Config')
        key = step['obj']
        if key not in objs:
            objs[key] = ('*', {})
        if objs[key][0] != '*':
            raise ValueError('generator bug: shared object %r used both as a fixed and as an updated object' % (key,))
        target = objs[key][1]
        target.pop('cache', None)
        _update_in_place(target, step['cfg'])
        if cid is not None:
            target['cache'] = caches.setdefault(cid, {})
        if how == 'update+Config':
            target = Config(target)
    else:
        key = step['obj']
        sig = json.dumps([step['cfg'], how, cid], sort_keys=True)
        if key not in objs:
            cfg = _fresh(step['cfg'])
            if cid is not None:
                cfg['cache'] = caches.setdefault(cid, {})
            objs[key] = (sig, Config(cfg) if how == 'Config' else cfg)
        if objs[key][0] != sig:
            raise ValueError('generator bug: shared object %r used with two different specifications' % (key,))
        target = objs[key][1]
    return _outcome(step['abbr'], target)


def _update_in_place(dst, src):
    """the caller's edit: afterwards dst == src; dicts that exist on both sides are edited, not replaced (so they keep their
    identity), everything else is assigned as a new copy; keys the library may have added (`text`) and that src lacks go"""
    for k in list(dst):
        if k not in src:
            del dst[k]
    for k, v in src.items():
        if isinstance(v, dict) and isinstance(dst.get(k), dict):
            _update_in_place(dst[k], v)
        else:
            dst[k] = _fresh(v)


_REF_SCRIPT = r'''
import sys, json
sys.path.insert(0, sys.argv[1])
abbr, cfg = json.loads(sys.stdin.read())
from emmet import expand
try:
    out = ['ok', expand(abbr, cfg)]
except Exception as e:
    out = ['err', type(e).__name__, getattr(e, 'pos', None)]
sys.stdout.write(json.dumps(out))
'''
_REF = {}


def reference(abbr, cfg):
    """outcome of expand(abbr, cfg) as the first and only expand call of a new interpreter process"""
    k = json.dumps([abbr, cfg], sort_keys=True)
    if k not in _REF:
        p = subprocess.run([sys.executable, '-c', _REF_SCRIPT, REPO], input=json.dumps([abbr, cfg]), capture_output=True,
                           text=True, timeout=120)
        if p.returncode != 0 or not p.stdout:
            raise RuntimeError('reference interpreter failed for %s: %s' % (k, p.stderr[-400:]))
        _REF[k] = json.loads(p.stdout)
    return _REF[k]


_REF_BATCH_SCRIPT = r'''
import sys, json, os
sys.path.insert(0, sys.argv[1])
probes = json.loads(sys.stdin.read())
from emmet import expand          # the only library code this process ever runs itself
out = []
for abbr, cfg in probes:
    r, w = os.pipe()
    pid = os.fork()
    if pid == 0:
        # child: a copy of an interpreter that has imported the library and made no call
        code = 1
        try:
            os.close(r)
            try:
                res = ['ok', expand(abbr, cfg)]
            except Exception as e:
                res = ['err', type(e).__name__, getattr(e, 'pos', None)]
            with os.fdopen(w, 'w') as f:
                f.write(json.dumps(res))
            code = 0
        finally:
            os._exit(code)
    os.close(w)
    with os.fdopen(r) as f:
        data = f.read()
    _, status = os.waitpid(pid, 0)
    out.append(json.loads(data) if data and status == 0 else None)
sys.stdout.write(json.dumps(out))
'''


def reference_batch(probes):
    """fill _REF for a list of (abbr, cfg): one helper interpreter imports the library (exactly what the script of
    `reference()` does before its call) and then forks one child per probe; the child makes the probe call as the first
    and only expand call of its process and exits.  The state in which the call is made is that of a fresh interpreter
    after `from emmet import expand`; nothing a probe does can reach another probe.  About 100x cheaper than one
    `python` start per probe, which is what makes option / snippet pools with > 1 000 distinct probes affordable.  A probe
    whose child did not deliver falls back to `reference()`."""
    todo = [(a, c) for a, c in probes if json.dumps([a, c], sort_keys=True) not in _REF]
    if not todo:
        return
    p = subprocess.run([sys.executable, '-c', _REF_BATCH_SCRIPT, REPO], input=json.dumps(todo), capture_output=True, text=True,
                       timeout=600)
    res = json.loads(p.stdout) if p.returncode == 0 and p.stdout else [None] * len(todo)
    for (a, c), r in zip(todo, res):
        if r is None:
            reference(a, c)
        else:
            _REF[json.dumps([a, c], sort_keys=True)] = r


def _describe(s):
    how = s.get('how') or 'fresh'
    if how == 'fresh':
        sharing = ''
    elif how == 'update':
        sharing = ' = caller dict #%s edited in place to this value' % s['obj']
    elif how == 'update+Config':
        sharing = ' = Config(caller dict #%s edited in place to this value)' % s['obj']
    else:
        sharing = ' as shared %s #%s' % (how, s['obj'])
    return 'expand(%r, %s%s%s)' % (s['abbr'], json.dumps(s['cfg'], sort_keys=True), sharing,
                                   '' if s.get('cache') is None else ' + shared cache #%s' % s['cache'])


def check_history(steps, probe):
    objs, caches = {}, {}
    for s in steps:
        _run_step(s, objs, caches)
    got = json.loads(json.dumps(_run_step(probe, objs, caches), default=repr))
    want = reference(probe['abbr'], probe['cfg'])
    if got != want:
        hist = '; '.join(_describe(s) for s in steps + [probe])
        return 'after the history [%s] the last call gave %r, but the same call in a fresh interpreter gives %r' % (hist, got, want)
    return None


def check_probes(steps, probes):
    """round 4: one history, then several probe calls one after the other; every probe outcome must equal the outcome of the
    same call in a fresh interpreter (for probe i the history is `steps` + the probes before it, which is again a sequence of
    expand calls). Lets many probes share the cost of one history (one snippet conversion is 7 ms)."""
    objs, caches = {}, {}
    for s in steps:
        _run_step(s, objs, caches)
    bad = []
    for i, p in enumerate(probes):
        got = json.loads(json.dumps(_run_step(p, objs, caches), default=repr))
        want = reference(p['abbr'], p['cfg'])
        if got != want:
            bad.append('probe %d %s gave %r, but the same call in a fresh interpreter gives %r' % (i + 1, _describe(p), got, want))
    if bad:
        return 'after the history [%s] followed by the probes [%s]: %s%s' % (
            '; '.join(_describe(s) for s in steps), '; '.join('%r' % p['abbr'] for p in probes), ' | '.join(bad[:3]),
            '' if len(bad) <= 3 else ' | ... %d probes differ' % len(bad))
    return None


# ------------------------------------------------------------------------------------------------ retention
def _deep(o, seen, depth=0):
    import collections
    if id(o) in seen or depth > 6:
        return 0
    if isinstance(o, dict):
        seen.add(id(o))
        return len(o) + sum(_deep(v, seen, depth + 1) for v in list(o.values())) \
            + sum(_deep(k, seen, depth + 1) for k in list(o.keys()) if isinstance(k, tuple))
    if isinstance(o, (list, set, frozenset, tuple, collections.deque)):
        seen.add(id(o))
        return len(o) + sum(_deep(v, seen, depth + 1) for v in list(o))
    return 0


def _is_container(o):
    import collections
    return isinstance(o, (dict, list, set, collections.deque, bytearray))


def _function_containers(label, f, out, seen):
    for i, d in enumerate(f.__defaults__ or ()):
        if _is_container(d):
            out['%s.__defaults__[%d]' % (label, i)] = _deep(d, seen)
    for k, d in (f.__kwdefaults__ or {}).items():
        if _is_container(d):
            out['%s.__kwdefaults__[%s]' % (label, k)] = _deep(d, seen)
    for i, c in enumerate(f.__closure__ or ()):
        try:
            d = c.cell_contents
        except ValueError:
            continue
        if _is_container(d):
            out['%s.__closure__[%d]' % (label, i)] = _deep(d, seen)


def snapshot():
    """{label: size}: containers reachable from emmet.* module globals / function defaults / class attributes, and
    live instance counts of emmet classes"""
    import gc
    import types
    out = {}
    mods = [(n, m) for n, m in sorted(sys.modules.items()) if m is not None and (n == 'emmet' or n.startswith('emmet.'))]
    for n, m in mods:
        seen = set()
        for name, val in list(vars(m).items()):
            if name.startswith('__'):
                continue
            label = '%s.%s' % (n, name)
            if _is_container(val):
                out[label] = _deep(val, seen)
            elif isinstance(val, types.FunctionType) and val.__module__ == n:
                _function_containers(label, val, out, seen)
            elif isinstance(val, type) and val.__module__ == n:
                for an, av in list(vars(val).items()):
                    if an.startswith('__') and an != '__init__':
                        continue
                    if _is_container(av):
                        out['%s.%s' % (label, an)] = _deep(av, seen)
                    elif isinstance(av, types.FunctionType):
                        _function_containers('%s.%s' % (label, an), av, out, seen)
    gc.collect()
    for o in gc.get_objects():
        t = type(o)
        tm = getattr(t, '__module__', '') or ''
        if tm == 'emmet' or tm.startswith('emmet.'):
            k = 'live instances of %s.%s' % (tm, t.__name__)
            out[k] = out.get(k, 0) + 1
    return out


_FROZEN = []


def check_retention(steps, repeats):
    if not _FROZEN:
        # once per process: park everything that exists already (e.g. the case lists a forked worker inherits from its
        # parent) in the permanent generation, so that gc.collect() / gc.get_objects() only look at younger objects
        import gc
        gc.collect()
        gc.freeze()
        _FROZEN.append(True)
    objs, caches = {}, {}
    hist = '; '.join(_describe(s) for s in steps)

    def blown(o, rnd):
        # a repetition of calls that returned before does not return any more (or exhausts memory): whatever was kept from the
        # earlier calls has grown without bound; the huge structures are dropped right away instead of being measured
        if o[0] == 'timeout' or (o[0] == 'err' and o[1] == 'MemoryError'):
            return 'repeating the calls [%s] (shared objects / caches kept by the caller): in round %d a call gave %r' % (hist, rnd, o)

    first = []
    for rnd in range(2):
        for i, s in enumerate(steps):
            o = _run_step(s, objs, caches)
            if rnd == 0:
                first.append(o)
            elif blown(o, rnd + 1) and not blown(first[i], 1):
                return blown(o, rnd + 1)
    a = snapshot()
    for rnd in range(repeats):
        for i, s in enumerate(steps):
            o = _run_step(s, objs, caches)
            if blown(o, rnd + 3) and not blown(first[i], 1):
                return blown(o, rnd + 3)
    b = snapshot()
    grown = ['%s: %d -> %d' % (k, a.get(k, 0), v) for k, v in sorted(b.items()) if v > a.get(k, 0)]
    if grown:
        return 'repeating the calls [%s] %d more times (results dropped, gc.collect()) made library-held data grow: %s' % (
            hist, repeats, ', '.join(grown[:8]))
    return None


# ------------------------------------------------------------------------------------------------ generators
def gen_shared_cache():
    """stylesheet: one call, then a probe through the same cache dict; every ordered pair of configurations with the same
    snippet table x abbreviation pairs"""
    for ca in ST_CFGS:
        for cb in ST_CFGS:
            if not CHECK_CACHE_ACROSS_SNIPPET_TABLES and _snippets_key(ca) != _snippets_key(cb):
                continue
            for a1 in ST_ABBRS:
                for a2 in ST_ABBRS:
                    # keep the product affordable: the probe abbreviation is the same, or one of four numeric ones
                    if a2 == a1 or a2 in ('p10', 'mten', 'zom', 'gp'):
                        yield [_step(a1, ca, cache=0)], _step(a2, cb, cache=0)


def gen_shared_object():
    """a caller-owned dict / Config object used for one call (succeeding or raising) and then for the probe"""
    for cfgs, abbrs, cache in ((MK_CFGS, MK_ABBRS, None), (ST_CFGS, ST_ABBRS, 0)):
        for ci, c in enumerate(cfgs):
            for how in ('dict', 'Config'):
                for a1 in abbrs:
                    for a2 in abbrs:
                        # stylesheet objects (7 ms per first call): 8 probe abbreviations instead of all
                        if cache is None or a2 in ('p10', 'mten', 'zom', 'gp', 'c#f.5', 's', 'a)', 'bxsh'):
                            yield [_step(a1, c, how, obj=0, cache=cache)], _step(a2, c, how, obj=0, cache=cache)
    # stylesheet object without any cache: only a few (7 ms per call)
    for c in (ST_CFGS[0], ST_CFGS[8]):
        for a1 in ('p10', 'mten', 'a)', 'zom'):
            for a2 in ('p10', 'mten', 'gp'):
                yield [_step(a1, c, 'dict', obj=0)], _step(a2, c, 'dict', obj=0)


def gen_independent():
    """no shared argument at all (fresh dicts, no cache): only module-level state could link the calls"""
    for c1 in MK_CFGS:
        for a1 in MK_ABBRS:
            for c2 in (MK_CFGS[i] for i in (0, 1, 3, 8, 11, 12)):
                for a2 in MK_PROBES:
                    yield [_step(a1, c1)], _step(a2, c2)
    # stylesheet call first, markup probe; markup call first, stylesheet probe (probe via a fresh private cache: fast path)
    for c1 in ST_CFGS:
        for a1 in ST_ABBRS[:10]:
            yield [_step(a1, c1, cache=0)], _step('ul>li.item$*2', MK_CFGS[0])
            yield [_step(a1, c1, cache=0)], _step('a', MK_CFGS[1])
    for c1 in MK_CFGS:
        for a1 in MK_ABBRS:
            yield [_step(a1, c1)], _step('p10+mten', ST_CFGS[7])
    # stylesheet -> stylesheet without any cache (7 ms per call): default table, the user table, a second user table with
    # the same names, the user table with other options
    nc = [ST_CFGS[0], ST_CFGS[7], _s(snippets=SN_CSS2), ST_CFGS[8]]
    for c1 in nc:
        for c2 in nc:
            for a1 in ('mten', 'gp', 'p10', 'zz'):
                for a2 in ('mten', 'gp', 'p10', 'zz'):
                    yield [_step(a1, c1)], _step(a2, c2)


def gen_markup_cache():
    """markup: a call and then a probe that share a `cache` dict (as two fresh dicts, as one dict, as one Config): every
    ordered pair of the snippet-backed abbreviations, same configuration"""
    for ci in MKC_CFGS:
        c = MK_CFGS[ci]
        for a1 in MKC_ABBRS:
            for a2 in MKC_ABBRS:
                yield [_step(a1, c, cache=0)], _step(a2, c, cache=0)
                yield [_step(a1, c, 'dict', obj=0, cache=0)], _step(a2, c, 'dict', obj=0, cache=0)
                yield [_step(a1, c, 'Config', obj=0, cache=0)], _step(a2, c, 'Config', obj=0, cache=0)
    # the same cache used by a stylesheet call in between / before
    for a1 in MKC_ABBRS:
        yield [_step('p10', ST_CFGS[0], cache=0), _step(a1, MK_CFGS[0], cache=0)], _step('p10+zom', ST_CFGS[0], cache=0)
        yield [_step(a1, MK_CFGS[0], cache=0), _step('m10', ST_CFGS[0], cache=0)], _step(a1.split('>')[0].split('.')[0], MK_CFGS[0], cache=0)


def builtin_chains():
    """[(name, [names of other built-in html snippets reachable from its definition])] from the raw html table (own analysis
    of the definition texts)"""
    import re
    from emmet.snippets.html import snippets as raw
    table = {}
    for k, v in raw.items():
        for part in k.split('|'):
            table[part] = v

    def refs(defn):
        flat = re.sub(r'\[[^\]]*\]|\{[^}]*\}', '', defn)
        out = set()
        for tok in re.split(r'[>+^()]', flat):
            m = re.match(r'[A-Za-z!][\w:!-]*', tok.strip())
            if m and m.group(0) in table:
                out.add(m.group(0))
        return out

    res = []
    for n in sorted(table):
        seen, todo = set(), [n]
        while todo:
            for r in sorted(refs(table[todo.pop()])):
                if r != n and r not in seen:
                    seen.add(r)
                    todo.append(r)
        if seen:
            res.append((n, sorted(seen)))
    return res


def gen_nested_raise():
    """a call that raises *inside nested snippet resolution* -- built-in alias N whose definition goes through another
    built-in name K, with K redefined by a malformed user snippet -- then probes of N, of K and of every other name on
    N's chains with a default configuration (fresh dict); also through one shared cache / one Config for the raising call"""
    html = MK_CFGS[0]
    for n, reach in builtin_chains():
        for k in reach:
            bad = _m(snippets={k: 'zz["'})
            for probe in [n] + reach:
                yield [_step(n, bad)], _step(probe, html)
            yield [_step(n + '>b', bad, 'Config', obj=0), _step(n, bad, 'Config', obj=0)], _step(n + '.k', html)


def _markup_cache_id(cfg):
    # one markup cache per markup snippet table (ids 20..), like the stylesheet caches
    return 20 + sorted({_snippets_key(c) for c in MK_CFGS}).index(_snippets_key(cfg))


def _random_step(rnd, shared, allow_nocache_css=False):
    """a random step; `shared` = list of (cfg, how, obj id, cache id) objects of this history"""
    if shared and rnd.random() < 0.55:
        cfg, how, oid, cid = rnd.choice(shared)
        abbrs = MK_ABBRS + MKC_ABBRS if cfg['type'] == 'markup' else ST_ABBRS
        return _step(rnd.choice(abbrs), cfg, how, oid, cid)
    if rnd.random() < 0.5:
        cfg = rnd.choice(MK_CFGS)
        cid = _markup_cache_id(cfg) if rnd.random() < 0.5 else None
        return _step(rnd.choice(MK_ABBRS + MKC_ABBRS), cfg, cache=cid)
    cfg = rnd.choice(ST_CFGS)
    sk = _snippets_key(cfg)
    # one cache per snippet table (ids 1..): shared by every stylesheet step of this history with that table
    cid = None if (allow_nocache_css and rnd.random() < 0.1) else 1 + sorted({_snippets_key(c) for c in ST_CFGS}).index(sk)
    if CHECK_CACHE_ACROSS_SNIPPET_TABLES and cid is not None:
        cid = 1
    return _step(rnd.choice(ST_ABBRS), cfg, cache=cid)


def gen_random(seed, n, lo=2, hi=4):
    rnd = random.Random('c08-%d' % seed)
    tables = sorted({_snippets_key(c) for c in ST_CFGS})
    for _ in range(n):
        shared = []
        for oid in range(rnd.randint(0, 2)):
            if rnd.random() < 0.5:
                cfg = rnd.choice(MK_CFGS)
                shared.append((cfg, rnd.choice(['dict', 'Config']), oid, _markup_cache_id(cfg) if rnd.random() < 0.5 else None))
            else:
                cfg = rnd.choice(ST_CFGS)
                cid = 1 if CHECK_CACHE_ACROSS_SNIPPET_TABLES else 1 + tables.index(_snippets_key(cfg))
                shared.append((cfg, rnd.choice(['dict', 'Config']), oid, cid))
        steps = [_random_step(rnd, shared, True) for _ in range(rnd.randint(lo, hi))]
        yield steps, _random_step(rnd, shared)


def gen_retention(seed, n_random):
    for cfgs, abbrs in ((MK_CFGS, MK_ABBRS), (ST_CFGS, ST_ABBRS)):
        for c in cfgs:
            for a in abbrs:
                if c['type'] == 'markup':
                    yield [_step(a, c)], 3
                    yield [_step(a, c, 'Config', obj=0)], 3
                else:
                    yield [_step(a, c, cache=0)], 3
                    yield [_step(a, c, 'Config', obj=0, cache=0)], 3
    for a in MKC_ABBRS:
        yield [_step(a, MK_CFGS[0], cache=0)], 3
        yield [_step(a, MK_CFGS[9], 'Config', obj=0, cache=0)], 3
    yield [_step('p10', ST_CFGS[0])], 2
    yield [_step('mten', ST_CFGS[8], 'dict', obj=0)], 2
    for steps, probe in gen_random(seed + 1000, n_random):
        yield steps + [probe], 2


def _precompute(cases_lists, forked=False):
    """fill _REF in the parent (one fresh interpreter per distinct probe, run concurrently; forked=True: `reference_batch`) so
    that forked workers inherit it"""
    from concurrent.futures import ThreadPoolExecutor
    probes = {}
    for cases in cases_lists:
        for steps, probe in cases:
            probes[json.dumps([probe['abbr'], probe['cfg']], sort_keys=True)] = (probe['abbr'], probe['cfg'])
    todo = [v for k, v in sorted(probes.items()) if k not in _REF]
    with ThreadPoolExecutor(14) as ex:
        if forked:
            list(ex.map(reference_batch, [todo[i::14] for i in range(14)]))
        else:
            list(ex.map(lambda ac: reference(ac[0], ac[1]), todo))
    return len(probes)


def run(tier, seed):
    quick = tier == 'quick'
    g_cache = list(gen_shared_cache())
    g_obj = list(gen_shared_object())
    g_ind = list(gen_independent())
    g_rnd = list(gen_random(seed, 4000 if quick else 60000))
    g_mkc = list(gen_markup_cache())
    g_nest = list(gen_nested_raise())
    n_probes = _precompute([g_cache, g_obj, g_ind, g_rnd, g_mkc, g_nest])
    rule_h = ('a case is one history (list of expand calls with their configurations and sharing) plus one probe call; the '
              'probe outcome is compared with the same call in a fresh interpreter process (%d distinct probes, one new '
              'process each); distinct by the JSON of history + probe' % n_probes)
    out = []
    c = Clause('shared-cache', 'B', 'stylesheet call then stylesheet probe through one shared cache dict; every ordered pair of the %d '
               'pool configurations with equal snippet tables x (%d abbreviations x {same, p10, mten, zom, gp})' % (len(ST_CFGS), len(ST_ABBRS)),
               'histories of exactly 1 call + probe over the fixed pools', rule_h, exhaustive=True)
    run_parallel(c, 'bounded.c08', 'check_history', g_cache, chunk=60)
    out.append(c.done())
    c = Clause('markup-shared-cache', 'B', 'markup call then markup probe sharing one `cache` dict (two fresh dicts / one dict / one Config): every ordered '
               'pair of %d snippet-backed abbreviations (decorated and bare forms of the same aliases) x %d pool configurations; + the cache also '
               'used by stylesheet calls' % (len(MKC_ABBRS), len(MKC_CFGS)), 'histories of 1 call + probe (2 + probe with stylesheet calls) over the fixed pools',
               rule_h, exhaustive=True)
    run_parallel(c, 'bounded.c08', 'check_history', g_mkc, chunk=200)
    out.append(c.done())
    c = Clause('raise-inside-resolution', 'B', 'every built-in html alias N whose definition reaches another built-in name K (own analysis of the raw '
               'table): expand(N) with K redefined by a malformed user snippet (raises inside nested resolution), then a default-config probe of N, '
               'of K and of every other name on N\'s chains; + the raising call through a shared Config',
               'complete over the (N, K) pairs of the built-in html table: %d histories' % len(g_nest), rule_h, exhaustive=True)
    run_parallel(c, 'bounded.c08', 'check_history', g_nest, chunk=100)
    out.append(c.done())
    c = Clause('shared-config-object', 'B', 'one caller-owned dict or Config object (every pool configuration; stylesheet ones carry a cache, '
               'plus 24 cases without) used for a first call and then for the probe: every ordered pair of pool abbreviations (stylesheet: every abbreviation x 8 probe abbreviations), '
               'including abbreviations whose expansion raises (from the tokenizer, the parser, and a malformed user snippet)',
               'histories of exactly 1 call + probe over the fixed pools (%d markup / %d stylesheet configurations, %d / %d abbreviations)'
               % (len(MK_CFGS), len(ST_CFGS), len(MK_ABBRS), len(ST_ABBRS)), rule_h, exhaustive=True)
    run_parallel(c, 'bounded.c08', 'check_history', g_obj, chunk=100)
    out.append(c.done())
    c = Clause('independent-calls', 'B', 'first call and probe share no argument (fresh dicts): markup (every pool configuration x abbreviation) -> markup (6 configurations x 10 probe abbreviations), stylesheet -> markup, '
               'markup -> stylesheet, stylesheet -> stylesheet without cache (4 configurations x 4 abbreviations each side)', 'histories of exactly 1 call + probe over the fixed pools', rule_h, exhaustive=True)
    run_parallel(c, 'bounded.c08', 'check_history', g_ind, chunk=300)
    out.append(c.done())
    c = Clause('random-histories', 'B', 'seeded random histories: 0..2 shared caller objects (dict / Config, stylesheet ones with a cache per '
               'snippet table), 2..4 calls drawn from shared objects and fresh configurations of both types, then a probe',
               '%d histories of 2..4 calls + probe' % len(g_rnd), rule_h, exhaustive=False)
    run_parallel(c, 'bounded.c08', 'check_history', g_rnd, chunk=100)
    out.append(c.done())
    # round 3: the option dimension (pools and generators in c08_opts.py)
    g_opt = list(c08_opts.gen_option_switch(seed, 3000 if quick else 40000))
    g_unit = list(c08_opts.gen_snippet_units(seed, 300 if quick else 6000))
    n_probes3 = _precompute([g_opt, g_unit], forked=True)
    rule_3 = ('a case is one history plus one probe call; the probe outcome is compared with the same call (equal, freshly built '
              'configuration, no cache) made as the first expand call of a process forked from an interpreter that has only imported '
              'the library (%d distinct probes, one process each); distinct by the JSON of history + probe' % n_probes3)
    c = Clause('markup-option-switch', 'B', 'the same markup abbreviation under configuration A and then B: every ordered pair of %d configurations '
               '(every markup-related option with a non-default value, 12 with an `inlineElements` list of their own, context elements, 7 syntaxes) x %d abbreviations '
               '(unnamed elements below built-in / inline / custom / upper-case / unnamed parents, groups, repeaters, plus option-sensitive named '
               'elements) with nothing shared; for every fourth abbreviation also A through a caller-owned Config / dict, B with a fresh dict, then the '
               'probe through the object again; + seeded histories of 2..3 calls over different abbreviations'
               % (len(c08_opts.MKO_CFGS), len(c08_opts.MKO_ABBRS)),
               'histories of 1..3 calls + probe over the fixed pools: %d' % len(g_opt), rule_3, exhaustive=False)
    run_parallel(c, 'bounded.c08', 'check_history', g_opt, chunk=400)
    out.append(c.done())
    c = Clause('snippet-value-units', 'B', 'stylesheet calls through one cache dict with one user snippet table (%d snippets whose default values have numbers '
               'with real units, with alias-key units, without unit, keywords, colours, strings, functions, fields, alternatives; a second table with the '
               'same names) under %d option sets (10 `unitAliases` tables incl. chains and swaps, intUnit / floatUnit / unitless / shortHex / json / keywords): two '
               'callers with differing options (all ordered pairs x 4 combined abbreviations that cover every snippet; every bare name for B = A + 1, + 4, + 7, its explicit-value form for A + 1 / A + 5), the '
               'same call repeated through fresh dicts / one dict / one Config, A-B-A, + seeded histories'
               % (len(c08_opts.SNU), len(c08_opts.SNU_OPTS)),
               'histories of 1..3 calls + probe over the fixed pools: %d' % len(g_unit), rule_3, exhaustive=False)
    run_parallel(c, 'bounded.c08', 'check_history', g_unit, chunk=40)
    out.append(c.done())
    # round 4: the context element / caller dicts edited in place (c08_ctx.py); callers with differing stylesheet snippet
    # tables (c08_tables.py)
    g_ctx = list(c08_ctx.gen_markup_context(seed, 1200 if quick else 20000))
    g_sctx = list(c08_ctx.gen_stylesheet_context(seed, 100 if quick else 3000))
    g_tab = list(c08_tables.gen_table_switch(seed, 100 if quick else 3000, 28 if quick else None, 3 if quick else 5))
    n_probes4 = _precompute([g_ctx, [(st, p) for st, ps in g_sctx + g_tab for p in ps]], forked=True)
    rule_4 = ('a case is one history plus one probe call (check_probes: plus several probe calls made one after the other); every '
              'probe outcome is compared with the same call (equal, freshly built configuration, no cache) made as the first expand '
              'call of a process forked from an interpreter that has only imported the library (%d distinct probes, one process '
              'each); distinct by the JSON of history + probe(s)' % n_probes4)
    c = Clause('context-switch', 'B', 'the `context` of the configuration differs between the calls of a history. Markup: %d parent elements '
               '(names that decide implicit tags x class attributes of every BEM shape, none, no attributes) x %d option sets (BEM on with two '
               'separator sets, + comments, off) x %d abbreviations (element- / modifier-prefixed classes whose block is in the abbreviation, '
               'only in the context, nowhere; unnamed elements): same abbreviation below parent A then B -- through fresh dicts, and through ONE '
               'caller dict that the caller edits in place between the calls (passed as dict or as Config(dict), every third with a cache): '
               'every ordered pair x 4 abbreviations; A-B-A in place; seeded editing sessions of 3..6 calls (incl. raising ones). '
               'Stylesheet: %d contexts (value context of 5 properties, the 4 scopes, none): 3 calls with A then 6 probes with B, every ordered '
               'pair, fresh dicts / edited dict, one cache; seeded sessions'
               % (len(c08_ctx.CTX), len(c08_ctx.MK_OPTS), len(c08_ctx.CTX_ABBRS), len(c08_ctx.ST_CTX)),
               'histories of 1..6 calls + probe(s) over the fixed pools: %d markup, %d stylesheet (%d probes)'
               % (len(g_ctx), len(g_sctx), sum(len(ps) for _, ps in g_sctx)), rule_4, exhaustive=False)
    run_parallel(c, 'bounded.c08', 'check_history', g_ctx, chunk=300)
    run_parallel(c, 'bounded.c08', 'check_probes', g_sctx, chunk=15)
    out.append(c.done())
    c = Clause('snippet-table-switch', 'B', 'callers with differing user stylesheet snippet tables, each with its own cache or none. For every '
               'built-in property family (own reading of the raw css table; quick: the %s, 3 of the 5 kinds each) 5 kinds of mechanically built user tables -- a longhand below '
               'the built-in shorthand, one with several keywords per alternative, a second snippet for the same property, a redefinition of '
               'the built-in key, two nested levels -- plus user shorthands above built-in longhands; keywords from a pool of %d words. Probes: '
               'the family\'s built-in keys with 2- / 3-letter prefixes of those words (`K:pp`, `K-pp`), bare keys, the prefixes in the value '
               'context of the property. Histories: call with T (succeeding / raising / through a Config) then probes with the built-in table '
               '(new cache; no cache; a Config made before the call with T); then probes with another table of the family and with T again; '
               'built-in first, then T; + seeded histories over 1..3 tables of different families with option sets / syntaxes'
               % ('24 families with built-in longhands + 4 others' if quick else 'all of them', len(c08_tables.WORDS)),
               '%d histories, %d probes' % (len(g_tab), sum(len(ps) for _, ps in g_tab)), rule_4, exhaustive=False)
    run_parallel(c, 'bounded.c08', 'check_probes', g_tab, chunk=10)
    out.append(c.done())
    # round 5: keyword functions with explicit arguments (c08_funcs.py)
    g_fn = list(c08_funcs.gen_function_args(seed, 120 if quick else 8000))
    n_probes5 = _precompute([[(st, p) for st, ps in g_fn for p in ps]], forked=True)
    rule_5 = ('a case is one history plus several probe calls made one after the other (check_probes); every probe outcome is '
              'compared with the same call (equal, freshly built configuration, no cache) made as the first expand call of a process '
              'forked from an interpreter that has only imported the library (%d distinct probes, one process each); distinct by '
              'the JSON of history + probes' % n_probes5)
    n_fn = len(c08_funcs.function_entries())
    c = Clause('function-arguments', 'B', 'stylesheet calls that use a keyword function of a snippet with explicit arguments, then calls that use '
               'the same function with no / fewer / more arguments, the bare snippet, a sibling function. %d functions: every `name(...)` '
               'alternative of every built-in property snippet (own reading of the raw css table, with its default argument count) + %d user '
               'tables with functions of 0..4 default arguments; aliases = prefixes / initials / full name, both separators; arguments from a '
               'pool of %d. Per function: first call with as many arguments as defaults, one, one more -- through fresh dicts + one cache, '
               'one caller dict, one Config (with a raising call in between), callers with differing options / syntaxes on one cache, in the '
               'value context of the property, and without any cache (control); + seeded histories of 1..4 calls'
               % (n_fn, len(c08_funcs.USER_TABLES), len(c08_funcs.ARGS)),
               '%d histories, %d probes' % (len(g_fn), sum(len(ps) for _, ps in g_fn)), rule_5, exhaustive=False)
    run_parallel(c, 'bounded.c08', 'check_probes', g_fn, chunk=15)
    out.append(c.done())
    del g_cache, g_obj, g_ind, g_rnd, g_mkc, g_nest, g_opt, g_unit, g_ctx, g_sctx, g_tab, g_fn
    g_ret = list(gen_retention(seed, 300 if quick else 5000))
    c = Clause('no-retention', 'B', 'every pool (abbreviation, configuration) pair as fresh dict and as shared Config, plus seeded random histories; '
               'warm-up twice, snapshot, repeat 2-3 times, snapshot', '%d call sequences' % len(g_ret),
               'a case is one call sequence + repeat count; compared: deep sizes of all module-level / default-argument / closure / class-level '
               'containers of emmet.* modules and live-instance counts of emmet classes after gc.collect()', exhaustive=False)
    run_parallel(c, 'bounded.c08', 'check_retention', g_ret, chunk=20)
    out.append(c.done())
    return out
