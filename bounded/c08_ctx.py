"""C08 round 4 (a): pools and history generators for the *context element* of the configuration and for caller-owned
configuration dicts that are edited in place between calls.

The statement: "The result of expand() depends only on the abbreviation and the configuration passed: equal arguments give
equal results whatever calls came before ... A configuration object supplied by the caller keeps producing the same
results after any call".  `context` (the element / CSS property the abbreviation is expanded in) is part of the
configuration.  The earlier pools had one BEM configuration with a context (class `bl`, never another one) and a few
context *names*; no history expanded the same abbreviation below two parents with differing `class` attributes, and no
history re-used a caller's dict after the caller had changed it (an editor keeps one configuration and updates the
description of the parent element as the caret moves) -- there the dict, and the dicts nested in it, keep their identity
while their value changes, so anything the library remembers *by object identity* is stale.

Everything here yields cases for `bounded.c08:check_history` (steps, probe) or `bounded.c08:check_probes` (steps, probes);
the expected outcome of a probe is the outcome of the same abbreviation with an equal, freshly built configuration in a
fresh interpreter state (`c08.reference_batch`), never a value written here.

Step format: see c08.py; `how` = 'update' / 'update+Config' is the caller dict `obj` edited in place to `cfg` before the call.
"""
import random


def _step(abbr, cfg, how='fresh', obj=None, cache=None):
    return {'abbr': abbr, 'cfg': cfg, 'how': how, 'obj': obj, 'cache': cache}


# ================================================================================================ markup contexts
# parent elements: names that decide the implicit tag name (ul, table, select, em, a custom one) x class attributes of every
# BEM shape (plain block, block with a dash, several classes, block + modifier, element class, element-prefixed class first,
# empty, no class attribute, no attributes at all)
CTX = [
    None,
    {'name': 'div'},
    {'name': 'div', 'attributes': {}},
    {'name': 'div', 'attributes': {'class': ''}},
    {'name': 'div', 'attributes': {'class': 'card'}},
    {'name': 'div', 'attributes': {'class': 'panel'}},
    {'name': 'nav', 'attributes': {'class': 'nav-bar', 'id': 'top'}},
    {'name': 'ul', 'attributes': {'class': 'list list_wide'}},
    {'name': 'ul', 'attributes': {'class': 'b-page x'}},
    {'name': 'em', 'attributes': {'class': 'card__body'}},
    {'name': 'table', 'attributes': {'class': 'x-1 grid'}},
    {'name': 'select', 'attributes': {'class': '-odd blk'}},
    {'name': 'widget', 'attributes': {'class': 'Card', 'title': 'panel'}},
    {'name': 'section', 'attributes': {'id': 'card'}},
    {'name': 'tr', 'attributes': {'class': 'row'}},
]
MK_OPTS = [
    {'bem.enabled': True},
    {'bem.enabled': True, 'bem.element': '-', 'bem.modifier': '--'},
    {'bem.enabled': True, 'comment.enabled': True, 'output.selfClosingStyle': 'xhtml'},
    None,
]
# element-prefixed / modifier-prefixed classes whose block is found in the abbreviation itself, in the context only, or
# nowhere; several prefix depths; repeaters and groups; plus unnamed elements (implicit tag name from the context name)
CTX_ABBRS = [
    '.-title', '.-e_m', 'ul>li.-item*2', 'div.b>div.-e', '.plain', '.--deep', 'p>span.--deep', '._mod', '.-a+.-b_c',
    '(.-g>.-h)*2', 'a.-lnk{t}', '.-e.k', 'section.blk>.--e', '.-e>.-f', '#i.-x', '.item', 'li.-i>a.-l_on', '.-t+.item*2',
]


def _mk(opts, ctx, **kw):
    d = {'type': 'markup', 'syntax': 'html'}
    if opts:
        d['options'] = opts
    if ctx is not None:
        d['context'] = ctx
    d.update(kw)
    return d


def gen_markup_context(seed, n_random):
    """(1) the same abbreviation below parent A and then below parent B, fresh dicts, nothing shared: every option set x every
        ordered pair A != B x 4 abbreviations (rotating with the pair);
    (2) one caller dict: call with parent A, the caller edits the dict in place to parent B, probe -- as the dict itself and
        as Config(dict) per call, every third history with a cache dict in it: same product as (1);
    (3) A, B, then A again through the edited dict: every option set x ordered pair x 1 abbreviation;
    (4) seeded editing sessions: 3..6 calls that draw parent, option set and abbreviation at random, each through a fresh
        dict, the edited dict or Config(edited dict); then a probe of the same kind"""
    n = len(CTX)
    na = len(CTX_ABBRS)
    for oi, o in enumerate(MK_OPTS):
        for i in range(n):
            for j in range(n):
                if i == j:
                    continue
                for k in range(4):
                    a = CTX_ABBRS[(i * 5 + j * 3 + oi + k * 7) % na]
                    ca, cb = _mk(o, CTX[i]), _mk(o, CTX[j])
                    yield [_step(a, ca)], _step(a, cb)
                    how = 'update' if (i + j + k) % 2 == 0 else 'update+Config'
                    cid = 0 if (i + j + k) % 3 == 0 else None
                    yield [_step(a, ca, how, obj=0, cache=cid)], _step(a, cb, how, obj=0, cache=cid)
                a = CTX_ABBRS[(i + j * 2 + oi) % na]
                yield [_step(a, _mk(o, CTX[i]), 'update', obj=0), _step(a, _mk(o, CTX[j]), 'update', obj=0)], \
                    _step(a, _mk(o, CTX[i]), 'update', obj=0)
    rnd = random.Random('c08-ctx-%d' % seed)
    for _ in range(n_random):
        texts = rnd.choice([None, None, 'txt', ['t1', 't2']])

        def one():
            cfg = _mk(rnd.choice(MK_OPTS), rnd.choice(CTX))
            if texts is not None and rnd.random() < 0.5:
                cfg['text'] = texts
            r = rnd.random()
            a = rnd.choice(CTX_ABBRS + ['.-e[', 'a)'])          # a call of the session may raise
            if r < 0.3:
                return _step(a, cfg)
            return _step(a, cfg, 'update' if r < 0.7 else 'update+Config', obj=0)
        steps = [one() for _ in range(rnd.randint(3, 6))]
        yield steps, one()


# ================================================================================================ stylesheet contexts
# the stylesheet `context`: the CSS property whose value is being written, or one of the four scopes
ST_CTX = [
    None,
    {'name': 'align-content'},
    {'name': 'border'},
    {'name': 'display'},
    {'name': 'font-family'},
    {'name': 'no-such-property'},
    {'name': '@@section'},
    {'name': '@@property'},
    {'name': '@@value'},
    {'name': '@@global'},
]
ST_CTX_ABBRS = ['c', 'fs', 's', 'a', 'fl', 'b', 'm10', 'p', '@kf', 'ss', '10', 'n', '#f', 'lg(top, red)', 'd:n', 'bd1-s', 'sb', 'if']


def _st(ctx, opts=None):
    d = {'type': 'stylesheet', 'syntax': 'css'}
    if opts:
        d['options'] = opts
    if ctx is not None:
        d['context'] = ctx
    return d


def gen_stylesheet_context(seed, n_random):
    """(steps, probes) for check_probes. All configurations use the built-in snippet table, so one cache dict may serve all
    calls of a history.  (1) every ordered pair of contexts A != B: 3 calls with A, then 6 probes with B (abbreviations rotate
    with the pair) -- through fresh dicts + one cache, and through one caller dict edited in place (+ the cache);
    (2) seeded sessions: 2..4 calls then 4 probes with contexts / sharing drawn at random per call; one session in four
    without any cache"""
    n = len(ST_CTX)
    na = len(ST_CTX_ABBRS)
    for i in range(n):
        for j in range(n):
            if i == j:
                continue
            pre = [ST_CTX_ABBRS[(i + j + k * 5) % na] for k in range(3)]
            pro = [ST_CTX_ABBRS[(i * 2 + j + k * 3) % na] for k in range(6)]
            ca, cb = _st(ST_CTX[i]), _st(ST_CTX[j])
            yield [_step(a, ca, cache=0) for a in pre], [_step(a, cb, cache=0) for a in pro]
            how = 'update' if (i + j) % 2 else 'update+Config'
            yield [_step(a, ca, how, obj=0, cache=0) for a in pre], [_step(a, cb, how, obj=0, cache=0) for a in pro]
    rnd = random.Random('c08-stctx-%d' % seed)
    opts = [None, None, {'stylesheet.fuzzySearchMinScore': 0.3}, {'stylesheet.keywords': ['auto', 'super', 'none']}]
    for _ in range(n_random):
        cid = None if rnd.random() < 0.25 else 0

        def one():
            cfg = _st(rnd.choice(ST_CTX), rnd.choice(opts))
            r = rnd.random()
            if r < 0.4:
                return _step(rnd.choice(ST_CTX_ABBRS), cfg, cache=cid)
            return _step(rnd.choice(ST_CTX_ABBRS), cfg, 'update' if r < 0.8 else 'update+Config', obj=0, cache=cid)
        yield [one() for _ in range(rnd.randint(2, 4))], [one() for _ in range(2 if cid is None else 4)]
