"""C08 round 5: histories over *keyword functions with explicit arguments* in stylesheet abbreviations.

The statement: "equal arguments give equal results whatever calls came before, with or without a shared `cache`, and in
particular a cache never changes any result ... A configuration object supplied by the caller keeps producing the same
results after any call ... The library keeps no per-call data alive after a call returns."

A stylesheet snippet may list *functions* among its keywords (`transform: ...|scale(${1:x}, ${2:y})|...`,
`grid-template-columns: repeat(${0})|minmax()`, `clip: auto|rect(...)`, `content: ...|attr(${0})|counter(${0})`, the
`url(${0})` of every `*-image` property, `cubic-bezier(...)`), and an abbreviation may call such a function with arguments
of its own (`trf-s(2, 3)`, `gtc:repeat(3, 1fr)`): the arguments written in the abbreviation are merged with the default
ones of the snippet.  The earlier pools contain exactly one function call (`lg(top, red)`, a gradient, which takes another
path) and one function keyword without arguments (`trf:r`); no history made a call with *argument-carrying* keyword
functions and then asked for the same function with fewer or no arguments, or for the bare snippet.  That is the only
place where data of one call (its argument tokens) meets the long-lived snippet objects kept in the caller's cache.

Everything is built mechanically: the functions come from an own regexp reading of the raw table `emmet.snippets.css`
(every alternative of the form `name(...)` of every property snippet, with the number of its default arguments), plus user
tables with function keywords of 0..4 default arguments; aliases of a function are prefixes / initials of its name;
arguments come from a pool.  The expected outcome of a probe is the outcome of the same abbreviation with an equal,
freshly built configuration and no cache in a fresh interpreter state (`c08.reference_batch`) -- never a value written
here, and no abbreviation is special: whether an alias resolves to the function it was derived from does not matter.
A `cache` dict is only ever shared between calls with equal snippet tables.

Yields (steps, probes) for `bounded.c08:check_probes`.
"""
import json
import random
import re


def _step(abbr, cfg, how='fresh', obj=None, cache=None):
    return {'abbr': abbr, 'cfg': cfg, 'how': how, 'obj': obj, 'cache': cache}


def _st(table=None, opts=None, ctx=None, syntax='css'):
    d = {'type': 'stylesheet', 'syntax': syntax}
    if table is not None:
        d['snippets'] = table
    if opts:
        d['options'] = opts
    if ctx is not None:
        d['context'] = ctx
    return d


_RE_DEF = re.compile(r'^([a-z-]+)\s*:\s*([^\n\r;]+?);*$')
_RE_FN = re.compile(r'^([A-Za-z][\w-]*)\((.*)\)$')

# user tables whose keywords are functions with 0..4 default arguments (with and without placeholders, one function that is
# also the default value, one snippet with two functions sharing a first letter, one next to plain keywords)
USER_TABLES = [
    {'flt': 'filter:blur(${1:radius})|brightness(${1:amount})|drop-shadow(${1:x}, ${2:y}, ${3:blur}, ${4:color})|none'},
    {'clpp': 'clip-path:inset(${1:top}, ${2:right})|circle(${1:r})|none', 'wdc': 'width:clamp(${1:min}, ${2:val}, ${3:max})|auto'},
    {'shp': 'shape-outside:polygon()|ellipse(${1:rx}, ${2:ry})', 'mten': 'margin:10'},
    {'trs': 'transition-timing-function:steps(${1:n}, ${2:jump})|ease|cubic-bezier(${1:a}, ${2:b}, ${3:c}, ${4:d})'},
]
ARGS = ['2', '3', '10', '1.5', '45deg', '1fr', 'auto', '7', '20px', '0', 'a', '12', '4em', 'red']
OPTSETS = [{'stylesheet.intUnit': 'pt'}, {'stylesheet.floatUnit': 'rem', 'stylesheet.shortHex': False},
           {'stylesheet.fuzzySearchMinScore': 0.3}, {'stylesheet.unitAliases': {'e': 'ex'}}]
OTHER = ['p10+m5', 'p10+(', 'bd1-s#f', 'c#f.5', 'pos:a', 'a)', 'zom']


def _functions_of(table):
    """[(key K, property P, function name, number of default arguments, [names of all functions of the snippet])] from the
    definition texts of a raw table"""
    out = []
    for k, v in sorted(table.items()):
        m = _RE_DEF.match(v)
        if not m:
            continue
        fns = []
        for alt in m.group(2).split('|'):
            f = _RE_FN.match(alt.strip())
            if f:
                inner = f.group(2).strip()
                fns.append((f.group(1), len([a for a in inner.split(',') if a.strip()]) if inner else 0))
        for name, nd in fns:
            out.append((sorted(k.split('|'), key=lambda s: (len(s), s))[0], m.group(1), name, nd, [n for n, _ in fns]))
    return out


def function_entries():
    """[(user table or None, K, P, function, default argument count, sibling functions)]: built-in ones first"""
    from emmet.snippets.css import snippets as raw
    out = [(None,) + e for e in _functions_of(raw)]
    for t in USER_TABLES:
        out += [(t,) + e for e in _functions_of(t)]
    return out


def _aliases(name):
    """prefixes and initials of a function name: `translate3d` -> t, tr, tra, t3, translate3d; `scaleX` -> s, sc, sca, sx;
    `cubic-bezier` -> c, cu, cub, cb"""
    out = [name[:1], name[:2], name[:3]]
    tail = ''.join(ch for ch in name[1:] if ch.isupper() or ch.isdigit())
    if tail:
        out.append((name[0] + tail[:1]).lower())
    if '-' in name:
        out.append(''.join(p[:1] for p in name.split('-')))
    out.append(name)
    return list(dict.fromkeys(a for a in out if a))


def _args(n, k):
    return ', '.join(ARGS[(n * 3 + i * 5) % len(ARGS)] for i in range(k))


def _call(key, sep, alias, args):
    return '%s%s%s(%s)' % (key, sep, alias, args)


def _probe_abbrs(entry, n):
    """what a later call may ask about function F of snippet K: F without arguments (every alias, both separators), the bare
    snippet, F with an empty / a shorter / a full argument list, a sibling function, two properties in one abbreviation"""
    table, k, p, name, nd, sibs = entry
    al = _aliases(name)
    out = ['%s:%s' % (k, al[0]), k, '%s:%s' % (k, name), '%s-%s' % (k, al[0])]
    out.append(_call(k, '-', al[0], _args(n + 4, 1)))
    out.append(_call(k, ':', name, ''))
    for a in al[1:-1]:
        out.append('%s:%s' % (k, a))
    if nd > 1:
        out.append(_call(k, ':', al[min(1, len(al) - 1)], _args(n + 6, nd - 1)))
    others = [s for s in sibs if s != name]
    if others:
        o = others[n % len(others)]
        out.append('%s:%s' % (k, o))
        out.append(_call(k, '-', o[:2], _args(n + 1, 1)))
    out.append('%s:%s+%s' % (k, al[0], k))
    out.append(_call(k, '-', name, _args(n + 8, nd + 1)))
    out.append('%s:%s' % (k, al[0]))           # once more, after the probes with other arguments
    return out


def gen_function_args(seed, n_random):
    """per function F (default argument count nd) of snippet K, table T (one cache dict per distinct table, #0 = built-in):
    (1) `K-f(a1..a_nd)` through fresh dicts + the cache, then the probes the same way;
    (2) the same through ONE caller dict carrying the cache;
    (3) through ONE Config carrying the cache, with a raising call in between;
    (4) the first call by a caller with other options / another syntax, probes by a default caller, one cache;
    (5) `K:F(a1)` (one argument, full name) and `K-f(a1..a_nd+1)` (one more than the defaults) first, fresh dicts / Config;
    (6) in the value context of the property (`context: {'name': P}`): `f(a..)` then `f`, `F`, `f(a)`;
    (7) control: the same calls without any cache (every fourth function);
    + seeded histories of 1..4 calls (function calls with 0..nd+1 arguments over several functions, other abbreviations,
    raising ones; fresh / dict / Config; default / other options) and 6 probes"""
    entries = function_entries()
    ids = {}

    def cache_of(table):
        if table is None:
            return 0
        return ids.setdefault(json.dumps(table, sort_keys=True), len(ids) + 1)

    for n, e in enumerate(entries):
        table, k, p, name, nd, sibs = e
        al = _aliases(name)
        cfg = _st(table)
        c = cache_of(table)
        probes = _probe_abbrs(e, n)
        full = _call(k, '-', al[0], _args(n, max(nd, 1)))
        # (1)
        yield [_step(full, cfg, cache=c)], [_step(a, cfg, cache=c) for a in probes]
        # (2)
        yield [_step(full, cfg, 'dict', obj=1, cache=c)], [_step(a, cfg, 'dict', obj=1, cache=c) for a in probes[:8]]
        # (3)
        yield [_step(_call(k, ':', al[-1], _args(n + 2, max(nd, 1))), cfg, 'Config', obj=1, cache=c),
               _step('p10+(', cfg, 'Config', obj=1, cache=c)], [_step(a, cfg, 'Config', obj=1, cache=c) for a in probes[:8]]
        # (4)
        o = OPTSETS[n % len(OPTSETS)]
        sx = ['css', 'scss', 'stylus', 'sass'][(n + seed) % 4]
        yield [_step(full, _st(table, o, None, sx), cache=c)], [_step(a, cfg, cache=c) for a in probes[:6]]
        yield [_step(full, cfg, cache=c)], [_step(a, _st(table, o, None, sx), cache=c) for a in probes[:3]]
        # (5)
        yield [_step(_call(k, ':', name, _args(n + 3, 1)), cfg, cache=c)], [_step(a, cfg, cache=c) for a in probes[:7]]
        yield [_step(_call(k, '-', al[min(1, len(al) - 1)], _args(n + 5, nd + 1)), cfg, 'Config', obj=2, cache=c)], \
            [_step(a, cfg, 'Config', obj=2, cache=c) for a in probes[:4]] + [_step(a, cfg, cache=c) for a in probes[:3]]
        # (6)
        vc = _st(table, None, {'name': p})
        yield [_step('%s(%s)' % (al[0], _args(n + 7, max(nd, 1))), vc, cache=c)], \
            [_step(a, vc, cache=c) for a in (al[0], name, '%s(%s)' % (al[0], _args(n + 9, 1)), '%s()' % name)] \
            + [_step(a, cfg, cache=c) for a in probes[:3]]
        # (7)
        if n % 4 == 0:
            yield [_step(full, cfg)], [_step(a, cfg) for a in probes[:3]]
    rnd = random.Random('c08-funcs-%d' % seed)
    by_table = {}
    for e in entries:
        by_table.setdefault(cache_of(e[0]), []).append(e)
    for _ in range(n_random):
        c = rnd.choice(sorted(by_table) + [0, 0])
        pool = by_table[c]
        table = pool[0][0]
        how = rnd.choice(['fresh', 'fresh', 'dict', 'Config'])
        opts = rnd.choice([None, None] + OPTSETS)
        shared_cfg = _st(table, opts)
        steps, picked = [], []
        for _ in range(rnd.randint(1, 4)):
            if rnd.random() < 0.2:
                a = rnd.choice(OTHER)
            else:
                e = rnd.choice(pool)
                picked.append(e)
                a = _call(e[1], rnd.choice(':-'), rnd.choice(_aliases(e[3])), _args(rnd.randint(0, 50), rnd.randint(0, e[4] + 1)))
            if how == 'fresh':
                steps.append(_step(a, _st(table, rnd.choice([None, opts])), cache=c))
            else:
                steps.append(_step(a, shared_cfg, how, obj=1, cache=c))
        pa = []
        for e in (picked or [rnd.choice(pool)]):
            pa += _probe_abbrs(e, rnd.randint(0, 50))
        rnd.shuffle(pa)
        if how == 'fresh' or rnd.random() < 0.3:
            yield steps, [_step(a, _st(table), cache=c) for a in pa[:6]]
        else:
            yield steps, [_step(a, shared_cfg, how, obj=1, cache=c) for a in pa[:6]]
