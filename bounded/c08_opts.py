"""C08 round 3: pools and history generators for the *option dimension* of the property ("... succeeding and failing, with
differing options, shared Config objects and shared cache dicts").

The earlier pools vary the configuration mostly in text / syntax / snippet tables; the options whose value decides *how one
and the same element or snippet value is resolved* were thin: no history changed `inlineElements` (or any `output.*` /
`comment.*` / `bem.*` / `markup.*` option) between two calls on the same element names, and no user stylesheet snippet had a
default value with a number that already carries a unit, so `stylesheet.unitAliases` never met a value that lives in a cache.

Both generators yield (steps, probe) pairs for `bounded.c08:check_history`; the expected outcome of the probe is the outcome
of the same call in a fresh interpreter state (see `c08.reference` / `c08.reference_batch`), never a value written here.

Step format: see c08.py.
"""
import random


def _step(abbr, cfg, how='fresh', obj=None, cache=None):
    return {'abbr': abbr, 'cfg': cfg, 'how': how, 'obj': obj, 'cache': cache}


# ================================================================================================ markup: option switch
def _m(opts=None, **kw):
    d = {'type': 'markup', 'syntax': 'html'}
    d.update(kw)
    if opts:
        d['options'] = opts
    return d


# every markup-related key of the documented option list with at least one non-default value (callbacks excluded: caller
# code); `inlineElements` with several lists that disagree about plain html names, custom names, upper case and block names
MKO_CFGS = [
    _m(),
    _m({'inlineElements': []}),
    _m({'inlineElements': ['a', 'span', 'em', 'widget']}),
    _m({'inlineElements': ['widget', 'gadget', 'x-foo']}),
    _m({'inlineElements': ['div', 'section', 'p', 'li', 'td', 'label', 'gadget']}),
    _m({'inlineElements': ['a', 'b', 'em', 'i', 'span', 'img', 'input', 'br', 'x-foo', 'blockquote', 'nav']}),
    _m({'inlineElements': ['EM', 'Widget', 'span']}),
    _m({'inlineElements': ['em', 'span', 'a'], 'output.inlineBreak': 0}),
    _m({'output.inlineBreak': 1}),
    _m({'output.inlineBreak': 0, 'output.formatLeafNode': True}),
    _m({'output.tagCase': 'upper', 'output.attributeCase': 'upper', 'output.attributeQuotes': 'single'}),
    _m({'output.format': False}),
    _m({'output.formatSkip': ['widget', 'ul', 'em'], 'output.formatForce': ['gadget', 'span', 'a']}),
    _m({'output.indent': '  ', 'output.newline': '\r\n', 'output.baseIndent': '    '}),
    _m({'output.compactBoolean': True, 'output.booleanAttributes': ['disabled', 'b', 'd', 'href']}),
    _m({'output.booleanAttributes': [], 'output.reverseAttributes': True, 'output.selfClosingStyle': 'xhtml'}),
    _m({'output.selfClosingStyle': 'xml', 'markup.href': False}),
    _m({'comment.enabled': True}),
    _m({'comment.enabled': True, 'comment.trigger': ['for', 'b', 'class'], 'comment.before': '<!-- [.CLASS] -->\n', 'comment.after': ''}),
    _m({'bem.enabled': True}),
    _m({'bem.enabled': True, 'bem.element': '-', 'bem.modifier': '--', 'inlineElements': ['div']}),
    _m({'jsx.enabled': True, 'markup.attributes': {'class': 'klass', 'for': 'htmlFor'}, 'markup.valuePrefix': {'class': 'st'}}),
    _m(context={'name': 'widget'}),
    _m(context={'name': 'em'}),
    _m(context={'name': 'UL'}),
    _m({'inlineElements': ['widget']}, context={'name': 'widget', 'attributes': {'class': 'blk'}}),
    _m({'inlineElements': []}, context={'name': 'em'}, text='txt'),
    _m(syntax='xml'),
    _m(syntax='jsx'),
    _m(syntax='pug'),
    _m({'inlineElements': ['widget', 'p']}, syntax='haml'),
    _m({'inlineElements': []}, syntax='slim'),
    _m(syntax='vue', text=['v1', 'v2']),
]

# elements without a name below parents of every kind (built-in parent/child pairs, names that are inline by default,
# custom names, upper case, nested unnamed parents, groups and repeaters, the context element), plus named elements whose
# output depends on the options above
MKO_ABBRS = [
    '.item', '#i+[b]+.k', 'widget>.item', 'em>.item+[b]', 'EM>.x', 'Widget>.x', 'gadget>.a>.b', 'section>p>.c^x-foo>[d]',
    'div>em>.x+span>.y', 'a>.k>b>.l', 'ul>.item^ol>#o', 'table>.r>.c', 'select>.o+optgroup>.p', 'p>.s>.t',
    'widget.w>(.a+.b)*2', 'label[for=x].c>widget>.z', 'blockquote>.q^nav>.n', 'li>.a^td>.b', 'input[disabled]+a{t}',
    'a+b+em+i+span', 'img.k+br', 'div.b>.-e_m', 'ul#n>li.c*2', 'gadget>{t}+.u', 'widget>(em>.x)+.y', '(widget>.g)*2',
]


def gen_option_switch(seed, n_random):
    """three kinds of histories over MKO_CFGS x MKO_ABBRS:
    (1) the same abbreviation with configuration A, then with configuration B (fresh dicts, nothing shared): every ordered
        pair A != B x every abbreviation;
    (2) a caller-owned object (Config or dict) of configuration A: a call through it, the same abbreviation with a fresh
        dict of configuration B, then the probe through the object again: every ordered pair x every fourth abbreviation
        (rotating with the pair), the two kinds of object alternating;
    (3) seeded: 2..3 calls (any abbreviation, any configuration; one configuration of the history may be a shared
        Config / dict), then a probe of any abbreviation -- calls on *different* abbreviations that share parent names"""
    n = len(MKO_CFGS)
    for i in range(n):
        for j in range(n):
            if i == j:
                continue
            for k, a in enumerate(MKO_ABBRS):
                yield [_step(a, MKO_CFGS[i])], _step(a, MKO_CFGS[j])
                if (i + j + k) % 4 < 1:
                    how = 'Config' if (i + k) % 2 == 0 else 'dict'
                    yield [_step(a, MKO_CFGS[i], how, obj=0), _step(a, MKO_CFGS[j])], _step(a, MKO_CFGS[i], how, obj=0)
    rnd = random.Random('c08-opts-%d' % seed)
    for _ in range(n_random):
        shared = None
        if rnd.random() < 0.5:
            shared = (rnd.choice(MKO_CFGS), rnd.choice(['dict', 'Config']))

        def one():
            if shared and rnd.random() < 0.4:
                return _step(rnd.choice(MKO_ABBRS), shared[0], shared[1], obj=0)
            return _step(rnd.choice(MKO_ABBRS), rnd.choice(MKO_CFGS))
        steps = [one() for _ in range(rnd.randint(2, 3))]
        yield steps, one()


# ================================================================================================ stylesheet: snippet values
def _s(opts=None, table=None, **kw):
    d = {'type': 'stylesheet', 'syntax': 'css'}
    d.update(kw)
    if table is not None:
        d['snippets'] = table
    if opts:
        d['options'] = opts
    return d


# user snippets whose *default value* has every kind of token: numbers that already carry a unit (real units, keys of the
# default alias table e / p / x / r, a unit `q` that only some alias tables know), unit-less integers and floats, zero,
# negative numbers, keywords, colours, strings, functions, fields, several values, several alternatives, a raw snippet
SNU = {
    'whalf': 'width:50p', 'ind': 'text-indent:2x', 'mrg': 'margin:1e 2p', 'pdg': 'padding:1.5r 10', 'gpx': 'gap:10px 2x',
    'lht': 'line-height:1.5e|2', 'brd': 'border:1x solid #f00', 'fsz': 'font-size:12q', 'tsh': 'text-shadow:1p 1p ${1:2x} #000',
    'wdt': 'width:${1:10p}|auto', 'trn': 'transform:translate(1p, 2x) 3e', 'ofs': 'offset:-5p 0 .5x',
    'rwm': 'margin: ${1:1p} ${2:2x};', 'zix': 'z-index:5|7x', 'hgt': 'height:100', 'fnt': 'font:1.2e/1.5 "Arial", serif',
    'bsz': 'background-size:50p auto|cover', 'clr': 'color:#f.5',
}
# the same names with other values (second table; caches are only shared between equal tables)
SNU2 = {
    'whalf': 'width:25x', 'ind': 'text-indent:1.5p', 'mrg': 'margin:2r', 'pdg': 'padding:3p 4q', 'gpx': 'gap:1e',
    'lht': 'line-height:3x', 'brd': 'border:2p dashed', 'fsz': 'font-size:1.5r', 'tsh': 'text-shadow:none',
    'wdt': 'width:7e', 'trn': 'transform:none', 'ofs': 'offset:1q', 'rwm': 'margin: 0;', 'zix': 'z-index:1x',
    'hgt': 'height:1.5', 'fnt': 'font:10p serif', 'bsz': 'background-size:1x 2e', 'clr': 'color:red',
}
# alias tables: the default one, a changed target for a default key, a chain (x -> e -> em: an alias applied twice is
# visible), a swap (never idempotent), none at all, aliases for real units, units produced by intUnit / floatUnit that are
# alias keys themselves
SNU_OPTS = [
    None,
    {'stylesheet.unitAliases': {'e': 'em', 'p': 'pt', 'x': 'ex', 'r': 'rem'}},
    {'stylesheet.unitAliases': {'x': 'e', 'e': 'em', 'p': 'x'}},
    {'stylesheet.unitAliases': {'e': 'p', 'p': 'e', 'x': 'r', 'r': 'x'}},
    {'stylesheet.unitAliases': {}},
    {'stylesheet.unitAliases': {'q': 'vw', 'px': 'pt', 'em': 'rem'}, 'stylesheet.intUnit': 'pt'},
    {'stylesheet.intUnit': 'q', 'stylesheet.floatUnit': 'p', 'stylesheet.unitAliases': {'q': 'mm', 'p': 'pc', 'x': 'q'}},
    {'stylesheet.unitless': [], 'stylesheet.floatUnit': 'rem', 'stylesheet.intUnit': 'x'},
    {'stylesheet.unitless': ['width', 'margin', 'text-indent', 'z-index'], 'stylesheet.unitAliases': {'p': 'vh', 'x': 'vw'}},
    {'stylesheet.shortHex': False, 'stylesheet.between': '=', 'stylesheet.after': '', 'stylesheet.unitAliases': {'p': 'P', 'e': 'E'}},
    {'stylesheet.json': True, 'stylesheet.unitAliases': {'x': 'p', 'p': '%'}},
    {'stylesheet.keywords': ['solid', 'auto'], 'stylesheet.fuzzySearchMinScore': 0.2, 'stylesheet.unitAliases': {'r': 'e', 'e': 'r'}},
]
# per snippet: the bare name (takes the default value) and forms with an explicit value / keyword / `!`
SNU_DEFAULT = sorted(SNU)
SNU_EXPLICIT = ['whalf20p', 'ind3x', 'mrg1e-2p', 'pdg!', 'lht2', 'brd2x-d', 'fsz1.5', 'wdt:a', 'rwm1p', 'trn:t', 'ofs0', 'hgt7q', 'zix3',
                'gpx1r-2', 'tsh5x', 'bsz:c', 'fnt2e', 'clr#0']
SNU_COMBINED = ['whalf+ind+mrg', 'pdg+gpx+lht+brd', 'fsz+tsh+wdt+trn+ofs', 'rwm+zix+hgt+fnt+bsz+clr', 'whalf+whalf20p+whalf',
                'ind3x+ind+mrg+mrg2x']


def _explicit_of(name):
    return [a for a in SNU_EXPLICIT if a.startswith(name)]


def _gen_snippet_units(seed, n_random):
    """histories over user snippets with unit-bearing default values (same snippet table in every call of a history, so a
    shared cache is legitimate; every history starts with a cache of its own, 7 ms per history for the built-in table):
    (1) two callers with option sets A, B share one cache dict: (a) every ordered pair (A == B included) x the 4 combined
        abbreviations that together take the default value of every snippet of the table; (b) every single bare name for
        the pairs B = A + 1, + 4, + 7 (cyclic); (c) explicit form with A then bare name with A + 1, bare name with A then
        explicit form with A + 5;
    (2) one caller object (fresh dicts + shared cache / one dict / one Config, all with a cache): the same call 1 or 2 times,
        then once more as the probe -- every option set x combined abbreviations; every bare name twice + probe via a Config;
    (3) A, B, then A again through one cache (every ordered pair A != B, one combined abbreviation, rotating); second
        table: every ordered pair x 2 combined abbreviations;
    (4) seeded: 2..3 calls with any option set / any abbreviation through one cache (optionally one of the option sets as a
        shared Config / dict), then a probe"""
    n = len(SNU_OPTS)
    cfg = [_s(o, SNU) for o in SNU_OPTS]
    cfg2 = [_s(o, SNU2) for o in SNU_OPTS]
    for i in range(n):
        for j in range(n):
            for a in SNU_COMBINED[:4]:
                yield [_step(a, cfg[i], cache=0)], _step(a, cfg[j], cache=0)
            if i != j:
                a = SNU_COMBINED[(i + j) % len(SNU_COMBINED)]
                yield [_step(a, cfg[i], cache=0), _step(a, cfg[j], cache=0)], _step(a, cfg[i], cache=0)
                for a in (SNU_COMBINED[(i + j) % 4], SNU_COMBINED[4 + (i + j) % 2]):
                    yield [_step(a, cfg2[i], cache=0)], _step(a, cfg2[j], cache=0)
        for a in SNU_DEFAULT:
            for d in (1, 4, 7):
                yield [_step(a, cfg[i], cache=0)], _step(a, cfg[(i + d) % n], cache=0)
            for e in _explicit_of(a):
                yield [_step(e, cfg[i], cache=0)], _step(a, cfg[(i + 1) % n], cache=0)
                yield [_step(a, cfg[i], cache=0)], _step(e, cfg[(i + 5) % n], cache=0)
    for i in range(n):
        for a in SNU_COMBINED:
            for how in ('fresh', 'dict', 'Config'):
                for times in (1, 2):
                    s = _step(a, cfg[i], how, obj=None if how == 'fresh' else 0, cache=0)
                    yield [s] * times, s
        for a in SNU_DEFAULT:
            s = _step(a, cfg[i], 'Config', obj=0, cache=0)
            yield [s, s], s
    rnd = random.Random('c08-units-%d' % seed)
    pool = SNU_DEFAULT + SNU_EXPLICIT + SNU_COMBINED
    for _ in range(n_random):
        cs = cfg if rnd.random() < 0.75 else cfg2
        shared = None
        if rnd.random() < 0.5:
            shared = (rnd.choice(cs), rnd.choice(['dict', 'Config']))

        def one():
            if shared and rnd.random() < 0.4:
                return _step(rnd.choice(pool), shared[0], shared[1], obj=0, cache=0)
            return _step(rnd.choice(pool), rnd.choice(cs), cache=0)
        steps = [one() for _ in range(rnd.randint(2, 3))]
        yield steps, one()


def gen_snippet_units(seed, n_random):
    "the histories of _gen_snippet_units without repetitions (block (2) with one call repeats some of block (1) with A == B)"
    import json
    seen = set()
    for case in _gen_snippet_units(seed, n_random):
        k = json.dumps(case, sort_keys=True)
        if k not in seen:
            seen.add(k)
            yield case
