"""C08 round 4 (b): histories in which the callers' *stylesheet snippet tables* differ.

The statement: "The result of expand() depends only on the abbreviation and the configuration passed: equal arguments give
equal results whatever calls came before, with or without a shared `cache`".  `snippets` is part of the configuration.  The
earlier pools have four user stylesheet tables; none of their snippets belongs to the *family* of a built-in property (a
longhand `border-zone` below the built-in shorthand `border`, a second snippet for a built-in property, a redefinition of a
built-in key, a shorthand above built-in longhands), and no probe used a *keyword abbreviation* (`bd:th`, `bd-th`, or `th`
in the value context of `border`) -- the one place where the snippets of a property family are looked at together.  So a
call with one table followed by a call with another table (or with none) never asked a question whose answer depends on
which family members exist.

The user tables are built mechanically for every built-in property family (own reading of the raw table
`emmet.snippets.css`: `key: property[:alternatives]`); keywords are drawn from a word pool, probes are the built-in keys of
the family with prefixes of those words.  The expected outcome of a probe is the outcome of the same abbreviation with an
equal, freshly built configuration in a fresh interpreter state -- never a value written here.  A `cache` dict is only
ever shared between calls with equal snippet tables (see "deliberately excluded" in c08.py).

Yields (steps, probes) for `bounded.c08:check_probes`.
"""
import random
import re


def _step(abbr, cfg, how='fresh', obj=None, cache=None):
    return {'abbr': abbr, 'cfg': cfg, 'how': how, 'obj': obj, 'cache': cache}


def _st(table=None, opts=None, ctx=None, syntax='css'):
    d = {'type': 'stylesheet', 'syntax': syntax}
    if table is not None:
        d['snippets'] = table
    if opts:
        d['options'] = opts
    if ctx is not None:
        d['context'] = ctx
    return d


# real CSS keywords and made-up words, with several shared first letters (keyword abbreviations are matched fuzzily)
WORDS = ['thin', 'thick', 'groovy', 'wavy', 'zigzag', 'quartz', 'hollow', 'dense', 'north', 'south', 'plaid', 'mellow',
         'thorny', 'jagged', 'kinked', 'velvet', 'ultra', 'yonder', 'xeric', 'elastic', 'oblong', 'inked', 'russet', 'lunar']

_RE_DEF = re.compile(r'^([a-z-]+)(?:\s*:\s*([^\n\r;]+?);*)?$')


def builtin_families():
    """[(property P, its built-in key K, [(key, property) of the built-in snippets for P-... longhands])] for every built-in
    property, from the raw css table (own reading of the definition texts)"""
    from emmet.snippets.css import snippets as raw
    props = {}
    for k, v in raw.items():
        m = _RE_DEF.match(v)
        if m:
            for key in k.split('|'):
                props.setdefault(m.group(1), []).append(key)
    fams = []
    for p in sorted(props):
        longs = sorted((key, q) for q in props if q.startswith(p + '-') for key in props[q])
        fams.append((p, sorted(props[p], key=lambda s: (len(s), s))[0], longs))
    return fams


def _prefixes(words):
    out = []
    for w in words:
        for n in (2, 3):
            if w[:n] not in out:
                out.append(w[:n])
    return out


def tables_for(fam, idx):
    """user tables for one property family, each as (kind, table, words): the words are the keywords the table introduces"""
    p, k, longs = fam
    w = [WORDS[(idx * 5 + i * 7) % len(WORDS)] for i in range(6)]
    out = [
        ('longhand', {k + 'zz': '%s-zone:%s|%s' % (p, w[0], w[1])}, w[:2]),
        ('longhand-multi', {k + 'q': '%s-quirk:%s %s|%s' % (p, w[2], w[3], w[0])}, [w[2], w[3], w[0]]),
        ('same-property', {k + 'x': '%s:%s|%s' % (p, w[1], w[4])}, [w[1], w[4]]),
        ('redefined-key', {k: '%s:%s|%s' % (p, w[0], w[5])}, [w[0], w[5]]),
        ('two-levels', {k + 'zz': '%s-zone:%s' % (p, w[3]), k + 'zza': '%s-zone-a:%s|%s' % (p, w[4], w[1]),
                        'qq': 'quux:10'}, [w[3], w[4], w[1]]),
    ]
    return out


def above_tables():
    """user shorthands *above* built-in longhands: the first segment of built-in property names that is not a built-in
    property itself (`text` for text-align / text-decoration ..., `align`, `justify`, `page-break`, ...)"""
    fams = builtin_families()
    have = {p for p, _, _ in fams}
    heads = {}
    for p, k, _ in fams:
        if '-' in p:
            h = p.split('-')[0]
            if h not in have:
                heads.setdefault(h, []).append((k, p))
    out = []
    for i, h in enumerate(sorted(heads)):
        if len(heads[h]) < 2:
            continue
        w = [WORDS[(i * 3 + j * 5) % len(WORDS)] for j in range(2)]
        first_key = sorted(k for k, _ in heads[h])[0]
        # key chosen so that it sorts right before the family's built-in keys
        out.append(((h, first_key[0], sorted(heads[h])), ('shorthand-above', {first_key[0]: '%s:%s|%s' % (h, w[0], w[1])}, w)))
    return out


def _probe_abbrs(fam, words, rot):
    """keyword abbreviations over the built-in keys of the family: the shorthand key with every 2- and 3-letter prefix of the
    words (both separators), two longhand keys with the 2-letter prefixes, the bare shorthand key"""
    p, k, longs = fam
    pre = _prefixes(words)
    out = [k]
    for x in pre:
        out.append('%s:%s' % (k, x))
        out.append('%s-%s' % (k, x))
    if longs:
        picks = [longs[rot % len(longs)][0], longs[(rot * 3 + 1) % len(longs)][0]]
        for lk in dict.fromkeys(picks):
            for x in pre[::2]:
                out.append('%s:%s' % (lk, x))
    return list(dict.fromkeys(out))


def gen_table_switch(seed, n_random, max_families=None, kinds_per_family=5):
    """per user table T of every family (own cache dict per distinct table; the built-in table has cache #0):
    (1) a call with T (succeeding, or raising after the table was read: `K:(`), then the family's keyword probes with the
        built-in table only -- through fresh dicts + a new cache, and (every second table, 3 of them) without any cache;
    (2) the caller's Config of the built-in table made and used *before* the call with T, probes through it afterwards;
    (3) a call with T, then probes with another table T2 of the same family (other keywords), and with T again;
    (4) built-in table first, then probes with T (its own keys with keyword prefixes, the family's keys);
    (5) a call with T, then the word prefixes in the *value context* of the property (`context: {'name': P}`);
    + seeded histories over tables of different families.
    Quick tier: max_families / kinds_per_family cut the product (all families with built-in longhands stay)"""
    fams = [f for f in builtin_families()]
    # every family with built-in longhands first, then the others (a rotating selection when max_families cuts them)
    with_longs = [f for f in fams if f[2]]
    others = [f for f in fams if not f[2]]
    r = random.Random('c08-families-%d' % seed)
    r.shuffle(others)
    chosen = with_longs + others
    if max_families:
        chosen = chosen[:max_families]
    plain = _st()
    all_tables = []
    _ids = {}

    def cache_of(table):
        import json
        key = json.dumps(table, sort_keys=True)
        if key not in _ids:
            _ids[key] = len(_ids) + 1
        return _ids[key]

    # kinds_per_family < 5: each family gets that many of its 5 table kinds, rotating with the family and the seed
    entries = [(f, tables_for(f, idx)[(idx + seed + j * 2) % 5]) for idx, f in enumerate(chosen) for j in range(kinds_per_family)] \
        + above_tables()
    for n, (fam, (kind, table, words)) in enumerate(entries):
        p, k, longs = fam
        all_tables.append((fam, table, words))
        ct = cache_of(table)
        cfg_t = _st(table)
        own = sorted(table)[0]
        probes = _probe_abbrs(fam, words, n)[:10]
        first = _step(own, cfg_t, cache=ct) if n % 3 else _step(k + ':(', cfg_t, cache=ct)
        if n % 4 == 0:
            first = _step(own + '+' + k, cfg_t, 'Config', obj=1, cache=ct)
        # (1)
        yield [first], [_step(a, plain, cache=0) for a in probes]
        if n % 2 == 0:
            yield [_step(own, cfg_t)], [_step(a, plain) for a in probes[1:4]]
        # (2)
        yield [_step(k, plain, 'Config', obj=0, cache=0), first], [_step(a, plain, 'Config', obj=0, cache=0) for a in probes[:5]]
        # (3)
        other = tables_for(fam, n + 11)[n % 5] if kind != 'shorthand-above' else \
            ('x', {k + 'y': '%s:%s' % (p, WORDS[(n + 9) % len(WORDS)])}, [])
        cfg_o = _st(other[1])
        co = cache_of(other[1])
        if co != ct:
            yield [first], [_step(a, cfg_o, cache=co) for a in probes[:4]] + [_step(a, cfg_t, cache=ct) for a in probes[:3]]
        # (4)
        own_probes = [own] + ['%s:%s' % (key, x) for key in sorted(table)[:2] for x in _prefixes(words)[:2]]
        yield [_step(probes[1], plain, cache=0)], [_step(a, cfg_t, cache=ct) for a in own_probes[:4] + probes[:3]]
        # (5)
        vctx = _st(ctx={'name': p})
        yield [first], [_step(x, vctx, cache=0) for x in _prefixes(words)[:3]] + [_step(x, _st(table, ctx={'name': p}), cache=ct)
                                                                                 for x in _prefixes(words)[:2]]
    rnd = random.Random('c08-tables-%d' % seed)
    optsets = [None, None, {'stylesheet.fuzzySearchMinScore': 0.3}, {'stylesheet.skipUnmatched': False},
               {'stylesheet.keywords': ['auto', 'thorough', 'zero']}]
    for _ in range(n_random):
        steps = []
        picks = [rnd.choice(all_tables) for _ in range(rnd.randint(1, 3))]
        for fam, table, words in picks:
            how = rnd.choice(['fresh', 'fresh', 'Config'])
            a = rnd.choice(sorted(table) + [fam[1] + ':' + words[0][:2], fam[1] + ':('])
            steps.append(_step(a, _st(table), how, obj=None if how == 'fresh' else 10 + cache_of(table), cache=cache_of(table)))
        fam, table, words = rnd.choice(picks)
        o = rnd.choice(optsets)
        sx = rnd.choice(['css', 'css', 'scss', 'stylus'])
        pa = _probe_abbrs(fam, words, rnd.randint(0, 50))
        rnd.shuffle(pa)
        # option sets / syntaxes do not change the snippet table, so the built-in cache #0 may serve them all
        yield steps, [_step(a, _st(None, o, None, sx), cache=0) for a in pa[:5]]
