"""C09 bounded stand-in: html_matcher.match / balanced_outward / balanced_inward against generated ground truth.

Documents are rendered from random (and, for a tiny family, all) trees by bounded/c09_gen.py, which records
where every element, tag and attribute lies.  Every position 0..len(doc) is then checked against that record
(never against the implementation), in the mode (HTML or `{'xml': True}`) the document was generated for:

 * match(): the innermost element whose range strictly contains the position (open[0] < pos < end) -- paired,
   self-closing, and in HTML mode void elements -- with exact open / close ranges and attribute ranges that
   slice exactly to each attribute's name and value;
 * balanced_outward(): every enclosing element, innermost to outermost;
 * balanced_inward(): the element at the position followed by its chain of first children;
 * comments, CDATA, processing instructions and script/style bodies never contribute tags (the generator fills
   them with markup-like text; the recorded structure ignores it).

bounded/c09_edge.py adds trees with self-closed script/style elements and comments / CDATA sections whose text begins
or ends with delimiter characters (`<!-->...-->` in XML mode, `<!---->`, `<![CDATA[]...]]]>`); same renderer, same oracle.
"""
import json

from .common import Clause, run_parallel
from . import c09_gen as G
from . import c09_edge as E


def check_attributes(doc, got, recs, where):
    """got: AttributeToken list of the code; recs: the generator's attribute records of that tag"""
    if len(got) != len(recs):
        return '%s: %d attributes reported %r, the tag has %d: %r' % (
            where, len(got), [a.to_json() for a in got], len(recs), [r['name'] for r in recs])
    for a, r in zip(got, recs):
        if a.name != r['name'] or (a.name_start, a.name_end) != tuple(r['name_range']) or doc[a.name_start:a.name_end] != a.name:
            return '%s: attribute name %r at [%r:%r], expected %r at %r' % (where, a.name, a.name_start, a.name_end, r['name'], r['name_range'])
        if r['raw'] is None:
            if a.value is not None:
                return '%s: attribute %r has no value in the document but value %r was reported' % (where, a.name, a.value)
            continue
        if a.value is None:
            return '%s: attribute %r has value %r at %r in the document but none was reported' % (where, a.name, r['raw'], r['value'])
        rng = (a.value_start, a.value_end)
        # "the attribute's value": with or without its quotes / braces -- both readings accepted, but the range
        # must slice exactly to the reported value
        if rng not in (tuple(r['value']), tuple(r['inner'])) or doc[a.value_start:a.value_end] != a.value:
            return '%s: attribute %r value %r at %r, expected %r at %r (or without quotes at %r)' % (
                where, a.name, a.value, rng, r['raw'], r['value'], r['inner'])
    return None


def _t(tag):
    return (tag.name, tuple(tag.open), tuple(tag.close) if tag.close else None)


def check_doc(d, xml):
    from emmet.html_matcher import match, balanced_outward, balanced_inward
    opt = {'xml': True} if xml else None
    doc = d.doc
    inner = G.innermost_table(d)
    by_open = {tuple(el['open']): el['id'] for el in d.elements}
    starts = {el['start']: el['id'] for el in d.elements}
    ends = {el['end']: el['id'] for el in d.elements}
    mode = 'xml' if xml else 'html'
    for pos in range(0, len(doc) + 1):
        x = inner[pos]
        m = match(doc, pos, opt)
        if x is None:
            if m is not None:
                return 'match(%r, %d, %s) = %r but no element strictly contains the position' % (doc, pos, mode, _t(m))
        else:
            el = d.elements[x]
            if m is None or _t(m) != G.triple(el):
                return 'match(%r, %d, %s) = %r, expected the innermost enclosing element %r' % (
                    doc, pos, mode, m and _t(m), G.triple(el))
            bad = check_attributes(doc, m.attributes, el['attrs'], 'match(%r, %d, %s)' % (doc, pos, mode))
            if bad:
                return bad
        got = [_t(t) for t in balanced_outward(doc, pos, opt)]
        exp = G.outward_spec(d, x)
        if got != exp:
            return 'balanced_outward(%r, %d, %s) = %r, expected every enclosing element innermost to outermost: %r' % (doc, pos, mode, got, exp)
        got = [_t(t) for t in balanced_inward(doc, pos, opt)]
        if pos in starts or pos in ends:
            # the position touches an element boundary: "the element at the position" may be read as the strictly
            # enclosing element or as the element that starts / ends exactly here (tests/html_matcher pin
            # inward(doc, 0) to the element starting at 0); any of them is accepted as the head, but the list
            # must be that element followed by its chain of first children
            allowed = {i for i in (x, starts.get(pos), ends.get(pos)) if i is not None}
            if not got:
                if x is not None:
                    return 'balanced_inward(%r, %d, %s) = [] but the position is strictly inside %r' % (doc, pos, mode, G.triple(d.elements[x]))
            else:
                head = by_open.get(got[0][1])
                if head is None or head not in allowed:
                    return 'balanced_inward(%r, %d, %s) = %r: the first entry is not an element at the position (candidates %r)' % (
                        doc, pos, mode, got, [G.triple(d.elements[i]) for i in sorted(allowed)])
                exp = G.inward_spec(d, head)
                if got != exp:
                    return 'balanced_inward(%r, %d, %s) = %r, expected %r (the element followed by its chain of first children)' % (doc, pos, mode, got, exp)
        else:
            exp = G.inward_spec(d, x)
            if got != exp:
                return 'balanced_inward(%r, %d, %s) = %r, expected %r (the element at the position followed by its chain of first children)' % (
                    doc, pos, mode, got, exp)
    return None


def check_random(seed, index, max_nodes, xml):
    return check_doc(G.generate(seed, index, max_nodes, bool(xml)), bool(xml))


def check_tiny(tree_json, xml):
    return check_doc(G.render(json.loads(tree_json)), bool(xml))


def check_edge_random(seed, index, max_nodes, xml):
    return check_doc(E.generate(seed, index, max_nodes, bool(xml)), bool(xml))


def _edge_tiny(nmax):
    for xml in (0, 1):
        for n in range(1, nmax + 1):
            for f in E.edge_forests(n, bool(xml)):
                yield (json.dumps(f), xml)


def _tiny(nmax):
    for xml in (0, 1):
        for n in range(1, nmax + 1):
            for f in G.tiny_forests(n, bool(xml)):
                yield (json.dumps(f), xml)


def run(tier, seed):
    quick = tier == 'quick'
    ntrees, size = (300, 12) if quick else (2500, 40)     # per mode
    out = []
    for xml in (0, 1):
        c = Clause('html-tree-%s' % ('xml' if xml else 'html'), 'B',
                   generator='bounded/c09_gen.py: document rendered from a random tree (seed %d): paired / self-closing%s elements, '
                             'script/style with markup-like bodies, text, comments, CDATA, PIs; %s attributes with `>` and `/` in values; '
                             'random whitespace; checked with %s' % (
                                 seed, '' if xml else ' / void', 'quoted' if xml else 'quoted, unquoted, {expression}, boolean, Angular/React-style',
                                 "{'xml': True} (void names need close tags)" if xml else 'default options (HTML mode)'),
                   bound='%d trees of <= %d nodes, nesting depth <= 8; every position 0..len(doc)' % (ntrees, size),
                   rule='a case is one generated document (match, balanced_outward, balanced_inward at every position against the '
                        'generator record); distinct by (seed, index, size, mode)', exhaustive=False)
        run_parallel(c, 'bounded.c09', 'check_random', ((seed, i, size, xml) for i in range(ntrees)), chunk=max(1, ntrees // 56))
        c.done()
        out.append(c)
    nmax = 4 if quick else 5
    c = Clause('html-tiny-exhaustive', 'B',
               generator='every forest over paired %r and leaves <i/>, <!--<a>-->, <style><a></style>, text, <br> (HTML) / <br></br> (XML) '
                         'in the compact layout, both modes' % ([p[0] for p in G.TINY_PAIRS],),
               bound='all forests with 1..%d nodes; every position 0..len(doc)' % nmax,
               rule='a case is one document in one mode; distinct by (tree, mode)', exhaustive=True)
    run_parallel(c, 'bounded.c09', 'check_tiny', _tiny(nmax), chunk=400)
    c.done()
    out.append(c)
    # self-closed script/style elements; comments / CDATA whose text starts or ends with delimiter characters
    ntrees, size = (160, 10) if quick else (1500, 30)     # per mode
    for xml in (0, 1):
        c = Clause('html-edge-%s' % ('xml' if xml else 'html'), 'B',
                   generator='bounded/c09_edge.py: document rendered from a random tree (seed %d) over the vocabulary of c09_gen plus '
                             'SELF-CLOSED <script .../> / <style .../> elements (with the script/style attribute sets, also followed by '
                             'paired script/style) and comments / CDATA sections whose text is composed from pieces (markup-like text, '
                             '`>`, `-`, `->`, `]`, `]]`, `]>` ...) under the well-formedness rule of the language: %s; checked with %s' % (
                                 seed,
                                 "XML comment text has no `--` and does not end with `-` (so `<!-->...-->` and `<!--->...-->` occur)" if xml
                                 else "HTML comment text does not start with `>` / `->`, has no `<!--`, `-->`, `--!>` (so `<!---->`, "
                                      "`<!--- <b>-->`, `<!--[if IE]>...-->`, `--` inside occur)",
                                 "{'xml': True}" if xml else 'default options (HTML mode)'),
                   bound='%d trees of <= %d nodes, nesting depth <= 6; every position 0..len(doc)' % (ntrees, size),
                   rule='a case is one generated document (match, balanced_outward, balanced_inward at every position against the '
                        'generator record); distinct by (seed, index, size, mode)', exhaustive=False)
        run_parallel(c, 'bounded.c09', 'check_edge_random', ((seed, i, size, xml) for i in range(ntrees)), chunk=max(1, ntrees // 56))
        c.done()
        out.append(c)
    nmax = 3 if quick else 4
    c = Clause('html-edge-tiny-exhaustive', 'B',
               generator='every forest over paired <a> and leaves <style/>, <script src="a.js"/>, <script><a></script>, '
                         '<![CDATA[]<a>]]]>, text, and the comments <!--><a>-->, <!---></a>--> (XML mode) / <!---->, <!--- <a>--> '
                         '(HTML mode), compact layout, both modes',
               bound='all forests with 1..%d nodes; every position 0..len(doc)' % nmax,
               rule='a case is one document in one mode; distinct by (tree, mode)', exhaustive=True)
    run_parallel(c, 'bounded.c09', 'check_tiny', _edge_tiny(nmax), chunk=100)
    c.done()
    out.append(c)
    return out
