"""Edge-shape tree generator for C09: node shapes the statement covers and c09_gen.random_tree never emits.

The trees use the node kinds of c09_gen (rendered, with the ground-truth record, by c09_gen.render -- unchanged):

 * SELF-CLOSED elements with a special name: ['self', 'script' | 'style', attrs]  ->  `<script src="a.js"/>`,
   `<style/>`, `<script type="text/javascript" />`.  The statement lists "self-closing tags" without any exception
   for names; a self-closed element has no body, so nothing after it is a "script/style body".  (c09_gen only
   emits script/style as paired elements with a body.)
 * comments / CDATA sections whose TEXT is composed from pieces (not taken from a fixed list), so that the text may
   begin or end with characters of the delimiters: `<!-->...-->`, `<!--->...-->`, `<!---->`, `<!-- - -->`,
   `<![CDATA[]]]>`, `<![CDATA[>...]]>`, `<![CDATA[]>...]]>`.  Every text contains markup-like pieces.
   What counts as a well-formed comment is taken from the language definitions, not from the code:
     XML  (mode {'xml': True}): '<!--' text '-->' where text has no '--' and does not end with '-'
                                (XML 1.0, production [15]); a text starting with '>' or '->' is legal;
     HTML (default mode):       text must not start with '>' or '->', must not contain '<!--', '-->', '--!>' and
                                must not end with '<!-' (HTML LS 13.1.6); '--' inside is legal.
   CDATA: '<![CDATA[' text ']]>' where text has no ']]>' (both).
   In both cases the section ends at the first terminator after the opening delimiter, which is the one the
   generator wrote.

The rest of the vocabulary (paired / void / ordinary self-closed elements, paired script/style with markup-like
bodies, text, PIs, attributes) is borrowed from c09_gen so that the new shapes occur next to, before and inside
everything else.
"""
import random

from . import c09_gen as G

COMMENT_PIECES = ['>', '->', '-', ' ', 'x', '<b>', '</b>', '<i/>', '<p class="x">', '</div>', '</a>', '<br>',
                  '<a href="#">t</a>', '<script>', '</script>', '<style/>', '<li>', ' - ', '<!', '!>', ']]>', '?>',
                  '[if IE]>', '<![endif]', "'", '"', '--', '=', '\n', '<ns:tag k="v">', '</ns:tag>']
CDATA_PIECES = [']', ']]', '>', ']>', ' ', 'x', '<b>', '</b>', '<i/>', '<p class="x">', '</div>', '</a>', '<br>',
                '<script>', '</style>', '<![CDATA[', '-->', '<!--', '?>', "'", '"', '[', '\n']
MARKUP_PIECES = ['<b>', '</b>', '<i/>', '<p class="x">', '</div>', '</a>', '<br>', '<li>', '<a href="#">t</a>']


def comment_text_ok(text, xml):
    """is '<!--' + text + '-->' a well-formed comment of the language (see module docstring)"""
    if (text + '-->').find('-->') != len(text):
        return False
    if xml:
        return '--' not in text and not text.endswith('-')
    return not (text.startswith('>') or text.startswith('->') or '<!--' in text or '--!>' in text or text.endswith('<!-'))


def cdata_text_ok(text):
    return (text + ']]>').find(']]>') == len(text)


def _compose(rng, pieces, lead, ok):
    """text = [lead piece] + 0..4 pieces, with at least one markup-like piece in two of three texts"""
    for _ in range(40):
        parts = []
        if lead and rng.random() < 0.45:
            parts.append(rng.choice(lead))
        for _ in range(rng.randint(0, 4)):
            parts.append(rng.choice(pieces))
        if rng.random() < 0.66:
            parts.insert(rng.randint(min(1, len(parts)), len(parts)), rng.choice(MARKUP_PIECES))
        if rng.random() < 0.3:
            parts.append(rng.choice(['-', ' ', ']', '>', 'x']))
        text = ''.join(parts)
        if ok(text):
            return text
    return ' x '


def comment_node(rng, xml):
    lead = ['>', '->', '>', '->', '-', ' '] if xml else ['-', ' ', '[if IE]>', '!', '<']
    return ['comment', '<!--' + _compose(rng, COMMENT_PIECES, lead, lambda t: comment_text_ok(t, xml)) + '-->']


def cdata_node(rng):
    return ['cdata', '<![CDATA[' + _compose(rng, CDATA_PIECES, [']', '>', ']>', ']]', '['], cdata_text_ok) + ']]>']


def self_special_node(rng):
    if rng.random() < 0.55:
        return ['self', 'script', rng.choice(G.SCRIPT_ATTRS)]
    return ['self', 'style', rng.choice(G.STYLE_ATTRS)]


def _forest(rng, n, depth, xml):
    out = []
    while n > 0:
        r = rng.random()
        if r < 0.40 and depth < 6:
            k = rng.randint(0, n - 1)
            name = rng.choice(G.NAMES)
            if xml and rng.random() < 0.2:
                name = rng.choice(G.VOID)
            out.append(['pair', name, G._attrs(rng, xml), _forest(rng, k, depth + 1, xml)])
            n -= 1 + k
            continue
        n -= 1
        if r < 0.54:
            out.append(self_special_node(rng))
        elif r < 0.60:
            if rng.random() < 0.6:
                out.append(['special', 'script', rng.choice(G.SCRIPT_ATTRS), rng.choice(G.SCRIPT_BODIES)])
            else:
                out.append(['special', 'style', rng.choice(G.STYLE_ATTRS), rng.choice(G.STYLE_BODIES)])
        elif r < 0.76:
            out.append(comment_node(rng, xml))
        elif r < 0.83:
            out.append(cdata_node(rng))
        elif r < 0.89:
            if xml or rng.random() < 0.5:
                out.append(['self', rng.choice(G.NAMES + G.VOID[:4]), G._attrs(rng, xml)])
            else:
                out.append(['void', rng.choice(G.VOID), G._attrs(rng, xml)])
        elif r < 0.97:
            out.append(['text', rng.choice(G.TEXTS)])
        else:
            out.append(['pi', rng.choice(G.PIS)])
    return out


def generate(seed, index, max_nodes, xml):
    rng = random.Random((seed * 1000003 + index) * 2 + (1 if xml else 0) + 7919 * 1000003)
    tree = _forest(rng, rng.randint(1, max_nodes), 0, xml)
    return G.render(tree, rng)


# ------------------------------------------------------------------------------------------------
# a small exhaustive family over the new leaves

def edge_leaves(xml):
    leaves = [['self', 'style', []], ['self', 'script', [['src', 'dq', 'a.js']]], ['special', 'script', [], '<a>'],
              ['cdata', '<![CDATA[]<a>]]]>'], ['text', 't']]
    if xml:
        leaves += [['comment', '<!--><a>-->'], ['comment', '<!---></a>-->']]
    else:
        leaves += [['comment', '<!---->'], ['comment', '<!--- <a>-->']]       # empty comment; text '- <a>'
    return leaves


def edge_forests(n, xml):
    """all forests with exactly n nodes over edge_leaves and the paired element <a>"""
    if n == 0:
        yield []
        return
    for leaf in edge_leaves(xml):
        for rest in edge_forests(n - 1, xml):
            yield [leaf] + rest
    for k in range(0, n):
        for body in edge_forests(k, xml):
            for rest in edge_forests(n - 1 - k, xml):
                yield [['pair', 'a', [], body]] + rest
