"""Ground-truth HTML/XML document generator for C09 (html_matcher) and C17 (action_utils.html).

A document is rendered FROM a random (or enumerated) tree; while the text is emitted the generator records
where every element, tag, attribute name, attribute value and class token lies.  The record -- never the
implementation -- is the oracle of the checks in c09.py / c17.py.

Tree nodes (plain JSON-able lists):
    ['pair', name, [attr...], [children...]]      <name ...>children</name>
    ['self', name, [attr...]]                     <name .../>
    ['void', name, [attr...]]                     <name ...>            (HTML mode only: img, br, input ...)
    ['special', name, [attr...], body]            <script ...>body</script>, <style ...>body</style>
    ['text', s] ['comment', s] ['cdata', s] ['pi', s]      s is the complete source text of the node
attr: [name, style, value]   style: 'bool' | 'dq' | 'sq' | 'unq' | 'expr'; value is the text between the quotes /
      the unquoted text / the complete `{...}` expression
"""
import random

VOID = ['img', 'br', 'input', 'hr', 'meta', 'link', 'col', 'wbr', 'source', 'area', 'base', 'embed', 'param', 'track']
NAMES = ['div', 'span', 'p', 'a', 'ul', 'li', 'b', 'i', 'h1', 'section', 'td', 'my-el', 'ns:tag', 'x_y', 'Foo', 'svg',
         'brx', 'imgs', 'scripts', 'styled', 'link-x', 'A', 'v1.2', 'a', 'a', 'div', 'div']

ATTR_NAMES = ['id', 'href', 'title', 'data-x', 'xml:lang', 'v-on:click', 'disabled', '_a', 'a.b', 'type', 'alt', 'src']
FANCY_NAMES = ['[ngFor]', '(click)', '*ngIf', '#ref', '[attr.x]']
BOOL_ONLY_NAMES = ['{...props}', '{...{a: "}"}}']

QUOTED_VALUES = ['x', 'foo bar', '/path/to', 'a>b', '>', '/>', 'a/', '', 'http://x.y/z?a=1&b=2', '{x}', 'a=b',
                 ' lead', 'trail ', '-->', ']]>', '?>', 'a > b / c', '&lt;b&gt;', '1']
QUOTED_HTML_ONLY = ['</p>', '<b>', '<br/>', '<!-- x', '<script>', 'a<b']
UNQUOTED_VALUES = ['x', 'foo', '42', '#top', 'a.b', 'x:y', '100%', 'a-b_c', 'v&w', 'b', '0']
EXPR_VALUES = ['{x}', '{a > b}', '{x/y}', '{() => <b>{t}</b>}', '{"}"}', "{'>'}", '{{a: 1, b: "/"}}', '{fn(a, "x>y")}',
               '{a && b / c}', '{}', '{ x }', '{a ? "/>" : \'</a>\'}']
CLASS_TOKENS = ['a', 'btn', 'btn-primary', 'x_1', 'is:on', 'w-1/2', 'b', 'c']

TEXTS = ['text', 'a > b', 'x / y', "it's", '"q"', '&lt;b&gt;', ' ', '\n  ', 'a=b {c}', ']]>', '-->', '?>', '1 &amp; 2', 't']
COMMENTS = [' <b> ', ' </a> ', ' <div class="x"> ', ' a -- b ', " it's ", ' <!-- nested ', ' <br/> ', ' <script> ', ' > ',
            ' </div></div> ', 'x', ' <img> "']
CDATAS = ['<b>', ' </a> ', 'x ]] y', '<a href="x">', "'", 'a > b', '<br/>', '</div>', '']
PIS = ['<?xml version="1.0" encoding="UTF-8"?>', '<?php echo "<b>"; ?>', "<?php if ($a > 0) { print '</div>'; } ?>",
       '<?= $x ?>', '<?xml-stylesheet href="a.css"?>', '<?php /* <a> */ ?>', '<?php echo "</a>" ?>']
SCRIPT_BODIES = ['', 'var a = "<b>";', 'if (a<b && c>d) {}', 'document.write("<div></div>");', "x = '</b>' + \"<i>\";",
                 '<!-- <p> -->', '</scripts>', "it's <a>", 'a </ b', '<br/>', '</style>', '<div>', '</div>', '<script>']
STYLE_BODIES = ['', 'a > b { color: red; }', 'p:after { content: "<b>"; }', '/* <i> */', '</script>', '<br>', '</div>',
                '<style>', '</styles>']
SCRIPT_ATTRS = [[], [], [['type', 'dq', 'text/javascript']], [['src', 'dq', 'a.js']], [['type', 'sq', 'javascript'], ['defer', 'bool', None]],
                [['async', 'bool', None]], [['type', 'unq', 'javascript']], [['type', 'dq', '']]]
STYLE_ATTRS = [[], [], [['type', 'dq', 'text/css']], [['media', 'dq', 'screen']], [['scoped', 'bool', None]]]


# ------------------------------------------------------------------------------------------------
# random trees

def _class_value(rng):
    n = rng.choice([0, 1, 1, 2, 2, 3])
    toks = [rng.choice(CLASS_TOKENS) for _ in range(n)]
    s = rng.choice(['', '', '', ' ', '  ', '\n'])
    for i, t in enumerate(toks):
        if i:
            s += rng.choice([' ', ' ', ' ', '  ', '\t', '\n  '])
        s += t
    s += rng.choice(['', '', '', ' ', '  '])
    return s


def _attr(rng, xml):
    r = rng.random()
    if r < 0.22:
        # class attribute
        st = rng.choice(['dq', 'dq', 'sq']) if xml else rng.choice(['dq', 'dq', 'dq', 'sq', 'unq'])
        if st == 'unq':
            return ['class', 'unq', rng.choice([t for t in CLASS_TOKENS if '/' not in t])]
        return ['class', st, _class_value(rng)]
    if not xml and r < 0.27:
        return [rng.choice(BOOL_ONLY_NAMES), 'bool', None]
    name = rng.choice(ATTR_NAMES)
    if not xml and rng.random() < 0.15:
        name = rng.choice(FANCY_NAMES)
    st = rng.choice(['dq', 'dq', 'sq']) if xml else rng.choice(['dq', 'dq', 'dq', 'sq', 'sq', 'unq', 'unq', 'expr', 'expr', 'bool'])
    if st == 'bool':
        return [name, 'bool', None]
    if st == 'unq':
        return [name, 'unq', rng.choice(UNQUOTED_VALUES)]
    if st == 'expr':
        return [name, 'expr', rng.choice(EXPR_VALUES)]
    v = rng.choice(QUOTED_VALUES + ([] if xml else QUOTED_HTML_ONLY))
    if rng.random() < 0.15:
        v += ' ' + rng.choice(QUOTED_VALUES)
    if rng.random() < 0.1:
        v += '"' if st == 'sq' else "'"
    return [name, st, v]


def _attrs(rng, xml):
    n = rng.choice([0, 0, 0, 0, 1, 1, 1, 2, 2, 3])
    return [_attr(rng, xml) for _ in range(n)]


def _forest(rng, n, depth, xml):
    """a list of nodes using exactly n nodes"""
    out = []
    while n > 0:
        r = rng.random()
        if r < 0.42 and depth < 8:
            k = rng.randint(0, n - 1)
            name = rng.choice(NAMES)
            if xml and rng.random() < 0.3:
                name = rng.choice(VOID)         # in XML mode void names are ordinary: they need a close tag
            out.append(['pair', name, _attrs(rng, xml), _forest(rng, k, depth + 1, xml)])
            n -= 1 + k
            continue
        n -= 1
        if r < 0.52:
            name = rng.choice(NAMES + VOID[:4])
            out.append(['self', name, _attrs(rng, xml)])
        elif r < 0.66:
            if xml:
                out.append(['self', rng.choice(VOID), _attrs(rng, xml)])
            else:
                out.append(['void', rng.choice(VOID), _attrs(rng, xml)])
        elif r < 0.73:
            if rng.random() < 0.6:
                out.append(['special', 'script', rng.choice(SCRIPT_ATTRS), rng.choice(SCRIPT_BODIES)])
            else:
                out.append(['special', 'style', rng.choice(STYLE_ATTRS), rng.choice(STYLE_BODIES)])
        elif r < 0.83:
            out.append(['text', rng.choice(TEXTS)])
        elif r < 0.91:
            out.append(['comment', '<!--' + rng.choice(COMMENTS) + '-->'])
        elif r < 0.96:
            out.append(['cdata', '<![CDATA[' + rng.choice(CDATAS) + ']]>'])
        else:
            out.append(['pi', rng.choice(PIS)])
    return out


def random_tree(rng, max_nodes, xml):
    return _forest(rng, rng.randint(1, max_nodes), 0, xml)


# ------------------------------------------------------------------------------------------------
# rendering with ground truth

class Doc:
    """doc: text; elements: dicts in document order; tags: every open / self-closing / close tag in document order"""

    def __init__(self):
        self.doc = ''
        self.elements = []
        self.tags = []
        self.roots = []


def render(tree, rng=None):
    """rng=None: compact layout (one space before every attribute, nothing else)"""
    parts = []
    pos = [0]
    d = Doc()

    def emit(s):
        st = pos[0]
        parts.append(s)
        pos[0] += len(s)
        return (st, pos[0])

    def open_tag(name, attrs, selfclose, el):
        start = pos[0]
        emit('<' + name)
        recs = []
        last_style = None
        for a in attrs:
            aname, style, value = a
            emit(' ' if rng is None else rng.choice([' ', ' ', ' ', '  ', '\n  ', '\t']))
            rec = {'name': aname, 'style': style, 'raw': None, 'value': None, 'inner': None, 'tokens': []}
            rec['name_range'] = emit(aname)
            if style != 'bool':
                emit('=')
                if style == 'dq':
                    raw = '"' + value + '"'
                elif style == 'sq':
                    raw = "'" + value + "'"
                else:
                    raw = value
                rec['raw'] = raw
                rec['value'] = emit(raw)
                vs, ve = rec['value']
                rec['inner'] = (vs + 1, ve - 1) if style in ('dq', 'sq', 'expr') else (vs, ve)
                if aname == 'class':
                    # class tokens: maximal runs of non-whitespace inside the unquoted value
                    s, e = rec['inner']
                    text = raw[(s - vs):(e - vs)]
                    j = 0
                    while j < len(text):
                        if text[j] in ' \t\n\r':
                            j += 1
                            continue
                        k = j
                        while k < len(text) and text[k] not in ' \t\n\r':
                            k += 1
                        rec['tokens'].append((s + j, s + k))
                        j = k
            recs.append(rec)
            last_style = style
        if selfclose:
            if last_style == 'unq':
                emit(' ')       # `<a b=c/>` would be ambiguous (HTML: value `c/`)
            elif rng is not None and rng.random() < 0.4:
                emit(' ')
            emit('/>')
        else:
            if rng is not None and rng.random() < 0.15:
                emit(rng.choice([' ', '\n']))
            emit('>')
        rng_ = (start, pos[0])
        d.tags.append({'type': 'self' if selfclose else 'open', 'name': name, 'start': start, 'end': pos[0],
                       'attrs': recs, 'element': el['id']})
        el['attrs'] = recs
        return rng_

    def close_tag(name, el):
        r = emit('</' + name + '>')
        d.tags.append({'type': 'close', 'name': name, 'start': r[0], 'end': r[1], 'attrs': [], 'element': el['id']})
        return r

    def nodes(lst, parent):
        for node in lst:
            if rng is not None and rng.random() < 0.25:
                emit(rng.choice(['\n', ' ', '\n    ', '\t']))
            kind = node[0]
            if kind in ('text', 'comment', 'cdata', 'pi'):
                emit(node[1])
                continue
            el = {'id': len(d.elements), 'name': node[1], 'kind': kind, 'parent': parent, 'children': [], 'close': None}
            d.elements.append(el)
            (d.roots if parent is None else d.elements[parent]['children']).append(el['id'])
            if kind == 'pair':
                el['open'] = open_tag(node[1], node[2], False, el)
                nodes(node[3], el['id'])
                if rng is not None and rng.random() < 0.2:
                    emit(rng.choice(['\n', ' ']))
                el['close'] = close_tag(node[1], el)
            elif kind == 'self':
                el['open'] = open_tag(node[1], node[2], True, el)
            elif kind == 'void':
                el['open'] = open_tag(node[1], node[2], False, el)
            else:   # special
                el['open'] = open_tag(node[1], node[2], False, el)
                emit(node[3])
                el['close'] = close_tag(node[1], el)
            el['start'] = el['open'][0]
            el['end'] = (el['close'] or el['open'])[1]

    nodes(tree, None)
    if rng is not None and rng.random() < 0.3:
        emit(rng.choice(['\n', ' ', 'tail']))
    d.doc = ''.join(parts)
    return d


def generate(seed, index, max_nodes, xml):
    rng = random.Random((seed * 1000003 + index) * 2 + (1 if xml else 0))
    tree = random_tree(rng, max_nodes, xml)
    return render(tree, rng)


# ------------------------------------------------------------------------------------------------
# a small exhaustive family

def tiny_leaves(xml):
    leaves = [['self', 'i', []], ['comment', '<!--<a>-->'], ['special', 'style', [], '<a>'], ['text', 't']]
    if xml:
        leaves.append(['pair', 'br', [], []])       # a void name needs its close tag in XML mode
    else:
        leaves.append(['void', 'br', []])
    return leaves


TINY_PAIRS = [['a', []], ['b', [['c', 'dq', '>']]]]


def tiny_forests(n, xml):
    """all forests with exactly n nodes"""
    if n == 0:
        yield []
        return
    for leaf in tiny_leaves(xml):
        for rest in tiny_forests(n - 1, xml):
            yield [leaf] + rest
    for name, attrs in TINY_PAIRS:
        for k in range(0, n):
            for body in tiny_forests(k, xml):
                for rest in tiny_forests(n - 1 - k, xml):
                    yield [['pair', name, attrs, body]] + rest


# ------------------------------------------------------------------------------------------------
# specification helpers (functions of the ground truth only)

def innermost_table(d):
    """inner[p] = id of the innermost element whose range strictly contains p (start < p < end), else None"""
    inner = [None] * (len(d.doc) + 1)
    for el in d.elements:                        # document order: children overwrite their parents
        for p in range(el['start'] + 1, el['end']):
            inner[p] = el['id']
    return inner


def triple(el):
    return (el['name'], tuple(el['open']), tuple(el['close']) if el['close'] else None)


def outward_spec(d, el_id):
    out = []
    while el_id is not None:
        el = d.elements[el_id]
        out.append(triple(el))
        el_id = el['parent']
    return out


def inward_spec(d, el_id):
    out = []
    while el_id is not None:
        el = d.elements[el_id]
        out.append(triple(el))
        el_id = el['children'][0] if el['children'] else None
    return out
