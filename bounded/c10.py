"""C10 bounded stand-in: css_matcher.match / balanced_outward / balanced_inward against generated ground truth.

Stylesheets are rendered from random (and, for a tiny family, all) trees of nested rules and `;`-terminated
declarations by bounded/c10_gen.py, which records where every rule, declaration, name and value lies.  Every
position 0..len(doc) is then checked against that record (never against the implementation):

 * match(): the innermost declaration or rule whose range strictly contains the position (start < pos < end);
   rule = selector start .. closing brace, body between the braces; declaration = name .. terminating
   semicolon, body = the value.
 * balanced_outward(): value, declaration, then (content range, full range) of every enclosing rule, innermost
   to outermost, wherever in the file the position is.
 * balanced_inward(): the item at the position, then its chain of first children.
 * braces / colons / semicolons inside comments, strings, parenthesised expressions never delimit (the
   generator puts them there; the recorded structure ignores them).  Parenthesised expressions are also generated
   from a grammar (nested maps / calls with keyword arguments, clauses css-nested-parens*), string bodies likewise
   (clauses css-string-*).

Positions are partitioned into zones, and generator features into separate clauses, only so that one known
defect does not mask everything else; the oracle is the same everywhere and every position is in some clause.
"""
import json

from .common import Clause, run_parallel
from . import c10_gen as G


def _zones(sheet):
    """zone of every position, from the ground truth only:
    'tail'  : value_end <= pos <= position of the terminating `;` of some declaration
    'after' : pos >= end of the first top-level rule (and not 'tail')
    'main'  : everything else"""
    n = len(sheet.doc)
    first_end = None
    for i in sheet.top:
        if sheet.items[i]['type'] == 'rule':
            first_end = sheet.items[i]['end']
            break
    z = ['main'] * (n + 1)
    if first_end is not None:
        for p in range(first_end, n + 1):
            z[p] = 'after'
    for it in sheet.items:
        if it['type'] == 'decl' and it['semi'] is not None:
            for p in range(it['value'][1], it['semi'] + 1):
                z[p] = 'tail'
    return z


def _desc(sheet, item_id):
    if item_id is None:
        return 'nothing'
    it = sheet.items[item_id]
    return '%s %r [%d:%d]' % ('declaration' if it['type'] == 'decl' else 'rule',
                              sheet.doc[it['start']:it['end']][:40], it['start'], it['end'])


def check_sheet(sheet, funcs, zones):
    """funcs: subset of 'moi'; zones: dict func -> set of zone names whose positions are checked.
    Returns None or the first violation."""
    from emmet.css_matcher import match, balanced_outward, balanced_inward
    doc = sheet.doc
    n = len(doc)
    inner = G.innermost_table(sheet)
    zone = _zones(sheet)
    by_range = {(it['start'], it['end']): it['id'] for it in sheet.items}
    starts = {}
    ends = {}
    for it in sheet.items:
        starts[it['start']] = it['id']
        ends[it['end']] = it['id']
    evaluated = 0
    for pos in range(0, n + 1):
        z = zone[pos]
        x = inner[pos]
        if 'm' in funcs and z in zones['m']:
            evaluated += 1
            m = match(doc, pos)
            if x is None:
                if m is not None:
                    return 'match(%r, %d) = %r but no rule or declaration strictly contains the position' % (doc, pos, m.to_json())
            else:
                it = sheet.items[x]
                if it['type'] == 'decl':
                    exp = {'type': 'property', 'start': it['start'], 'end': it['end'],
                           'body_start': it['value'][0], 'body_end': it['value'][1]}
                else:
                    exp = {'type': 'selector', 'start': it['start'], 'end': it['end'],
                           'body_start': it['body'][0], 'body_end': it['body'][1]}
                got = m.to_json() if m is not None else None
                if got != exp:
                    return 'match(%r, %d) = %r, expected %r: the innermost item strictly containing the position is the %s' % (
                        doc, pos, got, exp, _desc(sheet, x))
        if 'o' in funcs and z in zones['o']:
            evaluated += 1
            got = G.collapse(balanced_outward(doc, pos))
            exp = G.outward_spec(sheet, x)
            if got != exp:
                return 'balanced_outward(%r, %d) = %r, expected %r (value, declaration, content+full of every enclosing rule; innermost is the %s)' % (
                    doc, pos, got, exp, _desc(sheet, x))
        if 'i' in funcs and z in zones['i']:
            evaluated += 1
            raw = balanced_inward(doc, pos)
            got = G.collapse(raw)
            if pos in starts or pos in ends:
                # the position touches the boundary of an item: "the item at the position" may be read as the
                # strictly enclosing item or as an item that starts / ends exactly here; any of them is accepted,
                # but the list must be that item followed by its chain of first children
                allowed = {i for i in (x, starts.get(pos), ends.get(pos)) if i is not None}
                if not got:
                    if x is not None:
                        return 'balanced_inward(%r, %d) = [] but the position is strictly inside the %s' % (doc, pos, _desc(sheet, x))
                else:
                    head = by_range.get(got[0])
                    if head is None or head not in allowed:
                        return 'balanced_inward(%r, %d) = %r: first range is not an item at the position (candidates: %s)' % (
                            doc, pos, got, ', '.join(_desc(sheet, i) for i in sorted(allowed)) or 'none')
                    exp = G.inward_spec(sheet, head)
                    if got != exp:
                        return 'balanced_inward(%r, %d) = %r, expected %r (the %s followed by its chain of first children)' % (
                            doc, pos, got, exp, _desc(sheet, head))
            else:
                exp = G.inward_spec(sheet, x)
                if got != exp:
                    return 'balanced_inward(%r, %d) = %r, expected %r (the %s followed by its chain of first children)' % (
                        doc, pos, got, exp, _desc(sheet, x))
    return None


_ZONESETS = {
    'main': {'m': {'main', 'after'}, 'o': {'main'}, 'i': {'main', 'after'}},
    'after': {'m': set(), 'o': {'after'}, 'i': set()},
    'tail': {'m': {'tail'}, 'o': {'tail'}, 'i': {'tail'}},
    'all': {'m': {'main', 'after', 'tail'}, 'o': {'main', 'after', 'tail'}, 'i': {'main', 'after', 'tail'}},
}


def check_random(seed, index, max_nodes, feats, zoneset):
    """one random stylesheet, all positions of the zone set"""
    sheet = G.generate(seed, index, max_nodes, feats)
    return check_sheet(sheet, 'moi', _ZONESETS[zoneset])


def check_tiny(tree_json, zoneset):
    """one enumerated tiny stylesheet in its compact layout"""
    sheet = G.render(json.loads(tree_json))
    return check_sheet(sheet, 'moi', _ZONESETS[zoneset])


def check_string(quote, pieces, place):
    """one stylesheet of the systematic string family: the literal `quote + pieces + quote` at `place`, compact layout,
    every position, all three functions"""
    alpha = G.string_alphabet(quote)
    sheet = G.render(G.string_tree(quote, ''.join(alpha[k] for k in pieces), place))
    return check_sheet(sheet, 'moi', _ZONESETS['all'])


NEST_STYLES = [(':', ','), (': ', ', ')]     # spelling of `key: val` and of the entry separator


def check_nested(expr_json, style, place):
    """one stylesheet of the systematic nested-parentheses family: the expression tree (c10_gen.nest_text) written in
    NEST_STYLES[style] at `place` (c10_gen.NEST_PLACES), compact layout, every position, all three functions"""
    tree = json.loads(expr_json)
    colon, comma = NEST_STYLES[style]
    text = G.nest_text(tree, colon, comma)
    # domain guard (the record treats the expression as an opaque part of one value / selector token, which is what the
    # statement says as long as it is balanced and free of the characters the known findings P / L are about)
    depth = 0
    for ch in text:
        depth += (ch == '(') - (ch == ')')
        assert depth >= 0 and ch not in ';{}"\'/\\', text
    assert depth == 0 and text.startswith('(') and text.endswith(')'), text
    sheet = G.render(G.nest_sheet_tree(text, place))
    return check_sheet(sheet, 'moi', _ZONESETS['all'])


def _nests(specs):
    """specs: (depth, width, calls, style, places) -> cases (expr_json, style, place) over c10_gen.nest_family"""
    seen = set()
    for depth, width, calls, style, places in specs:
        for place in places:
            for tree in G.nest_family(depth, width, calls):
                case = (json.dumps(tree, separators=(',', ':')), style, place)
                if case not in seen:        # overlapping specs (depth 3 width 1 contains depth 2 width 1)
                    seen.add(case)
                    yield case


def _strings(maxlen_main, maxlen_other):
    for place in sorted(G.STRING_PLACES):
        maxlen = maxlen_main if place in ('value', 'attr') else maxlen_other
        for q in G.QUOTES:
            for ix, _txt in G.string_bodies(q, maxlen):
                yield (q, ix, place)


def _tiny(nmax):
    for n in range(1, nmax + 1):
        for f in G.tiny_forests(n):
            yield (json.dumps(f), 'main')


PROBE_SEED = 424242      # the probe families do not depend on the run seed or the tier: their violation keys are stable
PROBE_COUNT = 30
PROBE_SIZE = 10

# name, generator features, zone set, description
DEFECT_AREAS = [
    ('css-outward-later-rules', '', 'after',
     'balanced_outward at positions after the first top-level rule closed'),
    ('css-declaration-tail', '', 'tail',
     'match / outward / inward at positions between the end of a value and its terminating semicolon (inclusive)'),
    ('css-paren-delimiters', 'P', 'main',
     'parenthesised expressions contain `;`, `{`, `}` (url(data:..;base64,..), #{..} inside parentheses); zones as css-tree'),
    ('css-leading-colon', 'L', 'main',
     'selectors that start with a colon (:root, ::selection, nested :hover); zones as css-tree'),
]


def run(tier, seed):
    quick = tier == 'quick'
    ntrees, size = (300, 12) if quick else (3000, 40)
    nsmall = 150 if quick else 750
    out = []

    def rnd(name, feats, zoneset, count, sz, what, sd):
        c = Clause(name, 'B',
                   generator='bounded/c10_gen.py: stylesheet rendered from a random tree (seed %d) of nested rules, `;`-terminated '
                             'declarations and comments, random layout; features %r; %s' % (sd, feats, what),
                   bound='%d trees of <= %d nodes, >= 2 top-level rules, nesting depth <= 6; every position 0..len(doc) of the zone' % (count, sz),
                   rule='a case is one generated stylesheet (match, balanced_outward, balanced_inward at every position of the '
                        'zone against the generator record); distinct by (seed, index, size, features)', exhaustive=False)
        run_parallel(c, 'bounded.c10', 'check_random',
                     ((sd, i, sz, feats, zoneset) for i in range(count)), chunk=max(1, count // 56))
        c.done()
        out.append(c)
        return c

    rnd('css-tree', '', 'main', ntrees, size,
        'match/inward at all positions except declaration tails, outward at positions up to the end of the first top-level rule', seed)
    # Areas in which the unchanged tree is known to contradict the statement (notes/C10.md): a small probe family with
    # a fixed seed first (same cases in every tier and for every run seed, all violations recorded); the large random
    # family of the area is run only if its probe family passes -- otherwise it would merely repeat the same finding
    # hundreds of times under run-dependent keys.
    for name, feats, zoneset, what in DEFECT_AREAS:
        probe = rnd(name + '-probe', feats, zoneset, PROBE_COUNT, PROBE_SIZE, what + ' [fixed probe family]', PROBE_SEED)
        if not probe.violations:
            rnd(name, feats, zoneset, ntrees if not feats else nsmall, size, what, seed)

    # String literals whose body holds the other kind of quote, escaped quotes, delimiters (notes/C10.md, "Strings").
    rnd('css-string-quotes', 'Q', 'all', 150 if quick else 1500, size,
        'string literals with generated bodies (other kind of quote, escaped quotes / backslashes, `{ } ; :`, parentheses, '
        'comment markers) as value tokens, inside url()/fn()/maps, in attribute selectors and at-rule arguments; all zones', seed)
    lmain, lother = (3, 2) if quick else (4, 3)
    c = Clause('css-string-exhaustive', 'B',
               generator='`<sel>{b:<value>;c:d;e{f:g;}}h{i:j;}` (compact) with one string literal: either quote kind, body = every '
                         'sequence over [other quote, `{`, `}`, `;`, `:`, escaped own quote, `x`]; places %r' % sorted(G.STRING_PLACES),
               bound='bodies of 1..%d pieces at places value / attr, 1..%d pieces elsewhere; every position 0..len(doc), all zones' % (lmain, lother),
               rule='a case is one stylesheet; distinct by (quote, piece indices, place)', exhaustive=True)
    run_parallel(c, 'bounded.c10', 'check_string', _strings(lmain, lother), chunk=100)
    c.done()
    out.append(c)

    # Nested parentheses (notes/C10.md, "Nested parentheses"): generated maps of maps / calls with keyword arguments.
    rnd('css-nested-parens', 'N', 'all', 64 if quick else 500, 8 if quick else 24,
        'generated nested parenthesised expressions (depth 1..4: maps of maps, calls with keyword and parenthesised '
        'arguments; colons, commas, blanks, new-lines only) as value tokens and in at-rule preludes / functional '
        'pseudo-classes; all zones', seed)
    others = sorted(p for p in G.NEST_PLACES if p != 'first')
    if quick:
        specs = [(2, 2, True, 0, ['first']), (2, 2, False, 0, others), (2, 2, False, 1, ['top'])]
    else:
        specs = [(2, 2, True, 0, sorted(G.NEST_PLACES)), (2, 2, True, 1, sorted(G.NEST_PLACES)),
                 (2, 3, False, 0, ['first']), (3, 1, True, 0, sorted(G.NEST_PLACES))]
    c = Clause('css-nested-parens-exhaustive', 'B',
               generator='`<sel>{<name>:<value>;c:d;e{f:g;}}h{i:j;}` (compact; places `top` / `inner`: the declaration between two '
                         'top-level rules / in the nested rule) with one parenthesised expression E: every group tree of depth <= d '
                         'with 1..w entries per group, entry = `k:`-keyed or positional, value = `1`, a bare sub-group or a '
                         'sub-group named `f`; spelling %r; places %r' % (NEST_STYLES, sorted(G.NEST_PLACES)),
               bound='(depth, width, named sub-groups, spelling, places) = %r; every position 0..len(doc), all zones' % (specs,),
               rule='a case is one stylesheet; distinct by (expression tree, spelling, place)', exhaustive=True)
    run_parallel(c, 'bounded.c10', 'check_nested', _nests(specs), chunk=60)
    c.done()
    out.append(c)

    nmax = 4 if quick else 5
    c = Clause('css-tiny-exhaustive', 'B',
               generator='every forest over rules %r and leaves %r in the compact layout' % (G.TINY_RULES, [t[1] for t in G.TINY_LEAVES]),
               bound='all forests with 1..%d nodes; every position 0..len(doc) (zones as in css-tree)' % nmax,
               rule='a case is one stylesheet; distinct by tree', exhaustive=True)
    run_parallel(c, 'bounded.c10', 'check_tiny', _tiny(nmax), chunk=400)
    c.done()
    out.append(c)
    return out
