"""Ground-truth stylesheet generator for C10 (css_matcher) and C17 (action_utils.css).

A stylesheet is rendered FROM a random (or enumerated) tree of nested rules and declarations; while the
text is emitted the generator records where every rule, selector, declaration, name, value and value
token lies.  The record -- never the implementation -- is the oracle of the checks in c10.py / c17.py.

Tree nodes (plain JSON-able lists, so that a tiny family can be enumerated and passed as arguments):
    ['rule', selector_text, [children...]]     children: rule / decl / comment nodes
    ['decl', name_text, [token, token, ...], [separator, ...]]
    ['comment', text]

Feature flags (string of letters) for `random_tree`:
    'P'  parenthesised expressions may contain `;`, `{`, `}` (e.g. url(data:image/png;base64,AA), #{$x} inside parens)
    'L'  selectors may start with a colon (`:root`, `::selection`, nested `:hover`)
    'U'  the last declaration of a rule body may be terminated by the end of the body instead of `;` (C17 only)
    'V'  no comments inside values and selectors (C17: value-token / selector ground truth stays unambiguous)
    'Q'  string literals with generated bodies: the *other* kind of quote (`"it's }"`, `'say "{'`), escaped quotes
         and backslashes, `{ } ; :`, parentheses and comment markers inside the string -- as value tokens (bare, in
         url(..) / fn(..) / maps) and in selectors (attribute selectors, :not([..]), parenthesised at-rule arguments)
    'N'  nested parenthesised expressions (generated, depth 1..4): SCSS maps of maps, function calls with keyword
         arguments and parenthesised arguments, arithmetic groups -- holding colons, commas, blanks and new-lines only
         (never `;`, `{`, `}`, never a string) -- as value tokens and in at-rule preludes / functional pseudo-classes
"""
import random

SPACE = ' \t\n\r\xa0'

SELECTORS = [
    'a', 'ul li', '.cls', '#id', '.a.b', 'ul > li', 'h1 + p', 'a ~ b', '*', 'a:hover', 'a:not(.b)',
    'a:not(:hover)', 'li:nth-child(2n+1)', 'a::before', '&:hover', '&::after', '&-mod', '& > .x', 'a[href]',
    'a[href^="http://x"]', 'input[type="text"]:focus', 'a[title="}{;:"]', "a[data-x='{']", 'a:hover:focus',
    'td:first-child a', '.btn.btn-primary:active',
]
AT_RULES = [
    '@media screen', '@media screen and (min-width: 900px)', '@media (min-width: 10px) and (max-width: 20px)',
    '@supports (display: grid)', '@supports not (display:grid)', '@include mq($from: mobile)', '@font-face',
    '@keyframes spin', 'from', '50%', '@mixin m($a: 10px)', '@each $i in (a, b)', '@if $a == b', '@else',
    '@media print',
]
LEAD_COLON = [':root', '::selection', ':hover', ':not(.a)', '::-webkit-scrollbar', ':first-child > a', '::before']
PAREN_SELECTORS = ['@media (min-width: #{$bp})', 'a:not(#{$sel})', '@include x((a: {b}))', '@include y(";", {z;})',
                   '@media (x: {) and (y: })', 'a:is(b;c)']

DECL_NAMES = ['color', 'margin', 'margin-top', 'background', 'font', '-webkit-transition', '$var', '$a-b',
              '--main-color', '--x', '@less-var', 'grid-template-areas', 'content', 'w', 'border-left-width']
TOP_DECL_NAMES = ['$var', '$a-b', '@less-var', '$map']

TOKENS = [
    '10px', '0', '1.5em', '-1px', '.5', '100%', '#fff', '#0066cc', 'red', 'solid', 'no-repeat', 'inherit', '$var',
    '@v', 'var(--x)', 'var(--x, 10px)', 'rgba(0, 0, 0, .5)', 'calc(100% - 10px)', 'calc((1 + 2) * 3px)',
    'url(a.png)', 'url("a;b{c}.png")', 'url(http://x.com/i.png)', '"str"', '"a;b"', '"}"', "'{'", '"a\\"b;"',
    '"Helvetica Neue"', "':'", '(a: 1, b: 2)', 'translate(10px, 20px)', 'attr(data-x)', 'x', 'auto', '2',
    'fn("(", 1)', "'it\\'s;'",
]
PAREN_TOKENS = ['url(data:image/png;base64,AAA=)', 'fn({a})', 'calc(#{$a} + 1px)', 'map((k: {v;}))', 'f(;)', 'g(})',
                'h({)', 'url(data:image/svg+xml;utf8,<svg/>)']
SEPARATORS = [' ', ' ', ' ', ', ', ',', '  ', ' / ', '/', ',\n    ']
VALUE_COMMENTS = [' /* ; */ ', ' /* } */ ', ' /*{*/ ', ' /* a: b */ ']
COMMENTS = ['/* c */', '/* { */', '/* } */', '/* a: b; */', '/* a { b: c; } */', '/**/', '/***/', '/* **/',
            '/* "q */', "/* it's */", '/* ; */', '/* x */ /* } */']
SEL_COMMENTS = [' /* { */ ', ' /* ; */ ', ' /* } */ ', ' /* a:b */ ']


# ------------------------------------------------------------------------------------------------
# string literals (feature 'Q')

QUOTES = '"\''
STRING_WORDS = ['it', 's', 'say', 'x', ' ', 'a b', ', ', 'http', '//', '#', '=', '\\n', '@']
# wrappers of a string literal S: value tokens and selectors
QUOTED_TOKENS = ['%s', '%s', '%s', 'url(%s)', 'fn(%s, 1)', 'format(%s)', '(a: %s, b: 2)', 'f(1, %s)', 'attr(%s)']
QUOTED_SELECTORS = ['a[title=%s]', '[data-x=%s]', 'a[href^=%s] b', 'a:not([x=%s])', 'input[value=%s]:focus',
                    '.c[d~=%s], e', '&[lang|=%s]', 'q[a=%s][b=%s]', '@include mq(%s)', '@supports (content: %s)',
                    '@include x(%s, 1)', 'p:lang(%s)']


def other_quote(q):
    return "'" if q == '"' else '"'


def qstring(rng):
    """a single-line string literal; its body is a random sequence of: the other kind of quote, `{ } ; :`, the own
    quote escaped, an escaped backslash, the other quote escaped, parentheses, comment markers, harmless text"""
    q = rng.choice(QUOTES)
    o = other_quote(q)
    body = []
    for _ in range(rng.choice([1, 2, 2, 3, 3, 4, 5])):
        r = rng.random()
        if r < 0.30:
            body.append(o)
        elif r < 0.60:
            body.append(rng.choice('{};:'))
        elif r < 0.68:
            body.append('\\' + q)
        elif r < 0.72:
            body.append('\\\\')
        elif r < 0.75:
            body.append('\\' + o)
        elif r < 0.82:
            body.append(rng.choice(['(', ')', '/*', '*/']))
        else:
            body.append(rng.choice(STRING_WORDS))
    return q + ''.join(body) + q


def _fill(rng, pattern):
    return pattern % tuple(qstring(rng) for _ in range(pattern.count('%s')))


# ------------------------------------------------------------------------------------------------
# nested parenthesised expressions (feature 'N')
#
# An expression is a JSON-able tree:   group = ['g', fname, [entry, ...]]    entry = [key, val]
#   fname : '' (a bare group `( .. )`, e.g. an SCSS map) or a function name (`fn( .. )`)
#   key   : '' (positional entry) or a key text (`key: val`)
#   val   : an atom text or a group
# nest_text() writes it with a given colon / comma spelling.  Only letters, digits, `$ # % . - + * _`, blanks,
# new-lines, `:`, `,`, `(`, `)` occur: nothing that the recorded known findings KF-C10-P / KF-C10-L depend on.

NEST_ATOMS = ['0', '1', '10px', '1.5em', '50%', '$x', 'sm', 'md', 'red', '#fff', '-1px', 'a-b', '1px solid', '2 * 4px',
              '100% - 2px', '$a + 1']
NEST_KEYS = ['a', 'sm', 'min', 'k', '$from', 'min-width', 'w2', '$a-b', 'x_y']
NEST_FUNCS = ['fn', 'map-get', 'calc', 'rgba', 'm.get', 'min', 'if']
NEST_COLONS = [': ', ': ', ':', ' : ', ':  ']
NEST_COMMAS = [', ', ', ', ',', ' , ', ',\n    ']
# wrappers of a nested expression E: value tokens ...
NESTED_TOKENS = ['%s', '%s', '%s', 'fn(%s)', 'map-merge($m, %s)', 'f(1, %s, k: 2)', 'map-get(%s, sm)', 'g(%s, %s)',
                 'calc(1px + %s)']
# ... and rule preludes (a selector never starts with a colon here)
NESTED_SELECTORS = ['@include mq(%s)', '@include m($a: %s, $b: 1)', '@media %s and (c: d)', '@media screen and %s',
                    '@supports (a: b) and ((c: d) or %s)', '@mixin m($map: %s, $n: 1)', '@each $k, $v in %s',
                    'a:not(:is(.b):hover)', 'li:nth-child(2n+1 of :not(.x):focus) a', 'a:is(b:not(c:hover), d:focus)',
                    '@if map-get(%s, k) == (1)', '&:not(%s)', '@function f($p: %s)', 'a:where(:not(b), c:d) e:f']


def nest_tree(rng, depth, named=None):
    """a random group with nesting depth <= depth (>= 1)"""
    if named is None:
        named = rng.random() < 0.3
    entries = []
    for _ in range(rng.choice([1, 2, 2, 3, 3, 4] if depth < 2 else [1, 2, 2, 3])):
        key = rng.choice(NEST_KEYS) if rng.random() < 0.6 else ''
        if depth > 1 and rng.random() < 0.5:
            val = nest_tree(rng, depth - 1)
        else:
            val = rng.choice(NEST_ATOMS)
        entries.append([key, val])
    return ['g', rng.choice(NEST_FUNCS) if named else '', entries]


def nest_text(tree, colon=':', comma=','):
    out = []
    for key, val in tree[2]:
        v = val if isinstance(val, str) else nest_text(val, colon, comma)
        out.append(key + colon + v if key else v)
    return tree[1] + '(' + comma.join(out) + ')'


def nest_depth(tree):
    return 1 + max([nest_depth(v) for _k, v in tree[2] if not isinstance(v, str)] or [0])


NEST_MAXLEN = 70


def nested(rng):
    """text of one random nested expression (depth 1..4, at most NEST_MAXLEN characters: every position of the sheet
    is checked and each check scans the sheet; one level of parentheses is the control group)"""
    while True:
        tree = nest_tree(rng, rng.choice([1, 2, 2, 2, 3, 3, 3, 4]))
        text = nest_text(tree, rng.choice(NEST_COLONS), rng.choice(NEST_COMMAS))
        if len(text) <= NEST_MAXLEN:
            return text


def _nfill(rng, pattern):
    return pattern % tuple(nested(rng) for _ in range(pattern.count('%s')))


def nest_family(depth, width, calls=True):
    """every group tree of nesting depth <= depth with 1..width entries per group over: key `k` or none; value atom
    `1`, a bare sub-group or (calls) a sub-group named `f`.  The outermost group is bare."""
    def groups(d, name):
        vals = ['1']
        if d > 1:
            vals = vals + list(groups(d - 1, ''))
            if calls:
                vals = vals + list(groups(d - 1, 'f'))
        entries = [[k, v] for v in vals for k in ('k', '')]
        level = [[]]
        for _ in range(width):
            level = [es + [e] for es in level for e in entries]
            for es in level:
                yield ['g', name, es]
    return groups(depth, '')


# where the nested expression E is put: place -> (selector of the first rule, name of its first declaration, value tokens
# of that declaration) in `<sel>{<name>:<value>;c:d;e{f:g;}}h{i:j;}`; None: a layout of its own (see nest_sheet_tree)
NEST_PLACES = {
    'first': ('a', '$m', ['%s']),                       # a{$m:E;c:d;e{f:g;}}h{i:j;}
    'prop': ('a', 'b', ['%s']),                         # ordinary property name
    'custom': ('a', '--m', ['%s']),                     # custom property
    'call': ('a', 'b', ['x', 'fn(%s)', 'y']),           # E is an argument, further tokens around
    'top': None,                                        # a{c:d;}$m:E;h{i:j;}   (declaration between two top-level rules)
    'inner': None,                                      # a{c:d;e{$m:E;f:g;}}h{i:j;}   (second level, after a declaration)
    'atrule': ('@include m(%s)', 'b', ['c']),           # E in a rule prelude
    'pseudo': ('a:not(%s) u', 'b', ['c']),
}


def nest_sheet_tree(text, place):
    """the fixed stylesheet of the systematic nested-parentheses family with the expression `text` at `place`"""
    cd = ['decl', 'c', ['d'], []]
    e = ['rule', 'e', [['decl', 'f', ['g'], []]]]
    h = ['rule', 'h', [['decl', 'i', ['j'], []]]]
    if place == 'top':
        return [['rule', 'a', [cd]], ['decl', '$m', [text], []], h]
    if place == 'inner':
        return [['rule', 'a', [cd, ['rule', 'e', [['decl', '$m', [text], []], ['decl', 'f', ['g'], []]]]]], h]
    sel, name, toks = NEST_PLACES[place]
    toks = [t.replace('%s', text) for t in toks]
    return [['rule', sel.replace('%s', text), [['decl', name, toks, [' '] * (len(toks) - 1)], cd, e]], h]


# ------------------------------------------------------------------------------------------------
# random trees

def _value(rng, feats):
    n = rng.choice([1, 1, 1, 2, 2, 3, 4])
    pool = TOKENS + (PAREN_TOKENS * 3 if 'P' in feats else [])
    toks = [rng.choice(pool) for _ in range(n)]
    if 'P' in feats and rng.random() < 0.5:
        toks[rng.randrange(n)] = rng.choice(PAREN_TOKENS)
    if 'Q' in feats:
        for j in range(n):
            if rng.random() < 0.5:
                toks[j] = _fill(rng, rng.choice(QUOTED_TOKENS))
    if 'N' in feats:
        for j in range(n):
            if rng.random() < 0.5:
                toks[j] = _nfill(rng, rng.choice(NESTED_TOKENS))
    seps = []
    for _ in range(n - 1):
        if 'V' not in feats and rng.random() < 0.12:
            seps.append(rng.choice(VALUE_COMMENTS))
        else:
            seps.append(rng.choice(SEPARATORS))
    if rng.random() < 0.1:
        toks.append('!important')
        seps.append(' ')
    return toks, seps


def _selector(rng, feats, depth):
    def one():
        r = rng.random()
        if 'Q' in feats and r < 0.45:
            return _fill(rng, rng.choice(QUOTED_SELECTORS))
        if 'N' in feats and r < 0.45:
            return _nfill(rng, rng.choice(NESTED_SELECTORS))
        if 'L' in feats and r < 0.45:
            return rng.choice(LEAD_COLON)
        if 'P' in feats and r < 0.45:
            return rng.choice(PAREN_SELECTORS)
        if r < 0.75:
            return rng.choice(SELECTORS)
        return rng.choice(AT_RULES)
    s = one()
    if not s.startswith('@') and rng.random() < 0.25:
        t = rng.choice(SELECTORS)
        if 'V' not in feats and rng.random() < 0.3:
            s = s + rng.choice(SEL_COMMENTS) + t
        else:
            s = s + rng.choice([', ', ',\n', ' ', ' > ', ',']) + t
    return s


def _body(rng, n, depth, feats):
    """a list of child nodes using exactly n nodes"""
    out = []
    while n > 0:
        r = rng.random()
        if r < 0.27 and depth < 6:
            k = rng.randint(0, n - 1)
            out.append(['rule', _selector(rng, feats, depth), _body(rng, k, depth + 1, feats)])
            n -= 1 + k
        elif r < 0.87:
            toks, seps = _value(rng, feats)
            out.append(['decl', rng.choice(DECL_NAMES), toks, seps])
            n -= 1
        else:
            out.append(['comment', rng.choice(COMMENTS)])
            n -= 1
    return out


def random_tree(rng, max_nodes, feats=''):
    """a top-level list with >= 2 rules, at most max_nodes nodes in total (max_nodes >= 2)"""
    n = rng.randint(2, max(2, max_nodes))
    r = rng.randint(2, max(2, min(4, n // 2)))
    rest = n - r
    extras = rng.randint(0, min(2, rest))
    rest -= extras
    cuts = sorted(rng.randint(0, rest) for _ in range(r - 1))
    sizes = [b - a for a, b in zip([0] + cuts, cuts + [rest])]
    top = [['rule', _selector(rng, feats, 0), _body(rng, k, 1, feats)] for k in sizes]
    for _ in range(extras):
        if rng.random() < 0.6:
            toks, seps = _value(rng, feats)
            node = ['decl', rng.choice(TOP_DECL_NAMES), toks, seps]
        else:
            node = ['comment', rng.choice(COMMENTS)]
        top.insert(rng.randint(0, len(top)), node)
    return top


# ------------------------------------------------------------------------------------------------
# rendering with ground truth

class Sheet:
    """doc: the text; items: rules and declarations in document order (dicts, see render)"""

    def __init__(self):
        self.doc = ''
        self.items = []
        self.top = []          # ids of top-level items


def _strip(doc, s, e):
    while s < e and doc[s] in SPACE:
        s += 1
    while e > s and doc[e - 1] in SPACE:
        e -= 1
    return (s, e) if s < e else None


def render(tree, rng=None, unterminated=False):
    """Render the tree.  With rng=None the most compact layout is used (`a{b:c;}`), otherwise every
    whitespace slot is chosen at random.  unterminated: the last declaration of a body, when it is the
    last node of that body, may lose its `;` (only with rng)."""
    parts = []
    pos = [0]
    sheet = Sheet()
    compact = rng is None or rng.random() < 0.25

    def emit(s):
        st = pos[0]
        parts.append(s)
        pos[0] += len(s)
        return (st, pos[0])

    def ws(options):
        if rng is None:
            return
        if compact and rng.random() < 0.8:
            return
        emit(rng.choice(options))

    def nl(depth):
        return '\n' + '  ' * depth

    def nodes(lst, depth, parent):
        prev_end = pos[0]       # `before` of the next declaration: end of the previous sibling item / body start
        for i, node in enumerate(lst):
            if i or parent is not None:
                ws([nl(depth), nl(depth), ' ', '', '\n' + nl(depth)])
            elif rng is not None and rng.random() < 0.2:
                emit(rng.choice(['\n', ' ']))
            kind = node[0]
            if kind == 'comment':
                emit(node[1])
            elif kind == 'decl':
                it = {'id': len(sheet.items), 'type': 'decl', 'parent': parent, 'before': prev_end}
                sheet.items.append(it)
                (sheet.top if parent is None else sheet.items[parent]['children']).append(it['id'])
                it['name'] = emit(node[1])
                if rng is not None and rng.random() < 0.1:
                    emit(' ')
                it['colon'] = emit(':')[0]
                ws([' ', ' ', ' ', '  ', '\n' + nl(depth + 1)])
                toks, seps = node[2], node[3]
                tr = []
                vs = pos[0]
                for j, t in enumerate(toks):
                    if j:
                        emit(seps[j - 1])
                    tr.append(emit(t))
                it['value'] = (vs, pos[0])
                it['tokens'] = tr
                last = i == len(lst) - 1
                if unterminated and last and parent is not None and rng is not None and rng.random() < 0.5:
                    it['semi'] = None
                    it['start'], it['end'] = it['name'][0], it['value'][1]
                    it['after'] = None
                else:
                    if rng is not None and rng.random() < 0.15:
                        emit(rng.choice([' ', '  ', '\n']))
                    it['semi'] = emit(';')[0]
                    it['start'], it['end'] = it['name'][0], it['semi'] + 1
                    it['after'] = it['semi'] + 1
                prev_end = pos[0]
            else:
                it = {'id': len(sheet.items), 'type': 'rule', 'parent': parent, 'children': []}
                sheet.items.append(it)
                (sheet.top if parent is None else sheet.items[parent]['children']).append(it['id'])
                it['sel'] = emit(node[1])
                ws([' ', ' ', ' ', '\n' + '  ' * depth, '  '])
                it['open'] = emit('{')[0]
                nodes(node[2], depth + 1, it['id'])
                ws([nl(depth), nl(depth), ' ', ''])
                it['close'] = emit('}')[0]
                it['start'], it['end'] = it['sel'][0], it['close'] + 1
                it['body'] = (it['open'] + 1, it['close'])
                prev_end = pos[0]
        return

    nodes(tree, 0, None)
    if rng is not None and rng.random() < 0.5:
        emit(rng.choice(['\n', ' ', '\n\n']))
    sheet.doc = ''.join(parts)
    for it in sheet.items:
        if it['type'] == 'rule':
            it['content'] = _strip(sheet.doc, it['body'][0], it['body'][1])
    return sheet


def generate(seed, index, max_nodes, feats=''):
    rng = random.Random((seed * 1000003 + index) * 7 + len(feats) * 131 + sum(map(ord, feats)))
    tree = random_tree(rng, max_nodes, feats)
    return render(tree, rng, unterminated='U' in feats)


# ------------------------------------------------------------------------------------------------
# a small exhaustive family: every forest of up to n nodes over a fixed set of leaf / rule shapes

TINY_RULES = ['a', 'a:hover', '@media (x:y)']
TINY_LEAVES = [['decl', 'b', ['c'], []], ['decl', '$v', ['"};"', 'd'], [' ']], ['comment', '/*}{;*/']]


def tiny_forests(n):
    """all forests with exactly n nodes (any mixture of rules, declarations and comments at every level)"""
    if n == 0:
        yield []
        return
    # first node is a leaf
    for leaf in TINY_LEAVES:
        for rest in tiny_forests(n - 1):
            yield [leaf] + rest
    # first node is a rule with k nodes inside
    for sel in TINY_RULES:
        for k in range(0, n):
            for body in tiny_forests(k):
                for rest in tiny_forests(n - 1 - k):
                    yield [['rule', sel, body]] + rest


# ------------------------------------------------------------------------------------------------
# a small exhaustive family of string literals (feature 'Q' made systematic)

def string_alphabet(q):
    """pieces of a string body delimited by quote q: the other quote, the four delimiters, the escaped own quote, text"""
    return [other_quote(q), '{', '}', ';', ':', '\\' + q, 'x']


# where the literal S is put: (selector of the first rule, value tokens of its first declaration)
STRING_PLACES = {
    'value': ('a', ['%s']),
    'value2': ('a', ['x', '%s', 'y']),
    'url': ('a', ['url(%s)']),
    'attr': ('a[t=%s]', ['c']),
    'not': ('a:not([t=%s]) u', ['c']),
    'atrule': ('@include m(%s)', ['c']),
}


def string_tree(quote, body, place):
    """`<sel>{b:<value>;c:d;e{f:g;}}h{i:j;}` with the literal quote+body+quote in the selector or in the first value"""
    lit = quote + body + quote
    sel, toks = STRING_PLACES[place]
    toks = [t.replace('%s', lit) for t in toks]
    return [['rule', sel.replace('%s', lit), [['decl', 'b', toks, [' '] * (len(toks) - 1)],
                                              ['decl', 'c', ['d'], []],
                                              ['rule', 'e', [['decl', 'f', ['g'], []]]]]],
            ['rule', 'h', [['decl', 'i', ['j'], []]]]]


def string_bodies(q, maxlen):
    """all piece sequences of length 1..maxlen over string_alphabet(q), as (index list, text)"""
    alpha = string_alphabet(q)
    level = [([], '')]
    for _ in range(maxlen):
        level = [(ix + [k], txt + piece) for ix, txt in level for k, piece in enumerate(alpha)]
        for item in level:
            yield item


# ------------------------------------------------------------------------------------------------
# specification helpers shared by c10.py and c17.py (functions of the ground truth only)

def innermost_table(sheet):
    """inner[p] = id of the innermost item whose range strictly contains p (start < p < end), else None"""
    n = len(sheet.doc)
    inner = [None] * (n + 1)
    for it in sheet.items:                      # document order: children overwrite their parents
        for p in range(it['start'] + 1, it['end']):
            inner[p] = it['id']
    return inner


def collapse(ranges):
    """drop empty ranges and consecutive duplicates (the statement is silent on both)"""
    out = []
    for r in ranges:
        r = (r[0], r[1])
        if r[0] == r[1]:
            continue
        if out and out[-1] == r:
            continue
        out.append(r)
    return out


def outward_spec(sheet, item_id):
    """value, declaration, then (content, full) of every enclosing rule, innermost to outermost"""
    out = []
    while item_id is not None:
        it = sheet.items[item_id]
        if it['type'] == 'decl':
            out.append(it['value'])
            out.append((it['start'], it['end']))
        else:
            if it['content']:
                out.append(it['content'])
            out.append((it['start'], it['end']))
        item_id = it['parent']
    return collapse(out)


def inward_spec(sheet, item_id):
    """the item, then its chain of first children: (full, content) for rules, (full, value) for a declaration"""
    out = []
    while item_id is not None:
        it = sheet.items[item_id]
        out.append((it['start'], it['end']))
        if it['type'] == 'decl':
            out.append(it['value'])
            break
        if it['content']:
            out.append(it['content'])
        item_id = it['children'][0] if it['children'] else None
    return collapse(out)
