"""C11 bounded stand-in: emmet.extract() returns None or a result consistent with the line, and finds a valid
abbreviation that ends at the caret.

Clause family 1 (consistency, exhaustive small lines): every clause of the first sentence of the statement.
Clause family 2 (round trip): valid abbreviations from a grammar-directed generator (bounded/c11_gen.py) embedded
after {start of line, white space, complete HTML tags, text + space} and before several right contexts, markup and
stylesheet, with/without prefix, with/without look-ahead: extracting at the abbreviation's end returns exactly it.

Look-ahead and right contexts: the statement itself lets look-ahead move the end across one quote and closing
brackets, so when the right context starts with such a character and look-ahead is on, "the abbreviation that ends
at the caret" is not defined by the statement; those combinations get the consistency check only.

Known family (DESIGN.md section 10, D20): abbreviations in which the text in front of a child operator looks like the
end of an HTML tag (`li[title=x]*3>a`).  They are separated *syntactically* (c11_gen.tag_lookalike, no call into the
repo) into their own clause and their messages start with `is_html-heuristic:`, so the remaining clauses report
every other failure.  Two further families are separated the same way: `is_html-unquoted-value:` (a left-context tag that
ends with an unquoted attribute value, `<a href=x>#id>a`) and `comma-in-function:` (stylesheet functions with several
arguments, `lg(t,#f)`: the comma is not an abbreviation character for extract).

Clause family 3 (free text, added after seeds C11-A3/B3 were missed): `roundtrip-markup-attr-text` - abbreviations whose
attribute values hold free text around balanced (..)/{..} pairs; `roundtrip-after-tag-quoted-text` - left contexts that
are start tags with free-text quoted attribute values (other quote kind, `<>=`, brackets) followed by more attributes.
Same oracle (check_roundtrip), generators in c11_gen.
"""
import itertools
import random

from .common import Clause, run_parallel
from . import c11_gen

ALPHA = 'a *>()[]{}<="/#\\'            # 16 characters
NARROW = 'a <>="[]'                    # 8 characters: what the HTML-tag heuristic looks at
OPTION_SETS = [{}, {'lookAhead': False}, {'type': 'stylesheet'}, {'type': 'stylesheet', 'lookAhead': False},
               {'prefix': '<'}, {'prefix': '#a'}, {'prefix': '<', 'lookAhead': False}]
QUOTES = '"\''
CLOSERS = ')]}'


def _consistent(line, pos, opt, r):
    """first sentence of the statement; r is the value extract(line, pos, opt) returned"""
    if r is None:
        return None
    n = len(line)
    who = 'extract(%r, %r, %r)' % (line, pos, opt)
    try:
        abbr, loc, start, end = r.abbreviation, r.location, r.start, r.end
    except AttributeError:
        return '%s returned %r without the result fields' % (who, r)
    shown = {'abbreviation': abbr, 'location': loc, 'start': start, 'end': end}
    if not isinstance(abbr, str) or not all(isinstance(x, int) and not isinstance(x, bool) for x in (loc, start, end)):
        return '%s = %r: ill-typed fields' % (who, shown)
    if not 0 <= start <= loc <= end <= n:
        return '%s = %r violates 0 <= start <= location <= end <= %d' % (who, shown, n)
    if abbr != line[loc:end]:
        return '%s = %r: abbreviation differs from line[location:end] = %r' % (who, shown, line[loc:end])
    if abbr[:1] in ('>', '+', '^', '*'):
        return '%s = %r: abbreviation begins with a dangling operator' % (who, shown)
    prefix = opt.get('prefix') if opt else None
    if prefix:
        if line[start:start + len(prefix)] != prefix:
            return '%s = %r: the prefix %r is not the text at start (found %r)' % (who, shown, prefix, line[start:start + len(prefix)])
        if loc < start + len(prefix):
            return '%s = %r: the abbreviation is not to the right of the prefix' % (who, shown)
    if pos is None or 0 <= pos <= n:
        p = n if pos is None else pos
        look_ahead = True if not opt else opt.get('lookAhead', True)
        if not look_ahead:
            if end != p:
                return '%s = %r: without look-ahead the result must end at the position %d' % (who, shown, p)
        else:
            crossed = line[p:end] if end >= p else None
            if crossed is None or any(ch not in QUOTES + CLOSERS for ch in crossed) or sum(ch in QUOTES for ch in crossed) > 1:
                return '%s = %r: look-ahead may move the end from %d only across one quote and closing brackets, crossed %r' % (
                    who, shown, p, crossed)
    return None


def check_line(line):
    from emmet import extract
    n = len(line)
    for opt in OPTION_SETS:
        for pos in [None, -1] + list(range(0, n + 2)):
            what = _consistent(line, pos, opt, extract(line, pos, dict(opt)))
            if what:
                return what
    what = _consistent(line, None, None, extract(line))
    return what


def _family(syntax, left, abbr):
    """syntactic routing / labelling of a round-trip case; `left` is the left context visible to the backward scan"""
    if syntax == 'markup':
        if c11_gen.tag_lookalike('', abbr):
            return 'is_html-heuristic'            # D20: `li[title=x]*3>a`
        if left and c11_gen.tag_lookalike(left, abbr):
            return 'is_html-unquoted-value'       # `<a href=x>#id>a`: only together with an unquoted attribute in the left tag
    if syntax == 'stylesheet' and ',' in abbr:
        return 'comma-in-function'
    return 'roundtrip'


def check_roundtrip(syntax, left, prefix, abbr, right):
    from emmet import extract
    line = left + prefix + abbr + right
    location = len(left) + len(prefix)
    caret = location + len(abbr)
    for look_ahead in (True, False):
        opt = {'type': syntax, 'lookAhead': look_ahead}
        if prefix:
            opt['prefix'] = prefix
        r = extract(line, caret, dict(opt))
        what = _consistent(line, caret, opt, r)
        if what:
            return 'consistency: ' + what
        if look_ahead and right[:1] and right[0] in QUOTES + CLOSERS:
            continue            # the statement allows the end to move here: no round-trip demand
        if r is None or r.abbreviation != abbr or r.location != location or r.end != caret:
            # with a prefix the scan is bounded by the prefix: the left context is not visible to the heuristic
            fam = _family(syntax, '' if prefix else left, abbr)
            got = None if r is None else {'abbreviation': r.abbreviation, 'location': r.location, 'start': r.start, 'end': r.end}
            return '%s: extract(%r, %d, %r) = %r, expected the abbreviation %r at %d..%d' % (
                fam, line, caret, opt, got, abbr, location, caret)
    return None


def strings(alpha, maxlen, minlen=0):
    for n in range(minlen, maxlen + 1):
        for t in itertools.product(alpha, repeat=n):
            yield (''.join(t),)


def _embed(syntax, abbrs, ctxs, family):
    lefts = sorted(set('' if prefix else left for left, prefix, right in ctxs))
    for a in abbrs:
        fam = dict((l, _family(syntax, l, a)) for l in lefts)
        for left, prefix, right in ctxs:
            if fam['' if prefix else left] == family:
                yield (syntax, left, prefix, a, right)


def _after_tags(tags, quick):
    """round-trip cases whose left context ends with one of the given complete HTML tags"""
    ma, ca = c11_gen.TAG_ABBRS, c11_gen.TAG_CSS_ABBRS
    wraps = [('', ''), ('text ', '</p>'), ('<li>', ' text'), ('</b> ', ''), ('a<b ', ']'), ('<p class="x">', '')]
    for i, tag in enumerate(tags):
        picked = [ma[(i + 3 * k) % len(ma)] for k in range(3)] if quick else ma
        cases = [('markup', a) for a in picked] + [('stylesheet', ca[i % len(ca)])]
        for j, (syntax, a) in enumerate(cases):
            for k in range(3):            # the bare tag at the end of the line and two of the other surroundings
                before, right = wraps[1 + (i + j + 2 * k) % (len(wraps) - 1)] if k else wraps[0]
                left = before + tag
                if _family(syntax, left, a) == 'roundtrip':
                    yield (syntax, left, '', a, right)


def run(tier, seed):
    quick = tier == 'quick'
    ll, nl, nrand, maxel = (4, 5, 3000, 6) if quick else (5, 6, 10000, 8)
    rng = random.Random(seed)
    out = []
    nopt = len(OPTION_SETS)

    c = Clause('consistency-exhaustive', 'B', 'all lines over %r' % ALPHA,
               'length <= %d; positions None, -1..len+1; %d option sets (type, lookAhead, prefix) + the no-argument call' % (ll, nopt),
               'a case is one line (all positions and option sets checked inside); distinct by line', exhaustive=True)
    run_parallel(c, 'bounded.c11', 'check_line', strings(ALPHA, ll), chunk=500)
    out.append(c.done())

    c = Clause('consistency-narrow', 'B', 'all lines over %r' % NARROW,
               'length %d..%d; positions and option sets as above' % (ll + 1, nl),
               'a case is one line; distinct by line', exhaustive=True)
    run_parallel(c, 'bounded.c11', 'check_line', strings(NARROW, nl, ll + 1), chunk=500)
    out.append(c.done())

    markup, markup_what = c11_gen.markup_abbreviations(tier)
    rnd = []
    seen = set(markup)
    while len(rnd) < nrand:
        a = c11_gen.random_markup(rng, maxel)
        if a not in seen:
            seen.add(a)
            rnd.append(a)
    css = c11_gen.stylesheet_abbreviations()
    ctxs = c11_gen.contexts(tier)
    ctx = '%d (left context, prefix, right context) triples%s, lookAhead on/off; lefts %r, rights %r, prefixes %r' % (
        len(ctxs), '' if not quick else ' (all lefts x 2 rights, 2 lefts x all rights, 8 prefix triples)',
        c11_gen.LEFTS, c11_gen.RIGHTS, c11_gen.PREFIXES)
    rule = ('a case is one (syntax, left context, prefix, abbreviation, right context): the line is their concatenation, the '
            'caret is at the end of the abbreviation; look-ahead on/off inside; distinct by tuple')

    c = Clause('roundtrip-markup', 'B', markup_what + '; tag look-alikes routed to their own clause',
               '%d abbreviations x %s' % (len(markup), ctx), rule, exhaustive=True)
    run_parallel(c, 'bounded.c11', 'check_roundtrip', _embed('markup', markup, ctxs, 'roundtrip'), chunk=1000)
    out.append(c.done())

    c = Clause('roundtrip-markup-random', 'B', 'seeded random abbreviations: 2..%d elements from the element pool, operators > + ^, '
               'nested groups with repeaters; tag look-alikes routed to their own clause' % maxel,
               '%d abbreviations (seed %d) x %s' % (len(rnd), seed, ctx), rule, exhaustive=False)
    run_parallel(c, 'bounded.c11', 'check_roundtrip', _embed('markup', rnd, ctxs, 'roundtrip'), chunk=1000)
    out.append(c.done())

    c = Clause('roundtrip-stylesheet', 'B', 'c11_gen.stylesheet_abbreviations(): property x value forms (numbers, units, colours, '
               'keywords, !, variables, one-argument functions) and + combinations',
               '%d abbreviations x %s' % (len(css), ctx), rule, exhaustive=True)
    run_parallel(c, 'bounded.c11', 'check_roundtrip', _embed('stylesheet', css, ctxs, 'roundtrip'), chunk=1000)
    out.append(c.done())

    c = Clause('roundtrip-tag-lookalike', 'B',
               'the abbreviations of the two markup clauses above for which c11_gen.tag_lookalike(\'\', abbr) holds: the text in '
               'front of one of their child operators ends like an HTML tag with an unquoted last attribute (`li[title=x]*3>a`)',
               'same pools and contexts as roundtrip-markup and roundtrip-markup-random', rule, exhaustive=False)
    run_parallel(c, 'bounded.c11', 'check_roundtrip', _embed('markup', markup + rnd, ctxs, 'is_html-heuristic'), chunk=1000)
    out.append(c.done())

    c = Clause('roundtrip-left-tag-unquoted', 'B',
               'the (left context, abbreviation) pairs of the two markup clauses above that look like a tag end only together '
               'with the left context: the left tag ends with an unquoted attribute value (`<a href=x>`) and the abbreviation '
               'has a child operator (`<a href=x>#id>a`)',
               'same pools and contexts as roundtrip-markup and roundtrip-markup-random', rule, exhaustive=False)
    run_parallel(c, 'bounded.c11', 'check_roundtrip', _embed('markup', markup + rnd, ctxs, 'is_html-unquoted-value'), chunk=1000)
    out.append(c.done())

    fn = c11_gen.stylesheet_function_abbreviations()
    c = Clause('roundtrip-stylesheet-function-args', 'B', 'stylesheet abbreviations whose value is a function call with several '
               'comma-separated arguments', '%d abbreviations x %s' % (len(fn), ctx), rule, exhaustive=True)
    run_parallel(c, 'bounded.c11', 'check_roundtrip', _embed('stylesheet', fn, ctxs, 'comma-in-function'), chunk=1000)
    out.append(c.done())

    # free text with balanced brackets inside an attribute list (seed C11-A3 was missed without it)
    attr = c11_gen.attr_text_abbreviations(tier)
    actxs = [t for t in ctxs if not quick or t[2] == '' or t[0] == '']     # quick: every left, every right, not their product
    attr_rnd = c11_gen.random_attr_abbreviations(rng, 300 if quick else 3000)
    known = set(attr)
    attr_rnd = [a for a in attr_rnd if a not in known]
    c = Clause('roundtrip-markup-attr-text', 'B',
               'c11_gen.attr_text_abbreviations(): elements with an attribute value (double-quoted, single-quoted, unquoted) '
               'holding free text around one balanced (..) or {..} pair: %d inner texts x %d prefixes x %d suffixes; %d attribute-list '
               'forms, %d names, the element alone and in %s of %d templates; + seeded random quoted values with brackets nested '
               '<= 2; tag look-alikes dropped' % (
                   len(c11_gen.ATTR_INNER), len(c11_gen.ATTR_PRE), len(c11_gen.ATTR_POST), len(c11_gen.ATTR_FORMS),
                   len(c11_gen.ATTR_NAMES), '1' if quick else 'all', len(c11_gen.ATTR_TEMPLATES) - 1),
               '%d + %d random (seed %d) abbreviations x %d of the %s' % (len(attr), len(attr_rnd), seed, len(actxs), ctx), rule,
               exhaustive=False)
    run_parallel(c, 'bounded.c11', 'check_roundtrip', _embed('markup', attr + attr_rnd, actxs, 'roundtrip'), chunk=1000)
    out.append(c.done())

    # left contexts: complete HTML tags whose quoted attribute values hold free text (seed C11-B3 was missed without it)
    tags = c11_gen.html_tags()
    tags_rnd = [c11_gen.random_html_tag(rng) for _ in range(600 if quick else 6000)]
    c = Clause('roundtrip-after-tag-quoted-text', 'B',
               'c11_gen.html_tags(): start tags `<name [attributes] attr=QUOTED [remainder]>`: %d value texts (the other quote '
               'kind, `<`, `>`, `=`, brackets, `/`, attribute look-alikes) in both quote kinds x %d preceding attribute lists x %d '
               'remainders (nothing, boolean / unquoted / quoted attributes, self-closing slash, extra white space); + seeded '
               'random start tags (1..4 attributes, random quoted values); each tag alone, after `text ` and after another tag, '
               'before end of line / ` text` / `</p>`, markup and stylesheet abbreviations; tag look-alikes dropped' % (
                   len(c11_gen.TAG_VALUES), len(c11_gen.TAG_PRE), len(c11_gen.TAG_POST)),
               '%d + %d random (seed %d) tags x %d of %d markup and 1 of %d stylesheet abbreviations x 3 (left, right) pairs, lookAhead '
               'on/off' % (len(tags), len(tags_rnd), seed, 3 if quick else len(c11_gen.TAG_ABBRS), len(c11_gen.TAG_ABBRS),
                           len(c11_gen.TAG_CSS_ABBRS)), rule, exhaustive=False)
    run_parallel(c, 'bounded.c11', 'check_roundtrip', _after_tags(tags + tags_rnd, quick), chunk=1000)
    out.append(c.done())
    return out
