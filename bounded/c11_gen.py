"""Generators for C11 (no import from /repo): valid abbreviations, embedding contexts, the tag look-alike predicate.

Every abbreviation produced here is valid by construction (grammar-directed); `python -m bounded.c11_gen`
re-validates the whole pool with the repo's own parsers (development aid, not used by run()).
"""
import itertools
import re

# ------------------------------------------------------------------ markup abbreviations

NAMES = ['', 'div', 'a', 'x-y', 'ns:el', 'h$', 'Foo']
DECOS = ['#id', '.cls', '.c_d-e', '.item$', '.i$$@-', '.i$@3', '[a=b]', '[a="b c"]', "[a='b']", '[a b]', '[a=b c="d e"]',
         '[a.]', '{t}', '{a b}', '{a > b}', '{$}', '{[}']
SUFFIXES = ['', '*3', '*', '/']
TAILS = ['a', '.c', '{t}']
# representatives for the exhaustive 3-element combinations
SMALL = ['a', 'x-y.c', '#i', 'li.item$*3', '[a=b]', 'p[t="u v"]', 'b{t}', '{a b}', 'img/', 'h$*', 'li[t=x]*3', '!']
OPS = ['>', '+', '^']


def element_pool(max_decos):
    out = []
    for n in NAMES:
        for k in range(0, max_decos + 1):
            for ds in itertools.product(DECOS, repeat=k):
                if not n and not ds:
                    continue
                body = n + ''.join(ds)
                if '$#' in body:          # `$#` is the repeater placeholder token, not "numbering followed by an id"
                    continue
                for s in SUFFIXES:
                    out.append(body + s)
    return out


def markup_abbreviations(tier):
    """the exhaustive markup pool (deterministic order, no duplicates) and its description"""
    quick = tier == 'quick'
    seen = set()
    out = []

    def add(a):
        if a not in seen:
            seen.add(a)
            out.append(a)

    p1, p2 = element_pool(1), element_pool(2)
    singles = p1 + (p2[::5] if quick else p2)
    firsts = p1 if quick else p1 + p2[::3]
    small = SMALL[:8] if quick else SMALL
    for e in singles:                                           # single elements
        add(e)
    for e in firsts:                                            # element OP tail
        for op in OPS:
            for t in TAILS:
                add(e + op + t)
    for a, b, c in itertools.product(small, repeat=3):          # three elements, every operator pair
        for o1 in OPS:
            for o2 in OPS:
                add(a + o1 + b + o2 + c)      # (`a^b` at the top level is valid too: climbing stops at the root)
    for a, b in itertools.product(small, repeat=2):             # groups
        for o1 in OPS[:2]:
            add('(' + a + o1 + b + ')')
            add('(' + a + o1 + b + ')*2')
            for o2 in OPS[:2]:
                add('(' + a + o1 + b + ')*2' + o2 + 'a')
                add('a' + o2 + '(' + a + o1 + b + ')')
                add('x>(' + a + o1 + b + ')' + o2 + '(' + b + ')')
    what = ('single elements: name x <=1 decoration x suffix (all) and x 2 decorations (%s); element OP tail for the first '
            'elements %s, OP in > + ^, tail in %r; all 3-element combinations of %d representatives with every operator '
            'pair; groups `(a OP b)`, `(..)*2`, `(..)*2 OP a`, `a OP (..)`, `x>(..) OP (b)` over the representatives'
            % ('every 5th' if quick else 'all', 'with <=1 decoration' if quick else 'with <=1 decoration and every 3rd with 2',
               TAILS, len(small)))
    return out, what


def random_markup(rng, max_elements):
    pool = random_markup.pool
    if pool is None:
        pool = random_markup.pool = element_pool(2)

    def seq(k, depth):
        s = ''
        open_levels = 0
        for i in range(k):
            if i:
                op = rng.choice('>>+^' if open_levels else '>>+')
                open_levels += 1 if op == '>' else (-1 if op == '^' else 0)
                s += op
            if depth < 2 and rng.random() < 0.18:
                s += '(' + seq(rng.randint(1, 3), depth + 1) + ')' + rng.choice(['', '', '*2', '*'])
            else:
                s += rng.choice(pool)
        return s

    return seq(rng.randint(2, max_elements), 0)


random_markup.pool = None

# ------------------------------------------------------------------ stylesheet abbreviations

CSS_PROPS = ['m', 'p', 'bd', 'c', 'fz', 'pos', 'bg-c', 'w', '@k', '$v', '--x']
CSS_VALUES = ['', '10', '-10', '1.5', '10px', '10p', '100%', '10-20', '10--20', '#f', '#ff0', '#f.5', '-a', '-auto', ':10', ':a',
              '1-s-#f00', '10!', '!', '-$v', '-@v', '10-a', '1e3', '(1)', ':f(#f)']
CSS_FUNCTION_ARGS = ['(t,#f,#0)', '(1,2)', ':rgb(0,0,0)']      # several arguments: contain a comma


def stylesheet_abbreviations():
    single = [p + v for p in CSS_PROPS for v in CSS_VALUES if not (p == '--x' and v.startswith('('))]
    out = list(single)
    for a in single[::5]:
        for b in single[3::11]:
            out.append(a + '+' + b)
    return out


def stylesheet_function_abbreviations():
    out = [p + v for p in CSS_PROPS[:8] for v in CSS_FUNCTION_ARGS]
    out += ['m10+' + x for x in out[:6]]
    return out


# ------------------------------------------------------------------ contexts

# "preceded by whitespace, the start of the line or a complete HTML tag"
LEFTS = ['', ' ', '\t', '<b>', '<img src="x">', '</p>', 'text ', '<br/>', '<foo-bar a>', '<a href=x>', '<div class="a b" id=c>']
# what may follow the caret
RIGHTS = ['', '"', "'", ']', ')', '}', ' text', '</p>']
PREFIXES = ['', '<', '&&']


def contexts(tier):
    """(left, prefix, right) triples: the line is left + prefix + abbreviation + right"""
    if tier != 'quick':
        return [(l, p, r) for p in PREFIXES for l in LEFTS for r in RIGHTS]
    out = []
    for l in LEFTS:                     # every left context, caret at the end of the line / before more text
        for r in ('', ' text'):
            out.append((l, '', r))
    for l in ('', '<b>'):               # every right context
        for r in RIGHTS:
            if (l, '', r) not in out:
                out.append((l, '', r))
    for l in ('', '<b>', 'text '):      # prefixes
        for r in ('', ']'):
            out.append((l, '<', r))
    out.append(('', '&&', ''))
    out.append(('x ', '&&', ' text'))
    return out


# ------------------------------------------------------------------ free text with balanced brackets inside `[...]`

# Attribute values are free text: the abbreviation grammar lets a quoted value hold anything but its own quote, and an
# unquoted one anything but white space, quotes and `]`.  The values generated here contain one balanced bracket pair
# (round or curly; nested once in some) around text that has non-abbreviation characters (space, comma, quote, `=`, ...).
ATTR_INNER = ['b', 'b c', 'b, c', 'fig. 2, left', 'x=1', "it's", 'a > b', '1 + 2', '', ' ', 'a (b c) d', 'say "hi"',
              'k: v; w', '?', 'y {q r} z', 'a,b', "'", '<i>', 'p q (r, s) (t u)', '%d, %s']
ATTR_PRE = ['', 'foo ', 'f', 'a, ']
ATTR_POST = ['', ' x', '.', ';']
ATTR_BRACKETS = ['()', '{}']
ATTR_FORMS = ['%s[t=%s]', '%s[href=# t=%s]', '%s[t=%s u=w]', '%s[t=%s].c', '%s[t=%s c="d e"]', '%s#i[t=%s]']
ATTR_NAMES = ['a', '', 'x-y', 'li']
ATTR_TEMPLATES = ['%s', '%s*3', 'ul>%s', '%s>b', '%s+b', '(%s>b)+c', 'x>(%s)*2', '%s{t}', 'p>q^%s', '%s>(b+c)', 'a+%s*',
                  '(%s)']
_RANDOM_VALUE_TOKENS = ['a', 'bc', ' ', ' ', ',', ', ', '.', ';', ':', '=', '?', '!', '<', '>', '+', '*', '#', '/', '-', '1', '%']


def _quotings(value):
    out = []
    if '"' not in value:
        out.append('"' + value + '"')
    if "'" not in value:
        out.append("'" + value + "'")
    if value and not re.search(r'[\s"\'=]', value) and '{' not in value and value[0] != '(':
        out.append(value)               # unquoted: `onclick=f(1,2)`
    return out


def attr_text_values():
    """attribute values (already quoted where needed) with one balanced bracket pair around free text"""
    out = []
    for br in ATTR_BRACKETS:
        for inner in ATTR_INNER:
            if br == '{}' and ('(' in inner or '{' in inner):
                continue
            for pre in ATTR_PRE:
                for post in ATTR_POST:
                    for v in _quotings(pre + br[0] + inner + br[1] + post):
                        if v not in out:
                            out.append(v)
    return out


def random_attr_value(rng):
    """seeded random free text with balanced round/curly brackets (nesting <= 2), quoted"""
    def text(depth):
        s = ''
        for _ in range(rng.randint(0, 4)):
            if depth < 2 and rng.random() < 0.35:
                br = rng.choice(['()', '()', '{}']) if depth == 0 else '()'
                s += br[0] + text(depth + 1 if br == '()' else 2) + br[1]
            else:
                s += rng.choice(_RANDOM_VALUE_TOKENS)
        return s
    while True:
        v = text(0)
        if '(' in v or '{' in v:
            break
    q = rng.choice('"\'')
    return q + v + q


def _attr_abbreviations(values, per_value):
    out = []
    seen = set()
    wrap = ATTR_TEMPLATES[1:]
    for i, v in enumerate(values):
        e = ATTR_FORMS[i % len(ATTR_FORMS)] % (ATTR_NAMES[(i // 2) % len(ATTR_NAMES)], v)
        for k in range(per_value):
            a = wrap[(i + (k - 1) * 4) % len(wrap)] % e if k else e
            if a not in seen:
                seen.add(a)
                out.append(a)
    return out


def attr_text_abbreviations(tier):
    """valid markup abbreviations with an attribute value from attr_text_values(): the element alone and inside
    1 (quick) / all templates"""
    values = attr_text_values()
    if tier == 'quick':
        return _attr_abbreviations(values, 2)
    out = []
    for i, v in enumerate(values):
        for f in ATTR_FORMS:
            e = f % (ATTR_NAMES[i % len(ATTR_NAMES)], v)
            for t in ATTR_TEMPLATES:
                out.append(t % e)
    return out


def random_attr_abbreviations(rng, n):
    return _attr_abbreviations([random_attr_value(rng) for _ in range(n)], 2)


# ------------------------------------------------------------------ complete HTML tags with free-text quoted values

# A start tag per the HTML syntax: `<name (white space attribute)* [white space] [/]>`; an attribute is a name, a name
# with an unquoted value (no white space, quotes, `=`, `<`, `>`) or a name with a quoted value holding any text but its
# own quote character.  The quoted value under study is followed by every kind of tag remainder.
TAG_NAMES = ['a', 'div', 'x-y', 'ns:el', 'h1', 'input']
TAG_VALUES = ['x', '', 'a b', "it's", "go('next')", 'say "hi"', "a'b'c", 'a>b', 'a<b', 'a=b', 'f(1)', '[x]', '{y}', 'a/b',
              'x y="z"', "k='v' w", 'a, b; c', '#', '.', '"', "'", ' "', "' ", "don't >", '<b title="q">', "a='b'", '="', "'="]
TAG_PRE = ['', 'disabled ', 'href=y ', 'id="k" ', "data-a='1' b ", 'href=/x/y ', 'href=/home ']
TAG_POST = ['', ' disabled', ' href=y', ' colspan=2 checked', ' id="k"', " data-a='1'", ' /', '/', ' required /',
            '  disabled', '\tdisabled', ' ', ' b c', ' href=/x/y', ' src=../i.png', ' b=c/d /',
            ' href=/home', ' href=/app/ /', ' action=/ method=post', ' href=/a']
TAG_ABBRS = ['foo', 'ul>li.item$*3', 'a[href=#]{x}', '.b+.c', '#id', 'p{t}', '(a+b)*2', 'x-y>b']
TAG_CSS_ABBRS = ['m10', 'p10-20', 'c#f', 'bd1-s']
_RANDOM_TAG_CHARS = 'ab c\'"()[]{}<>=/.,#-  '


def _tag(name, pre, attr, q, value, post):
    return '<' + name + ' ' + pre + attr + '=' + q + value + q + post + '>'


def html_tags():
    out = []
    i = 0
    for v in TAG_VALUES:
        for q in '"\'':
            if q in v:
                continue
            for pre in TAG_PRE:
                for post in TAG_POST:
                    out.append(_tag(TAG_NAMES[i % len(TAG_NAMES)], pre, ['title', 'data-x', 'on:k'][i % 3], q, v, post))
                    i += 1
    return out


def random_html_tag(rng):
    def attr():
        k = rng.random()
        name = rng.choice(['a', 'id', 'data-x', 'on:k', 'b2'])
        if k < 0.2:
            return name
        if k < 0.35:
            return name + '=' + rng.choice(['y', '2', 'x-1', 'k:v', '/x/y', 'a/b', '../i.png', '/home', '/a/b.c'])
        q = rng.choice('"\'')
        v = ''.join(rng.choice(_RANDOM_TAG_CHARS) for _ in range(rng.randint(0, 6))).replace(q, '')
        return name + '=' + q + v + q
    s = '<' + rng.choice(TAG_NAMES)
    for _ in range(rng.randint(1, 4)):
        s += rng.choice([' ', ' ', '  ', '\t']) + attr()
    return s + rng.choice(['>', '>', ' >', '/>', ' />'])


# ------------------------------------------------------------------ the tag-end look-alike family (candidate defect D20)

_IDENT = r'A-Za-z0-9:\-'
_VALUE = r'^\s"\'='
# (1) `name=value` directly followed by more identifier characters and `>`: how `<a href=x title=y>` ends
# (2) an unclosed `<tag ... name=value` in front of the `>` (possible when the left context is a tag whose last
#     attribute is unquoted: HTML's unquoted value is read greedily by the heuristic, across `>`)
_LOOK = re.compile(
    r'[' + _IDENT + r']+=[' + _VALUE + r']*[' + _VALUE + _IDENT + r'][' + _IDENT + r']+/?$'
    r'|<[A-Za-z][^<>]*\s[' + _IDENT + r']+=[' + _VALUE + r']+$')


def tag_lookalike(left, abbr):
    """True when the text in front of some top-level child operator `>` of `abbr` (seen together with the visible
    left context) ends like an HTML tag with an unquoted last attribute, e.g. `li[title=x]*3>` or `<a href=x>#id>`.
    Purely syntactic; over-approximates the inputs on which is_html() answers "this `>` closes a tag"."""
    for i in top_level_child_operators(abbr):
        if _LOOK.search(left + abbr[:i]):
            return True
    return False


def top_level_child_operators(abbr):
    """indexes of the `>` characters of a (valid) abbreviation that are child operators: outside `{text}` (nested
    braces counted, everything else literal) and outside `[attributes]` (quoted values skipped)"""
    out = []
    i, n = 0, len(abbr)
    while i < n:
        ch = abbr[i]
        if ch == '{':
            depth = 1
            i += 1
            while i < n and depth:
                depth += 1 if abbr[i] == '{' else -1 if abbr[i] == '}' else 0
                i += 1
            continue
        if ch == '[':
            i += 1
            while i < n and abbr[i] != ']':
                if abbr[i] in '"\'':
                    q = abbr[i]
                    i += 1
                    while i < n and abbr[i] != q:
                        i += 1
                i += 1
            i += 1
            continue
        if ch == '>':
            out.append(i)
        i += 1
    return out


def _selfcheck():
    import random
    import sys
    sys.path.insert(0, '/repo')
    from emmet.abbreviation import parse as mparse
    from emmet.css_abbreviation import parse as cparse
    rng = random.Random(0)
    bad = 0
    allm = markup_abbreviations('thorough')[0] + markup_abbreviations('quick')[0] + [random_markup(rng, 8) for _ in range(20000)]
    allm += attr_text_abbreviations('thorough') + attr_text_abbreviations('quick') + random_attr_abbreviations(rng, 5000)
    allm += TAG_ABBRS
    for a in allm:
        try:
            mparse(a)
        except Exception as e:
            bad += 1
            if bad < 20:
                print('markup abbreviation rejected by the parser:', repr(a), type(e).__name__, getattr(e, 'message', e))
    alls = stylesheet_abbreviations() + stylesheet_function_abbreviations() + TAG_CSS_ABBRS
    for a in alls:
        try:
            cparse(a)
        except Exception as e:
            bad += 1
            print('stylesheet abbreviation rejected by the parser:', repr(a), type(e).__name__, getattr(e, 'message', e))
    print('markup %d, stylesheet %d, rejected %d' % (len(allm), len(alls), bad))


if __name__ == '__main__':
    _selfcheck()
