"""C12 bounded stand-in: formatting options are cosmetic; indentation equals nesting depth.

cosmetic-pairs:     the same abbreviation under the syntax defaults and under a seeded random assignment of the
                    formatting / comment / self-closing options gives the same tags, attributes and text
                    (outputs read by c03_tags.parse_markup; white space, comment nodes and the self-closing slash dropped)
indent-depth:       formatting on, formatSkip empty: every line after the first starts with
                    baseIndent + indent * (elements open at that point); closing tag aligned with its opening tag
selfclose-exact:    html / xhtml / xml self-closing styles give the same string up to ` /` / `/` before `>`
indent-multiline-text: the indent-depth oracle over texts that span several lines: element texts (elements without children)
                    and text nodes whose value has line breaks at its start, between words, directly after a field, at
                    its end (LF, CRLF, CR, doubled), so that the text itself produces output lines

The three "-context" clauses repeat the three oracles with a *context row* of non-formatting options (output.tagCase,
output.attributeCase, output.attributeQuotes, output.reverseAttributes, output.booleanAttributes, output.compactBoolean,
jsx.enabled, bem.enabled) held equal on both sides of the comparison, over abbreviations that also carry upper / mixed
case tag and attribute names: whatever else is configured, the formatting options stay cosmetic, the indentation equals
the depth and the self-closing style changes the slash only.
"""
import random

from .common import Clause
from .c03_tags import (parse_markup, normalise, MarkupError, gen_tree, render_abbr, VOIDS, SNIPPET_VOID_TAGS, SNIPPET_SELFCLOSING,
                       run_parallel_sorted)

SYNTAXES = ['html', 'xml', 'xsl', 'jsx', 'vue', 'svelte']

CURATED = [
    'div', 'div>p', 'ul>li*3', 'ul>li.item$*2>a', 'div+p+bq', 'div>p>span^ul>li', 'div>(header>ul>li*2>a)+footer>p',
    '(div>dl>(dt+dd)*2)+footer>p', 'p>{Click }+a{here}+{ to continue}', 'div#header+div.page+div#footer.c1.c2',
    'td[title="Hello world!" colspan=3]', 'ul>li.item$$$*3', 'h$[title=item$]{Header $}*2', 'a{Click me}', 'p{text}>em+b',
    '.wrap>.content', 'em>.info', 'ul>.item*2', 'table>.row>.col', 'span>b+i+em', 'p>span*4', 'div>span+em+b+i+u',
    'body>div', 'html>head+body', 'html>(head>meta[charset=x]/+title{T})+body', '!', 'html:5', 'img', 'div>img+br+hr',
    'input:text', 'form>input+select>option*2', 'link', 'a.nav#top[title=x]', 'ul#nav>li.item*2>a{go}', 'p.a+p.b+p.c',
    'div>{foo}+p+{bar}', 'div>{foo}>p', '{text}+p', 'p>{one}+{two}', 'section>h1{T}+p{a b c}', 'cc:ie>p',
    'div[a]', 'input[disabled]', 'p[title]>b[lang]', 'div.c>p.d>span.e>b.f', 'nav>ul>li*2>span', 'blockquote>p+p',
    'div>b>p', 'p>b>div', 'span>div>span', 'div>br/+p', 'ul>li*2>br/', 'x-y>z-w/', 'div#a>div#b>div#c', 'main.m>p.p*3',
    'li.i*3', 'p#x+p#y', 'div.a{t}', 'div.a>{t}', 'span.s+div.d', 'b.x>i.y', 'body.home>div#page', 'html>body>p',
]
# text values with fields: with children present the children take the place of the first field ("child slot"), the
# other fields print their placeholder (default output.field); all of it is content that formatting must not change
CURATED_FIELDS = [
    'div{${0}${1:x}}>p', 'div{a ${0} b}>p', 'div{${1:x}${0}}>p+q', 'p{${0} ${1:x} y}>b', 'div{pre ${0}${2:ph} post}>ul>li*2',
    'div{${1:x}}>p', 'p{${1:a}${2:b}}>b+i', 'div{${0}${1:x}${2:y}z}>section>p', 'ul>li{${0}${1:t}}*2>div', 'div{${1:a}-${0}-${2:b}}>p+p',
    'div>{${0}${1:x}}>p', 'div>{a${0}b${1:c}}>p+span', 'section{${1}${2:two words}}>div>p', 'div{x${0}}>p{${1:y}${2:z}}>em',
    'p[title="${1:v}"]{${2:w}}', 'div{${0}${1:l1}}>p^div{${1:x}${0}y}>ul', 'span{${0}${1:x}}>b', 'div{${0}${1:x}}>span+em',
    'div{${0}${1:x}}>{t}+p', 'nav{${2:b}${1:a}${0}}>ul>li', 'div.c#i{${0}${1:x}}>p.d',
]
# text nodes that print nothing (empty, only a field, only white space) below top level, followed by siblings / uncles
CURATED_EMPTY = [
    'div>{}+p', 'div>p+{}+p', 'ul>li>{}+b^li', 'div>({}+p)+section', 'div>{}', 'div>{}*2+p', 'p>{}+b', 'span>{}+b+i+em', 'div>{${0}}+p',
    'div>p>{}^p+p', 'div>section>{}+p^^nav>ul', 'ul>li*2>{}+p', 'div>{}+{}+p', 'div>p{}+q', 'div>(p>{})+(q>b)', 'main>{${1}}+div>p^footer',
    'div>{}+p^section>p', '(div>{})+p', 'div>{}+span+em', 'table>tr>td>{}^td', 'div>{a}+{}+{b}+p', 'div>p+{}', 'body>{}+div>{}+p',
]
CURATED_BLANK = ['div>{ }+p', 'div>p+{  }+p', 'ul>li>{ }+b^li', 'div>{ }+{x}', 'p>{ }+b']      # white space only: cosmetic clause only
CURATED_XSL = [
    'xsl:variable[name=a select=b]>x', 'xsl:with-param[name=a select=b]{t}', 'xsl:variable[name=a select=b]',
    'vare>x', 'wp>y', 'tm>ap', 'choose', 'xsl:if[test=a]>val', 'ap>wp*2', 'tm.c>vare#i>p', 'xsl>tm', 'call>wp{t}',
    'xsl:variable#v[select=b]>x', 'xsl:variable.k[name=a select=b]>x+y', 'each>vare>z',
]

AXES = [
    ('output.format', [True, False]),
    ('output.indent', ['\t', '  ', '', '    ']),
    ('output.newline', ['\n', '\r\n', '\r']),
    ('output.baseIndent', ['', '  ', '\t\t']),
    ('output.inlineBreak', [3, 0, 1, 2, 10]),
    ('output.formatLeafNode', [False, True]),
    ('output.formatSkip', [['html'], [], ['div', 'ul'], ['p', 'html', 'body']]),
    ('output.formatForce', [['body'], [], ['p', 'li'], ['div']]),
    ('comment.enabled', [False, True, True]),
    ('comment.trigger', [['id', 'class'], ['class'], ['title', 'name'], []]),
    ('comment.before', ['', '<!-- [#ID][.CLASS] -->\n', '<!-- [TITLE] -->']),
    ('comment.after', ['\n<!-- /[#ID][.CLASS] -->', '<!-- /[.CLASS] -->', '']),
    ('output.selfClosingStyle', [None, 'html', 'xhtml', 'xml']),
]

# names typed in upper / mixed case (output.tagCase / output.attributeCase 'lower' and 'upper' both change something)
CURATED_MIXED = [
    'DIV>P', 'Foo>bAr[dataId=1]/', 'MyComp[onClick=x]>Item*2', 'UL>LI.item*2>A[HREF=x]{go}', 'div[Title=a DATA-x]>Span{t}',
    'Table>TR>TD[colSpan=2]{x}', 'svg>linearGradient[gradientUnits=u]>stop/', 'IMG[SRC=a.png]/', 'div>Br/+Hr/+p', 'P>{txt}+B{b}',
    'Section#Main.Wide>H1{T}+P[Lang=en]', 'Ul>Li*3>Em', 'FORM>INPUT[TYPE=text NAME=q]/+Label[For=q]{q}', 'x-Y>z-W/', 'Div>Div>Div[A B=c]',
    'NAV.top>UL>LI.i$*2>A{n$}', 'p[Title]>b[LANG]', 'View>Text{hi}+Image[Source=s]/', 'BODY>DIV#Page>P.c', 'xsl:Template[Match=x]>Foo[Bar=1]',
]

# options that are *not* formatting options: they form the context in which the formatting options must stay cosmetic
CONTEXT_AXES = [
    ('output.tagCase', ['upper', 'lower']),
    ('output.attributeCase', ['upper', 'lower']),
    ('output.attributeQuotes', ['single', 'double']),
    ('output.reverseAttributes', [True]),
    ('output.booleanAttributes', [['title', 'lang', 'disabled'], []]),
    ('output.compactBoolean', [True]),
    ('jsx.enabled', [True, False]),
    ('bem.enabled', [True]),
]
CONTEXT_WEIGHTS = [5, 5, 2, 2, 2, 2, 1, 1]


def random_context(rng, compact=True):
    """1 to 3 context options.  compact=False: without output.compactBoolean (the value-less form `b` / `b=""` of a compact
    boolean attribute is tied to the self-closing style by the attribute property, C03; see notes)"""
    o = {}
    for _ in range(rng.randint(1, 3)):
        k, vals = rng.choices(CONTEXT_AXES, CONTEXT_WEIGHTS)[0]
        if k == 'output.compactBoolean' and not compact:
            continue
        o[k] = rng.choice(vals)
    if not o:
        o['output.tagCase'] = rng.choice(['upper', 'lower'])
    return o


def random_row(rng, force=None):
    o = {}
    for k, vals in AXES:
        if rng.random() < 0.6:
            v = rng.choice(vals)
            if v is not None:
                o[k] = v
    if force:
        o.update(force)
    return o


def _expand(abbr, syntax, options):
    from emmet import expand
    return expand(abbr, {'syntax': syntax, 'options': dict(options)})


def _same_content(abbr, syntax, base_options, options):
    base = _expand(abbr, syntax, base_options)
    out = _expand(abbr, syntax, options)
    try:
        nb = normalise(parse_markup(base))
        no = normalise(parse_markup(out))
    except MarkupError as e:
        return '%r (%s): output is not readable markup: %s' % (abbr, syntax, e)
    if nb != no:
        k = 0
        while k < min(len(nb), len(no)) and nb[k] == no[k]:
            k += 1
        return '%r (%s): content differs between %s and %r: item %d is %r vs %r; outputs %r vs %r' % (
            abbr, syntax, 'options %r' % (base_options,) if base_options else 'default options', options, k,
            nb[k] if k < len(nb) else None, no[k] if k < len(no) else None, base, out)
    return None


def check_cosmetic(abbr, syntax, options):
    return _same_content(abbr, syntax, {}, options)


def check_cosmetic_context(abbr, syntax, context, options):
    """`context`: non-formatting options present on both sides; `options`: the formatting row added on one side"""
    merged = dict(context)
    merged.update(options)
    return _same_content(abbr, syntax, context, merged)


def check_selfclose(abbr, syntax, options):
    outs = {}
    for style in ('html', 'xhtml', 'xml'):
        o = dict(options)
        o['output.selfClosingStyle'] = style
        outs[style] = _expand(abbr, syntax, o)
    if outs['xhtml'].replace(' />', '>') != outs['html'] or ' />' in outs['html']:
        return '%r (%s, %r): xhtml style differs from html style by more than " /": %r vs %r' % (
            abbr, syntax, options, outs['xhtml'], outs['html'])
    if outs['xml'].replace('/>', '>') != outs['html'] or '/>' in outs['html']:
        return '%r (%s, %r): xml style differs from html style by more than "/": %r vs %r' % (
            abbr, syntax, options, outs['xml'], outs['html'])
    if outs['xhtml'].count(' />') != outs['xml'].count('/>'):
        return '%r (%s, %r): different number of self-closed tags: %r vs %r' % (abbr, syntax, options, outs['xhtml'], outs['xml'])
    return None


def check_indent(abbr, syntax, options, void_names):
    """options must have output.format on and an empty output.formatSkip"""
    out = _expand(abbr, syntax, options)
    nl = options.get('output.newline', '\n')
    base = options.get('output.baseIndent', '')
    unit = options.get('output.indent', '\t')
    try:
        toks = parse_markup(out)
    except MarkupError as e:
        return '%r (%s): output is not readable markup: %s' % (abbr, syntax, e)
    starts = []
    i = out.find(nl)
    while i != -1:
        starts.append(i + len(nl))
        i = out.find(nl, i + len(nl))
    # (offset at which the event takes effect, +1 open / -1 close, name, offset of the tag)
    events = []
    for t in toks:
        if t['type'] == 'open' and not t['selfclosed'] and t['name'] not in void_names:
            events.append((t['end'], 1, t['name'], t['start']))
        elif t['type'] == 'close':
            events.append((t['start'] + 1, -1, t['name'], t['start']))
    events.sort(key=lambda e: e[0])
    where = '%r (%s, %r) -> %r: ' % (abbr, syntax, options, out)
    stack = []          # (name, offset of the opening tag) of the elements open at the current point
    ei = 0
    for s in starts:
        while ei < len(events) and events[ei][0] <= s:
            _, d, name, st = events[ei]
            if d == 1:
                stack.append((name, st))
            elif not stack or stack[-1][0] != name:
                return where + 'closing tag </%s> does not match the open element' % name
            else:
                stack.pop()
            ei += 1
        end = out.find(nl, s)
        line = out[s:] if end == -1 else out[s:end]
        body = line.lstrip(' \t')
        have = line[:len(line) - len(body)]
        if body.startswith('</'):
            # "a closing tag on its own line is aligned with its opening tag"
            if not stack:
                return where + 'closing tag without open element at line %r' % line
            name, st = stack[-1]
            ls = max([0] + [x for x in starts if x <= st])
            lead = out[ls:st]
            if lead.strip(' \t') != '':
                continue        # the opening tag does not start a line: "aligned" is not defined by the statement
            want = base if ls == 0 else lead       # on the first line the caller's own indentation is baseIndent
            if have != want:
                return where + 'closing tag line %r is indented %r, its opening tag %r' % (line, have, want)
            continue
        want = base + unit * len(stack)
        if have != want:
            return where + 'line %r is indented %r, expected baseIndent + %d x indent = %r (open elements: %r)' % (
                line, have, len(stack), want, [x[0] for x in stack])
    return None


# ---------------------------------------------------------------------------------------------

def abbreviations(rng, n_random, syntax):
    xsl = syntax == 'xsl'
    for a in CURATED + CURATED_FIELDS + CURATED_EMPTY + CURATED_BLANK:
        yield a
    if xsl:
        for a in CURATED_XSL:
            yield a
    for _ in range(n_random):
        yield render_abbr(gen_tree(rng, depth=rng.randint(1, 4), width=rng.randint(1, 3), snippets=rng.random() < 0.5, xsl=xsl,
                                   fields=rng.random() < 0.4, empty_texts=['', '${0}', ' ', '${1}'] if rng.random() < 0.4 else None))


def cosmetic_cases(rng, n_random, rows):
    for syn in SYNTAXES:
        for a in abbreviations(rng, n_random, syn):
            # single-axis rows on a rotating axis + random rows
            k, vals = AXES[rng.randrange(len(AXES))]
            for v in vals:
                if v is not None:
                    yield (a, syn, {k: v})
            yield (a, syn, {'comment.enabled': True})
            yield (a, syn, {'output.format': False})
            for _ in range(rows):
                yield (a, syn, random_row(rng))


def selfclose_cases(rng, n_random):
    for syn in SYNTAXES:
        for a in abbreviations(rng, n_random, syn):
            yield (a, syn, {})
            o = random_row(rng)
            o.pop('output.selfClosingStyle', None)
            yield (a, syn, o)


INDENT_CURATED = [a for a in CURATED if a not in ('cc:ie>p', 'p>{Click }+a{here}+{ to continue}')]   # text with own leading blanks


def indent_cases(rng, n_random):
    voids = VOIDS + SNIPPET_VOID_TAGS + ['z-w']
    for syn in SYNTAXES:
        abbrs = list(INDENT_CURATED) + CURATED_EMPTY + (CURATED_XSL if syn == 'xsl' else [])
        abbrs = [a for a in abbrs if a != 'xsl>tm']        # snippet text with its own line break and caret mark
        for _ in range(n_random):
            abbrs.append(render_abbr(gen_tree(rng, depth=rng.randint(1, 4), width=rng.randint(1, 3), snippets=rng.random() < 0.5,
                                              xsl=syn == 'xsl', empty_texts=['', '${0}', '${1}'] if rng.random() < 0.4 else None)))
        for a in abbrs:
            for r in range(3):
                o = random_row(rng, {'output.format': True, 'output.formatSkip': []})
                if r == 0:
                    o = {'output.format': True, 'output.formatSkip': []}
                yield (a, syn, o, voids)


# ---------------------------------------------------------------------------------------------
# context clauses: abbreviations with upper / mixed case names, non-formatting options as context

# for the indentation oracle, which recognises elements without closing tag by their (lower or upper case) name
PLAIN_CURATED = [a for a in INDENT_CURATED + CURATED_EMPTY if a != 'xsl>tm'] + [a for a in CURATED_MIXED if '/' not in a] + [
    'DIV>br/+P', 'Ul>Li*2>img/', 'Form[Action=x]>input[Type=text]/+P', 'Head>meta[Charset=x]/+link[Rel=y]/+Title{T}']


def _recase_word(rng, w):
    r = rng.random()
    if r < 0.4:
        return w.upper()
    if r < 0.7:
        return w[:1].upper() + w[1:]
    k = rng.randrange(len(w))
    return w[:k] + w[k:k + 1].upper() + w[k + 1:]


def recase_tree(rng, nodes, p, keep=()):
    """rewrites a share `p` of the element names (not those in `keep`) and of the attribute names (not id / class, which are
    written `#` / `.`) of a c03_tags tree in upper / capitalised / inner-capital form"""
    for nd in nodes:
        if nd['name'] and nd['name'] not in keep and rng.random() < p:
            nd['name'] = _recase_word(rng, nd['name'])
        nd['attrs'] = [(_recase_word(rng, an) if an not in ('id', 'class') and rng.random() < p else an, av) for an, av in nd['attrs']]
        recase_tree(rng, nd['children'], p, keep)
    return nodes


def context_abbreviations(rng, n_random, syntax, plain=False):
    """plain=True: the subset usable by the indentation oracle (no texts with fields or leading blanks, no multi-line snippets;
    the names by which that oracle recognises elements without closing tag keep their lower case)"""
    xsl = syntax == 'xsl'
    if plain:
        for a in PLAIN_CURATED:
            yield a
    else:
        for a in CURATED + CURATED_FIELDS + CURATED_EMPTY + CURATED_BLANK + CURATED_MIXED:
            yield a
    if xsl:
        for a in CURATED_XSL:
            if not (plain and a == 'xsl>tm'):
                yield a
    for _ in range(n_random):
        t = gen_tree(rng, depth=rng.randint(1, 4), width=rng.randint(1, 3), snippets=rng.random() < 0.5, xsl=xsl,
                     fields=not plain and rng.random() < 0.3,
                     empty_texts=(['', '${0}', '${1}'] if plain else ['', '${0}', ' ', '${1}']) if rng.random() < 0.3 else None)
        if rng.random() < 0.6:
            recase_tree(rng, t, rng.choice([0.3, 0.6, 1.0]), VOIDS + SNIPPET_VOID_TAGS + SNIPPET_SELFCLOSING if plain else ())
        yield render_abbr(t)


def cosmetic_context_cases(rng, n_random, rows):
    for syn in SYNTAXES:
        for a in context_abbreviations(rng, n_random, syn):
            for r in range(rows):
                ctx = random_context(rng)
                if r == 0:
                    # one formatting axis alone, every value
                    k, vals = AXES[rng.randrange(len(AXES))]
                    opts = [{k: v} for v in vals if v is not None]
                else:
                    opts = [random_row(rng)]
                for o in opts:
                    if ctx.get('output.compactBoolean'):
                        o.pop('output.selfClosingStyle', None)      # see random_context
                    if o:
                        yield (a, syn, ctx, o)


def selfclose_context_cases(rng, n_random, rows):
    for syn in SYNTAXES:
        for a in context_abbreviations(rng, n_random, syn):
            for r in range(rows):
                o = random_row(rng) if r else {}
                o.pop('output.selfClosingStyle', None)
                o.update(random_context(rng, compact=False))
                yield (a, syn, o)


def indent_context_cases(rng, n_random, rows):
    voids = VOIDS + SNIPPET_VOID_TAGS + ['z-w']
    voids = voids + [v.upper() for v in voids]          # output.tagCase 'upper' prints <BR>, <IMG ...>
    for syn in SYNTAXES:
        for a in context_abbreviations(rng, n_random, syn, plain=True):
            for r in range(rows):
                o = random_row(rng, {'output.format': True, 'output.formatSkip': []}) if r else {'output.format': True, 'output.formatSkip': []}
                o.update(random_context(rng))
                yield (a, syn, o, voids)

# ---------------------------------------------------------------------------------------------
# texts that span several lines (round 5).  The line breaks typed in a text value become output lines of their own, and the
# second sentence of the statement speaks about *every* line after the first, so these lines too must start with
# baseIndent + one unit per open element.  Where the break sits inside the value (start, middle, after a field, end) and
# which break it is must not matter.

ML_WORDS = ['foo', 'bar', 'Hello', 'x1', 'b-c', 'zz top', 'abc', 'first', 'second line', '42']
ML_FIELDS = ['${1:x}', '${2:ph}', '${1}', '${0}', '${3:two words}']
ML_EMPTY_FIELDS = ['${1}', '${0}']
ML_SUBTREE_SNIPPETS = ['choose']            # xsl snippet xsl:choose>xsl:when+xsl:otherwise: not a leaf once resolved
ML_BREAKS = ['\n', '\n', '\n', '\r\n', '\r', '\n\n']

# shapes: break at the start / in the middle / at the end / after a field, on block and inline leaf elements, on text nodes,
# at top level and nested, repeated, several multi-line texts side by side
CURATED_MULTILINE = [
    'p{a\nb}', 'p{\nabc}', 'p{abc\n}', 'div>p{a\nb}', 'div>p{\nabc}', 'div>p{abc\n}', 'div>p{\na\nb\n}', 'div>p{a\n\nb}',
    'div>ul>li{a\nb\nc}', 'section>article>p{\nfirst}', 'ul>li*2>span{\nx}', 'ul>li>span{${1:x}\nrest}', 'div>p{${1:first}\nand ${2:second}}',
    'div>p{${1}\nb}', 'div>span{a\nb}', 'div>span{\nb}+em', 'p>b{\r\nx}+i{y\rz}', 'div>{a\nb}', 'div>{\na}', 'div>{a\nb}+p', 'div>p+{\na\nb}',
    '{a\nb}+p', 'p+{\na}', 'div>p{a\nb}+{c}', 'div>{c}+p{\nb}', 'div>{c\nd}+{\ne\nf}', 'div>span{a\nb}+span{\nc}', 'ul>li{\nitem $}*3',
    'div>p{\n}', 'div>p{\n\n}', 'div>a{\nb}', 'table>tr>td{\r\nv}*2', 'div#i.c>p.d[title=t]{\nx}', 'main>section>div>p>em{${2:q}\r\nw}',
    'div>h1{\nT}+p{a\nb}+p{c\n}', 'nav>ul>li*2>a{\ngo}', 'div>p{x ${1:y}\n${2:z} w}', 'div>p{${1:y}\r\r${2:z}}', 'blockquote>p{\n\nabc}',
]
CURATED_MULTILINE_XSL = ['xsl:template>xsl:text{\nhello}', 'tm>val{\nx}', 'xsl:if[test=a]>xsl:text{a\nb}', 'choose>xsl:when>xsl:text{${1:v}\nw}']


def multiline_text(rng):
    """a text value of 1-3 words / fields with at least one line break: at the start (35 %), between two pieces (60 % each), at the
    end (25 %).  No piece starts with a blank, so what follows a break in the output is indentation only up to the first
    character of the piece."""
    pieces = [rng.choice(ML_FIELDS) if rng.random() < 0.3 else rng.choice(ML_WORDS) for _ in range(rng.randint(1, 3))]
    lead = rng.random() < 0.35
    trail = rng.random() < 0.25
    mids = [rng.random() < 0.6 for _ in pieces[1:]]
    if not (lead or trail or any(mids)):
        k = rng.randrange(len(pieces) + 1)          # place one break somewhere
        if k == 0:
            lead = True
        elif k == len(pieces):
            trail = True
        else:
            mids[k - 1] = True
    s = rng.choice(ML_BREAKS) if lead else ''
    for i, pc in enumerate(pieces):
        if i:
            # same line: no blank right after a field that prints nothing (it would stand at the start of a line)
            s += rng.choice(ML_BREAKS) if mids[i - 1] else rng.choice(['', '-', ':'] if pieces[i - 1] in ML_EMPTY_FIELDS else [' ', '', ' - '])
        s += pc
    if trail:
        s += rng.choice(ML_BREAKS)
    return s


def _ml_candidates(nodes, acc):
    for nd in nodes:
        if nd['name'] == '':
            if not nd['children']:
                acc.append(nd)
        elif not nd['children'] and not nd['selfclose'] and nd['name'] not in SNIPPET_SELFCLOSING and nd['name'] not in ML_SUBTREE_SNIPPETS:
            acc.append(nd)
        _ml_candidates(nd['children'], acc)
    return acc


def multiline_tree(rng, nodes, p):
    """gives a share `p` (at least one) of the leaf elements and text nodes of a c03_tags tree a text that spans several lines.
    Elements with children keep their one-line text: a multi-line text *followed by children* is left out, see notes/C12.md."""
    cand = _ml_candidates(nodes, [])
    if not cand:
        nodes.append({'name': rng.choice(['p', 'span', 'div', 'li']), 'attrs': [], 'text': None, 'children': [], 'selfclose': False, 'count': 1})
        cand = [nodes[-1]]
    forced = rng.randrange(len(cand))
    for i, nd in enumerate(cand):
        if i == forced or rng.random() < p:
            nd['text'] = multiline_text(rng)
    return nodes


def multiline_indent_cases(rng, n_random, rows):
    voids = VOIDS + SNIPPET_VOID_TAGS + ['z-w']
    for syn in SYNTAXES:
        abbrs = list(CURATED_MULTILINE) + (CURATED_MULTILINE_XSL if syn == 'xsl' else [])
        for _ in range(n_random):
            t = gen_tree(rng, depth=rng.randint(1, 4), width=rng.randint(1, 3), snippets=rng.random() < 0.3, xsl=syn == 'xsl')
            abbrs.append(render_abbr(multiline_tree(rng, t, rng.choice([0.2, 0.5, 1.0]))))
        for a in abbrs:
            for r in range(rows):
                o = random_row(rng, {'output.format': True, 'output.formatSkip': []}) if r else {'output.format': True, 'output.formatSkip': []}
                yield (a, syn, o, voids)


def run(tier, seed):
    rng = random.Random(seed)
    quick = tier == 'quick'
    nr, rows = (1200, 4) if quick else (8000, 8)
    c1 = Clause('cosmetic-pairs', 'B',
                '%d curated abbreviations (+%d xsl ones under xsl) and %d seeded random trees per syntax (c03_tags.gen_tree: depth <= 4, '
                'width <= 3, ids, classes, attributes, text, repeaters, void elements, html/xsl snippet names), each compared between '
                'the syntax defaults and option rows over %s' % (len(CURATED), len(CURATED_XSL), nr, [k for k, _ in AXES]),
                'syntaxes %r; per abbreviation: every value of one axis (rotating), comments on, format off, %d random rows' % (SYNTAXES, rows),
                'a case is (abbreviation, syntax, option row); tags, attributes and text (white space, comments, self-closing slash '
                'dropped) must equal those under default options', exhaustive=False)
    run_parallel_sorted(c1, 'bounded.c12', 'check_cosmetic', cosmetic_cases(rng, nr, rows), chunk=400)
    c1.done()

    c2 = Clause('indent-equals-depth', 'B',
                'the curated abbreviations (without the multi-line document snippets) and %d random trees per syntax, formatting on, '
                'output.formatSkip empty, other options random (indent, baseIndent, newline, inlineBreak, formatLeafNode, formatForce, comments)' % nr,
                'syntaxes %r, 3 option rows per abbreviation' % (SYNTAXES,),
                'a case is (abbreviation, syntax, options); every line after the first starts with baseIndent + indent x open elements; '
                'a closing tag line has exactly the indentation of its opening tag when that tag starts a line', exhaustive=False)
    run_parallel_sorted(c2, 'bounded.c12', 'check_indent', indent_cases(rng, nr), chunk=400)
    c2.done()

    c3 = Clause('selfclose-exact', 'B',
                'the same abbreviation generator; html vs xhtml vs xml self-closing style under otherwise equal options',
                'syntaxes %r, defaults + 1 random row per abbreviation' % (SYNTAXES,),
                'a case is (abbreviation, syntax, options); the three outputs must be equal strings after deleting " /" resp. "/" before ">"',
                exhaustive=False)
    run_parallel_sorted(c3, 'bounded.c12', 'check_selfclose', selfclose_cases(rng, nr), chunk=400)
    c3.done()

    # the same three oracles inside a context of non-formatting options, names in any case
    nc, crow = (300, 3) if quick else (2500, 5)
    ctx_axes = [k for k, _ in CONTEXT_AXES]
    gen = ('%d curated abbreviations incl. %d with upper / mixed case tag and attribute names (+%d xsl ones under xsl) and %d seeded '
           'random trees per syntax (c03_tags.gen_tree as above; in 60 %% of the trees 30 / 60 / 100 %% of the element and attribute '
           'names rewritten in upper / capitalised / inner-capital form)')
    n_all = len(CURATED + CURATED_FIELDS + CURATED_EMPTY + CURATED_BLANK + CURATED_MIXED)
    c4 = Clause('cosmetic-pairs-context', 'B',
                (gen % (n_all, len(CURATED_MIXED), len(CURATED_XSL), nc)) + '; each under a context row of 1-3 non-formatting options over %s, '
                'compared between the context alone and the context plus a formatting row over the axes of cosmetic-pairs' % ctx_axes,
                'syntaxes %r; per abbreviation %d context rows: one with every value of one formatting axis (rotating), the others with a '
                'random formatting row; no self-closing style change under output.compactBoolean' % (SYNTAXES, crow),
                'a case is (abbreviation, syntax, context row, formatting row); tags, attributes and text (white space, comments, '
                'self-closing slash dropped) must be equal with and without the formatting row', exhaustive=False)
    run_parallel_sorted(c4, 'bounded.c12', 'check_cosmetic_context', cosmetic_context_cases(rng, nc, crow), chunk=400)
    c4.done()

    n_plain = len(PLAIN_CURATED)
    c5 = Clause('indent-equals-depth-context', 'B',
                (gen % (n_plain, len(CURATED_MIXED), len(CURATED_XSL) - 1, nc)) + ' (abbreviation subset of indent-equals-depth; br hr wbr img input link meta keep their lower case); formatting on, '
                'output.formatSkip empty, other formatting options random, plus a context row of 1-3 options over %s' % ctx_axes,
                'syntaxes %r, 2 option rows per abbreviation' % (SYNTAXES,),
                'a case is (abbreviation, syntax, options); oracle of indent-equals-depth', exhaustive=False)
    run_parallel_sorted(c5, 'bounded.c12', 'check_indent', indent_context_cases(rng, nc, 2), chunk=400)
    c5.done()

    c6 = Clause('selfclose-exact-context', 'B',
                (gen % (n_all, len(CURATED_MIXED), len(CURATED_XSL), nc)) + '; html vs xhtml vs xml self-closing style under otherwise equal '
                'options: a context row of 1-3 options over %s plus (second row on) a random formatting row' % [k for k in ctx_axes if k != 'output.compactBoolean'],
                'syntaxes %r, %d rows per abbreviation' % (SYNTAXES, crow),
                'a case is (abbreviation, syntax, options); the three outputs must be equal strings after deleting " /" resp. "/" before ">"',
                exhaustive=False)
    run_parallel_sorted(c6, 'bounded.c12', 'check_selfclose', selfclose_context_cases(rng, nc, crow), chunk=400)
    c6.done()

    # own generator state: the case lists of the six clauses above do not depend on this clause
    rng7 = random.Random(seed * 7919 + 12)
    nm, mrow = (250, 3) if quick else (2500, 4)
    c7 = Clause('indent-multiline-text', 'B',
                '%d curated abbreviations (+%d xsl ones under xsl) and %d seeded random trees per syntax (c03_tags.gen_tree) in which 20 / 50 / '
                '100 %% (at least one) of the leaf elements and text nodes carry a text of 1-3 words / fields with line breaks (LF, CRLF, CR, '
                'doubled) at the start, between pieces, directly after a field, at the end; formatting on, output.formatSkip empty, other '
                'formatting options random' % (len(CURATED_MULTILINE), len(CURATED_MULTILINE_XSL), nm),
                'syntaxes %r, %d option rows per abbreviation (the first: defaults)' % (SYNTAXES, mrow),
                'a case is (abbreviation, syntax, options); oracle of indent-equals-depth: every output line after the first, also the '
                'lines produced by the breaks of a text, starts with baseIndent + indent x open elements', exhaustive=False)
    run_parallel_sorted(c7, 'bounded.c12', 'check_indent', multiline_indent_cases(rng7, nm, mrow), chunk=400)
    c7.done()
    return [c1, c2, c3, c4, c5, c6, c7]
