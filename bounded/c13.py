"""C13 bounded stand-in: tabstops are numbered in document order; positions reported to callbacks are exact.

positions:            recording output.field / output.text callbacks; for every invocation the returned string sits at the
                      reported offset of the final result and line/column recomputed from the final result agree
positions-multiline-placeholder:  the same, for explicit fields whose placeholder contains a line break (D19)
tabstops-auto:        abbreviations without explicit fields: one tabstop per empty attribute value and per empty,
                      not self-closed leaf, numbered 1, 2, 3, ... in document order, each at its place
tabstops-explicit:    explicit ${n} / ${n:ph}: differences inside one value kept, number sets of different values disjoint
tabstops-comment:     the same with comments on and explicit fields in the attribute values that the comments repeat (round 4)
callback-positions-multiline-literal:  positions, for quoted literals (stylesheet strings, attribute values) that span lines (round 4)
tabstops-empty-forms: tabstops-auto over every spelling of "no value" ([t] [t=] [t=""] [t=''] [t={}]), snippet defaults repeated
                      by the abbreviation, all nine markup syntaxes, attribute quote style (round 5)
"""
import bisect
import random
import re

from .common import Clause
from .c03_tags import gen_tree, render_abbr, RE_NL, run_parallel_sorted

MARKUP_SYNTAXES = ['html', 'xml', 'xsl', 'jsx', 'vue', 'svelte', 'pug', 'haml', 'slim']
TAG_SYNTAXES = ['html', 'xml', 'xsl', 'jsx', 'vue', 'svelte']
STYLE_SYNTAXES = ['css', 'scss', 'sass', 'less', 'stylus', 'sss']

MARKUP_ABBRS = [
    'div', 'ul>li*3', 'ul>li.item$*2>a', 'p[title]', 'a', 'img', 'input[disabled]', '!', 'html:5', 'link', 'form>input:text+select>option*2',
    'div>p>span^ul>li', 'p>{Click }+a{here}+{ to continue}', 'p{a\nb}', 'p{a\r\nb}>b', 'div>p{line1\nline2\n}+p', 'body>div', 'p[title="a b"]{${1:x} y ${2}}',
    'ul>li[title=${1} lang=${2:en}]*2', 'div>{<!-- ${0} -->}>p', 'cc:ie>p', 'div>{foo}+p+{bar}', 'table>tr*2>td*2', 'div#a.b[c]>p.d[e=f]{g}',
    'p{${1:one}${2:two}${1}}', 'a{${0}}', 'script:src', 'video>source*2', 'p{\U0001F600 é}>b[title=é]', 'span>b+i+em', 'p>span*4', 'h$[title=item$]{Header $}*3',
    'bq>p', 'p{a}+p{}', 'br+hr', 'x-y/', 'div>(header>ul>li*2>a)+footer>p', 'select[name=n]>opt*2', 'p{ }', 'div>p{a\n\tb}',
]
XSL_ABBRS = ['xsl>tm', 'tm>ap', 'choose', 'vare>x', 'call>wp*2', 'each>val']
STYLE_ABBRS = [
    'm10', 'p10-20', 'bd1-s#f', 'c#f.5', 'fz14+lh1.5', '@f', '@ff', '@kf', '@m', 'bgi', 'trf:r', 'anim', 'lg(to right, #0, #f00.5)', 'w100p+h50p',
    'pos:a+t0+l0', 'bxsh', 'tt:u', 'm${1:10}', 'p${1}-${2}', 'foo-bar', 'd:n!', 'm10!+p5', 'bg+c+d', 'bd', 'bdb+bdt', 'ff:a', 'fw:b+fs:i', 'op.5', 'z10',
    'mt-10--5', 'gtc:repeat(2, 1fr)', '--foo:bar', 'ov:h+ov:a', 'trs', 'us:n',
]
WRAP_TEXTS = [None, None, None, 'foo', 'foo\nbar', ['a', 'b'], ['a\nb', 'c'], 'x\r\ny']

OPTION_AXES = [
    ('output.newline', ['\n', '\r\n', '\r']),
    ('output.indent', ['\t', '  ', '']),
    ('output.baseIndent', ['', '  ', '\t']),
    ('output.format', [True, True, False]),
    ('output.formatLeafNode', [False, True]),
    ('output.inlineBreak', [3, 1, 0]),
    ('comment.enabled', [False, True]),
    ('output.selfClosingStyle', [None, 'xhtml']),
    ('stylesheet.json', [False, False, True]),
]


def random_options(rng):
    o = {}
    for k, vals in OPTION_AXES:
        v = rng.choice(vals)
        if v is not None:
            o[k] = v
    return o


def _run(abbr, kind, syntax, options, text, mode):
    """expand with recording callbacks; returns (final, calls); a call is (what, args, returned, offset, line, column)"""
    from emmet import expand
    calls = []

    def field(index, placeholder, offset=None, line=None, column=None, **kw):
        if mode == 'marked':
            ret = '${%d:%s}\x01%d\x02' % (index, placeholder, len(calls))
        elif mode == 'plain':
            ret = placeholder
        elif mode == 'drop':
            ret = '${%d}' % index                       # the placeholder (and its line breaks) is not printed
        elif mode == 'empty':
            ret = ''
        elif mode == 'addbreak':
            ret = '[%d\n%s|\r\n]' % (index, placeholder)   # more lines than the placeholder has
        elif mode == 'oneline':
            ret = '${%d:%s}' % (index, ' '.join(placeholder.split()))   # fewer lines than the placeholder has
        elif mode == 'trail-lf':
            ret = placeholder + '\n'                    # returned text ends with a line break
        elif mode == 'trail-crlf':
            ret = '${%d:%s}\r\n' % (index, placeholder)
        elif mode == 'trail-many':
            ret = '%s\n\r\n\n' % placeholder
        elif mode == 'lead-lf':
            ret = '\n' + placeholder
        else:
            ret = '${%d:%s}' % (index, placeholder) if placeholder else '${%d}' % index
        calls.append(('field', (index, placeholder), ret, offset, line, column))
        return ret

    def text_cb(t, offset=None, line=None, column=None, **kw):
        if mode == 'marked' and t.strip():
            ret = '%s\x01%d\x02' % (t, len(calls))     # longer than its argument and unique in the output
        else:
            ret = t
        calls.append(('text', (t,), ret, offset, line, column))
        return ret

    opts = dict(options)
    opts['output.field'] = field
    opts['output.text'] = text_cb
    cfg = {'type': kind, 'syntax': syntax, 'options': opts}
    if text is not None:
        cfg['text'] = list(text) if isinstance(text, list) else text
    return expand(abbr, cfg), calls


def check_positions(abbr, kind, syntax, options, text, mode):
    final, calls = _run(abbr, kind, syntax, options, text, mode)
    where = '%r (%s/%s, %r, text=%r, callbacks=%s) -> %r: ' % (abbr, kind, syntax, options, text, mode, final)
    if not calls and final:
        return where + 'no callback was invoked'
    # a CR at the end of one returned string directly followed by a LF at the start of the next reads as one CRLF in
    # the result: how many lines that is, is not defined by the statement -> nothing to check for such a run
    prev = ''
    for c in calls:
        if c[2]:
            if prev.endswith('\r') and c[2].startswith('\n'):
                return None
            prev = c[2]
    ends = [m.end() for m in RE_NL.finditer(final)]       # offsets at which lines 1, 2, ... of the result start
    for n, (what, args, ret, offset, line, column) in enumerate(calls):
        if not isinstance(offset, int) or not isinstance(line, int) or not isinstance(column, int):
            return where + 'call %d output.%s%r got offset/line/column %r/%r/%r' % (n, what, args, offset, line, column)
        if final[offset:offset + len(ret)] != ret:
            return where + 'call %d output.%s%r returned %r, told offset %d, but the result has %r there' % (
                n, what, args, ret, offset, final[offset:offset + len(ret)])
        if '\x01' in ret and final.find(ret) != offset:
            return where + 'call %d output.%s%r returned %r, told offset %d, found at %d' % (n, what, args, ret, offset, final.find(ret))
        l = bisect.bisect_right(ends, offset)
        c = offset - (ends[l - 1] if l else 0)
        if (l, c) != (line, column):
            return where + 'call %d output.%s%r returned %r at offset %d = line %d column %d of the result, but was told line %d column %d' % (
                n, what, args, ret, offset, l, c, line, column)
    return None


# ---------------------------------------------------------------------------------------------
# tabstop numbering, driven by the generator's model of what was written

def _slots(nodes, out, comments=None):
    """document-order list of the values that can hold fields: ('attr', elem, attr, value|None) / ('leaf', elem) /
    ('text', elem, text) / ('comment', elem, attr, value): the value of an attribute repeated by the comment printed
    before / after a commented element (comments = c13_gen.comment_config(options) or None)"""
    for nd in nodes:
        for _ in range(nd['count']):
            commented = bool(comments and nd['name'] and any(an in comments[0] for an, _ in nd['attrs']))
            if commented:
                _comment_slots(nd, comments[1], out)
            if nd['name']:
                for an, av in nd['attrs']:
                    out.append(('attr', nd['name'], an, av))
            if nd['text'] is not None:
                out.append(('text', nd['name'], nd['text']))
            elif nd['name'] and not nd['children'] and not nd['selfclose']:
                out.append(('leaf', nd['name']))
            _slots(nd['children'], out, comments)
            if commented and not nd['selfclose']:
                _comment_slots(nd, comments[2], out)
    return out


def _comment_slots(nd, names, out):
    values = dict(nd['attrs'])
    for an in names:
        if values.get(an) is not None:
            out.append(('comment', nd['name'], an, values[an]))


RE_FIELD = re.compile(r'\$\{(\d+)(?::([^}]*))?\}')


def check_tabstops(nodes, syntax, options):
    return _check_tabstops(nodes, syntax, options, None)


def check_tabstops_comment(nodes, syntax, options):
    """tabstops of a document with comments: the comment of an element repeats attribute values, each repetition is one
    more value of the document (at its place in document order: before the open tag / after the close tag)"""
    from .c13_gen import comment_config
    return _check_tabstops(nodes, syntax, options, comment_config(options))


def _in_comment(final, off):
    return final.rfind('<!--', 0, off) > final.rfind('-->', 0, off)


def _check_tabstops(nodes, syntax, options, comments):
    abbr = render_abbr(nodes)
    final, calls = _run(abbr, 'markup', syntax, options, None, 'tm')
    fields = sorted([c for c in calls if c[0] == 'field'], key=lambda c: c[3])
    where = '%r (%s, %r) -> %r: ' % (abbr, syntax, options, final)
    slots = _slots(nodes, [], comments)
    last_auto = 0
    k = 0
    used = {}            # output index -> slot number
    explicit = any(s[0] != 'leaf' and s[-1] is not None and '${' in s[-1] for s in slots)
    auto_seen = 0
    for sn, slot in enumerate(slots):
        if slot[0] == 'leaf' or (slot[0] == 'attr' and slot[3] is None):
            want = [(0, '')]
        else:
            want = [(int(m.group(1)), m.group(2) or '') for m in RE_FIELD.finditer(slot[-1])]
        if not want:
            continue
        got = fields[k:k + len(want)]
        k += len(want)
        if len(got) < len(want):
            return where + 'value %r: %d tabstop(s) expected, output has only %d more' % (slot, len(want), len(got))
        base = None
        for (wi, wph), call in zip(want, got):
            gi, gph = call[1]
            off = call[3]
            if gph != wph:
                return where + 'value %r: tabstop with placeholder %r expected, got %r (index %d)' % (slot, wph, gph, gi)
            if base is None:
                base = gi - wi
            elif gi - wi != base:
                # "explicit fields keep their relative numbering inside one value"
                return where + 'value %r: fields %r come out as %r: relative numbering not kept' % (
                    slot, [w[0] for w in want], [c[1][0] for c in got])
            if gi in used and used[gi] != sn:
                # "never collide with tabstops of other values"
                return where + 'tabstop number %d of value %r is also used by value %r' % (gi, slot, slots[used[gi]])
            used[gi] = sn
            # placement
            before = final[:off]
            after = final[off + len(call[2]):]
            if slot[0] == 'attr' and slot[3] is None:
                if not re.search(re.escape(slot[2]) + r'=["\']$', before) or after[:1] not in ('"', "'"):
                    return where + 'tabstop %d expected as the value of attribute %s of <%s>, found after %r' % (gi, slot[2], slot[1], before[-20:])
            elif slot[0] == 'leaf':
                if not re.search(r'<%s(\s[^<>]*)?>\s*$' % re.escape(slot[1]), before) or not re.match(r'\s*</%s>' % re.escape(slot[1]), after):
                    return where + 'tabstop %d expected as the content of leaf <%s>, found between %r and %r' % (gi, slot[1], before[-20:], after[:20])
            if comments is not None:
                # every template of the generator is one <!-- ... --> : a repeated value lies inside one, no other value does
                if (slot[0] == 'comment') != _in_comment(final, off):
                    return where + 'tabstop %d of value %r found %s a comment (offset %d)' % (
                        gi, slot, 'inside' if slot[0] != 'comment' else 'outside', off)
                if slot[0] == 'leaf' or (slot[0] == 'attr' and slot[3] is None):
                    # "numbered ... in document order": whatever explicit fields do, automatic tabstops grow
                    if gi <= last_auto:
                        return where + 'automatic tabstop of %r has number %d, an earlier one has %d' % (slot, gi, last_auto)
                    last_auto = gi
        if not explicit and (slot[0] == 'leaf' or slot[3 if slot[0] == 'attr' else 2] is None):
            auto_seen += 1
            if got[0][1][0] != auto_seen:
                # "numbered 1, 2, 3, ... in document order"
                return where + 'tabstop of %r has number %d, expected %d' % (slot, got[0][1][0], auto_seen)
    if k != len(fields):
        return where + '%d tabstop(s) more than empty values / leaves / explicit fields written: %r' % (
            len(fields) - k, [c[1] for c in fields[k:]])
    return None


# ---------------------------------------------------------------------------------------------
# round 5: the spelling of an empty attribute value

INDENT_SYNTAXES = ['pug', 'haml', 'slim']
_CLOSER = {'"': '"', "'": "'", '{': '}'}


def check_tabstops_empty_forms(nodes, syntax, options):
    """no explicit field anywhere: the output.field calls in output order are exactly the attributes without a value
    (however that was written) and the empty, not self-closed leaves in document order, numbered 1, 2, 3, ...; a tabstop
    of an attribute is the whole value of that attribute (name=<quote>tabstop<quote>)"""
    from .c13_gen import render_forms
    abbr = render_forms(nodes)
    final, calls = _run(abbr, 'markup', syntax, options, None, 'tm')
    fields = sorted([c for c in calls if c[0] == 'field'], key=lambda c: c[3])
    where = '%r (%s, %r) -> %r: ' % (abbr, syntax, options, final)
    slots = [s for s in _slots(nodes, []) if s[0] == 'leaf' or (s[0] == 'attr' and s[3] is None)]
    for n, slot in enumerate(slots):
        if n >= len(fields):
            return where + '%d tabstop(s) expected (%r), output has %d: none for %r' % (len(slots), slots, len(fields), slot)
        _, (gi, gph), ret, off, _, _ = fields[n]
        if gph:
            return where + 'tabstop %d has placeholder %r, nothing was written for %r' % (gi, gph, slot)
        if gi != n + 1:
            return where + 'tabstop of %r has number %d, expected %d' % (slot, gi, n + 1)
        if final[off:off + len(ret)] != ret:
            return where + 'tabstop %d is not at its reported offset %d' % (gi, off)
        before = final[:off]
        after = final[off + len(ret):]
        if slot[0] == 'attr':
            m = re.search(r'(?:^|[\s(,])' + re.escape(slot[2]) + r'=(["\'{])$', before)
            if not m or after[:1] != _CLOSER[m.group(1)]:
                return where + 'tabstop %d expected as the whole value of attribute %s of %s, found between %r and %r' % (
                    gi, slot[2], slot[1], before[-20:], after[:20])
        elif syntax not in INDENT_SYNTAXES:
            if not re.search(r'<%s(\s[^<>]*)?>\s*$' % re.escape(slot[1]), before) or not re.match(r'\s*</%s>' % re.escape(slot[1]), after):
                return where + 'tabstop %d expected as the content of leaf <%s>, found between %r and %r' % (gi, slot[1], before[-20:], after[:20])
        # (indentation syntaxes: an element without id / class / format has no fixed text around its content; number and
        # order are checked, the place of a leaf tabstop is not)
    if len(fields) != len(slots):
        return where + '%d tabstop(s) more than attributes without value / empty leaves written: %r' % (
            len(fields) - len(slots), [c[1] for c in fields[len(slots):]])
    return None


def empty_form_cases(rng, n):
    from .c13_gen import empty_form_tree
    for i in range(n):
        syn = MARKUP_SYNTAXES[i % len(MARKUP_SYNTAXES)]
        nodes = empty_form_tree(rng, syn in INDENT_SYNTAXES)
        o = random_options(rng) if rng.random() < 0.8 else {}
        o.pop('stylesheet.json', None)
        q = rng.choice([None, None, 'single', 'double'])
        if q:
            o['output.attributeQuotes'] = q
        yield (nodes, syn, o)


MODES = ['tm', 'marked', 'plain', 'drop', 'empty', 'addbreak', 'oneline', 'trail-lf', 'trail-crlf', 'trail-many', 'lead-lf']


def position_cases(rng, n_random, rows):
    modes = MODES
    for syn in MARKUP_SYNTAXES:
        abbrs = list(MARKUP_ABBRS) + MULTILINE[:3] + MULTILINE[9:12] + (XSL_ABBRS if syn == 'xsl' else [])
        for _ in range(n_random):
            abbrs.append(render_abbr(gen_tree(rng, depth=rng.randint(1, 3), width=3, snippets=True, xsl=syn == 'xsl', fields=rng.random() < 0.5)))
        for a in abbrs:
            yield (a, 'markup', syn, {}, None, 'tm')
            for _ in range(rows):
                yield (a, 'markup', syn, random_options(rng), rng.choice(WRAP_TEXTS), rng.choice(modes))
    for syn in STYLE_SYNTAXES:
        abbrs = list(STYLE_ABBRS)
        for _ in range(n_random // 10):
            abbrs.append('+'.join(rng.choice(STYLE_ABBRS) for _ in range(rng.randint(2, 4))))
        for a in abbrs:
            yield (a, 'stylesheet', syn, {}, None, 'tm')
            for _ in range(max(rows // 2, 1)):       # a stylesheet expansion costs ~10 ms (snippet table parsed per call)
                yield (a, 'stylesheet', syn, random_options(rng), None, rng.choice(modes))


MULTILINE = [
    'p[title="${1:a\nb}"]>b', 'p{${1:a\nb}}', 'ul>li{${1:x\r\ny}}*2>b[t]', 'p{${1:a\nb} c ${2}}', 'div>p[a="${1:l1\nl2\nl3}" b]{x}',
    'p{${1:a\rb}}>i', 'p{${1:a\nb}}+p', 'div>p{${1:first line\nsecond}${2:x\ny\nz}}+b', 'p{${1:a\n\nb}t}',
    # placeholders that end (or start) with a line break, also CRLF / CR / several
    'p{${1:a\n}}', 'p{${1:a\r\n}}b', 'p{${1:a\r}}>i', 'p{${1:a\n\n}}+q', 'p[t="${1:\n}"]{x}', 'p{${1:\n}}>b', 'p{${1:\na}${2:b\n}c}',
    'ul>li{${1:x\n}}*2', 'p{${1:a\r\n\r\n}}', 'div>p{t${1:a\n}}+b[c]',
]
MULTILINE_CSS = ['p${1:a\nb}+m10', 'm${1:1\n2}-${2}+p', 'p${1:a\n}+m10', 'm${1:a\r\n}+p${2:\n}']


def multiline_cases(rng, rows):
    for a in MULTILINE:
        for syn in MARKUP_SYNTAXES:
            for mode in MODES:
                yield (a, 'markup', syn, {}, None, mode)
                for _ in range(max(rows // 2, 1)):
                    yield (a, 'markup', syn, random_options(rng), rng.choice(WRAP_TEXTS), mode)
    for a in MULTILINE_CSS:
        for syn in STYLE_SYNTAXES[:3]:
            for mode in MODES:
                yield (a, 'stylesheet', syn, {}, None, mode)
                yield (a, 'stylesheet', syn, random_options(rng), None, mode)


def tabstop_cases(rng, n, fields):
    for _ in range(n):
        nodes = gen_tree(rng, depth=rng.randint(1, 4), width=rng.randint(1, 3), fields=fields, text_nodes=not fields)
        if fields:
            _no_children_under_fields(nodes)
        o = random_options(rng)
        o.pop('stylesheet.json', None)
        yield (nodes, rng.choice(TAG_SYNTAXES), o if rng.random() < 0.8 else {})


def comment_cases(rng, n):
    from .c13_gen import comment_tree, comment_options
    for _ in range(n):
        nodes = comment_tree(rng)
        yield (nodes, rng.choice(TAG_SYNTAXES), comment_options(rng, random_options(rng) if rng.random() < 0.8 else {}))


MULTILINE_LITERALS = [
    # stylesheet: quoted string values that span lines
    ("cnt'a\nb'", 'stylesheet'), ('ff"Foo\r\nBar"+m10', 'stylesheet'), ("q'\n'+p", 'stylesheet'), ("p10+bgi:url('x\ry')+m${1}", 'stylesheet'),
    ("c'x\n'!+m", 'stylesheet'), ('bg"a\n\nb"-${1:x}-\'c\nd\'+p${2}', 'stylesheet'),
    # markup: quoted attribute values that span lines
    ('p[title="a\nb"]>b', 'markup'), ("ul>li[data-x='x\r\ny' lang]*2", 'markup'), ('div[title="a\n"]+p[t="\nb${1:c}"]{x}', 'markup'),
    ('a[href="x\ry"]{t}+i', 'markup'),
]


def literal_cases(rng, n, rows):
    from .c13_gen import style_string_abbr, markup_literal_tree
    for syn in STYLE_SYNTAXES:
        abbrs = [a for a, kind in MULTILINE_LITERALS if kind == 'stylesheet'] + [style_string_abbr(rng) for _ in range(n)]
        for a in abbrs:
            yield (a, 'stylesheet', syn, {}, None, 'tm')
            for _ in range(rows):
                yield (a, 'stylesheet', syn, random_options(rng), None, rng.choice(MODES))
    for syn in MARKUP_SYNTAXES:
        abbrs = [a for a, kind in MULTILINE_LITERALS if kind == 'markup']
        while len(abbrs) < n + 4:
            t = markup_literal_tree(rng)
            if t:
                abbrs.append(render_abbr(t))
        for a in abbrs:
            yield (a, 'markup', syn, {}, None, 'tm')
            for _ in range(rows):
                yield (a, 'markup', syn, random_options(rng), rng.choice(WRAP_TEXTS), rng.choice(MODES))


def _no_children_under_fields(nodes):
    # a text with fields *and* children is the "children go into the first field" snippet form: other property
    for nd in nodes:
        if nd['text'] and '${' in nd['text']:
            nd['children'] = []
        _no_children_under_fields(nd['children'])


def run(tier, seed):
    rng = random.Random(seed)
    quick = tier == 'quick'
    nr, rows = (400, 5) if quick else (4000, 8)
    c1 = Clause('callback-positions', 'B',
                '%d curated markup abbreviations (snippets, multi-line text, explicit fields, unicode) + %d random trees per markup syntax %r; '
                '%d curated stylesheet abbreviations + random sums per stylesheet syntax %r; options random over %s; wrap text from %r; '
'callbacks (MODES): TextMate fields / unique-marker returning (longer strings) / placeholder only / number only / '
                'empty string / extra line breaks / placeholder folded to one line'
                % (len(MARKUP_ABBRS), nr, MARKUP_SYNTAXES, len(STYLE_ABBRS), STYLE_SYNTAXES, [k for k, _ in OPTION_AXES], WRAP_TEXTS),
                'defaults + %d random (options, text, callback mode) rows per markup abbreviation and syntax, %d per stylesheet abbreviation (%d random sums per stylesheet syntax)' % (rows, max(rows // 2, 1), nr // 10),
                'a case is one expand run; every callback invocation of the run is checked: result[offset:offset+len(ret)] == ret, unique '
                'markers found exactly there, line/column recomputed from the result', exhaustive=False)
    run_parallel_sorted(c1, 'bounded.c13', 'check_positions', position_cases(rng, nr, rows), chunk=300)
    c1.done()

    c2 = Clause('callback-positions-multiline-placeholder', 'B',
'%d markup and %d stylesheet abbreviations whose explicit field placeholder contains a line break, under every '
                'callback style %r (returned text with the same, more or fewer lines than the placeholder)' % (len(MULTILINE), len(MULTILINE_CSS), MODES),
                'all markup syntaxes x callback styles x (defaults + %d random option/wrap-text rows); 3 stylesheet syntaxes' % max(rows // 2, 1),
                'as callback-positions', exhaustive=False)
    run_parallel_sorted(c2, 'bounded.c13', 'check_positions', multiline_cases(rng, rows), chunk=50)
    c2.done()

    nt = 80000 if quick else 600000
    c3 = Clause('tabstops-auto', 'B',
                'seeded random trees without explicit fields (elements with empty / non-empty attributes, text, void elements, repeaters)',
                '%d trees, depth <= 4, width <= 3, syntaxes %r, random options' % (nt, TAG_SYNTAXES),
                'a case is (tree, syntax, options); the recorded output.field calls in output order must be exactly the empty attribute '
                'values and empty leaves of the tree in document order, numbered 1..N, each located in its attribute / element', exhaustive=False)
    run_parallel_sorted(c3, 'bounded.c13', 'check_tabstops', tabstop_cases(rng, nt, False), chunk=300)
    c3.done()

    c4 = Clause('tabstops-explicit', 'B',
                'seeded random trees with explicit ${n} / ${n:ph} fields in texts and attribute values',
                '%d trees, depth <= 4, width <= 3, field numbers 0..4, up to 2 fields per value' % nt,
                'a case is (tree, syntax, options); inside one value output number minus written number is constant; the number sets of '
                'different values (including automatic tabstops) are disjoint; placeholders are passed unchanged', exhaustive=False)
    run_parallel_sorted(c4, 'bounded.c13', 'check_tabstops', tabstop_cases(rng, nt, True), chunk=300)
    c4.done()

    # round 4.  A separate generator (seeded from the run seed) so that the cases of the clauses above stay what they were.
    rng4 = random.Random(seed * 7919 + 4)
    nc = 12000 if quick else 120000
    c5 = Clause('tabstops-comment', 'B',
                'seeded random trees with comments switched on (comment.enabled) in which about half of the elements have an id and / or class '
                'value with explicit ${n} / ${n:ph} fields (other attribute values and texts with fields, empty attributes, leaves, voids, '
                'repeaters as in tabstops-explicit); comment.trigger, comment.before and comment.after from small tables (default, '
                'templates that print id / class / title / role / lang / data-x, the same attribute twice, empty)',
                '%d trees, depth <= 4, width <= 3, syntaxes %r, random output options' % (nc, TAG_SYNTAXES),
                'as tabstops-explicit, where every attribute value repeated by a comment is one more value of the document, placed before '
                'the open tag / after the close tag of its element: relative numbering kept inside it, its numbers used by no other value '
                '(automatic tabstops included), it lies inside <!-- -->, no other tabstop does; automatic tabstops grow in document order',
                exhaustive=False)
    run_parallel_sorted(c5, 'bounded.c13', 'check_tabstops_comment', comment_cases(rng4, nc), chunk=300)
    c5.done()

    nl, lrows = (30, 2) if quick else (300, 4)
    c6 = Clause('callback-positions-multiline-literal', 'B',
                'abbreviations with a quoted literal that spans several lines (LF / CRLF / CR / empty lines, breaks at the start and at '
                'the end of the literal): %d curated + %d random stylesheet abbreviations per stylesheet syntax %r (quoted string values alone, '
                'next to numbers / fields / other strings / !important, inside function calls; summed with ordinary properties, '
                'multi-line snippets and fields) and 4 curated + %d random trees per markup syntax %r with multi-line attribute values / texts'
                % (len([1 for _, k in MULTILINE_LITERALS if k == 'stylesheet']), nl, STYLE_SYNTAXES, nl, MARKUP_SYNTAXES),
                'defaults + %d random (options, wrap text, callback style) rows per abbreviation and syntax' % lrows,
                'as callback-positions', exhaustive=False)
    run_parallel_sorted(c6, 'bounded.c13', 'check_positions', literal_cases(rng4, nl, lrows), chunk=40)
    c6.done()

    # round 5 (own generator again: the cases of the clauses above stay what they were)
    rng5 = random.Random(seed * 7919 + 5)
    ne = 12000 if quick else 120000
    c7 = Clause('tabstops-empty-forms', 'B',
                'seeded random trees without explicit fields as in tabstops-auto, in which every attribute without a value is written '
                'in one of the spellings [t] / [t=] / [t=""] / [t=\'\'] / [t={}] (40 %% of the valued attributes are emptied too); a quarter '
                'of the elements are snippet elements with default attributes (a, form, map; img for voids), half of '
                'whose defaults are repeated by the abbreviation in one of the spellings; output.attributeQuotes single / double / '
                'not given next to the random output options of the other clauses',
                '%d trees (each with at least one attribute without a value), depth <= 4, width <= 3, round-robin over all markup syntaxes %r' % (ne, MARKUP_SYNTAXES),
                'as tabstops-auto: the recorded output.field calls in output order are exactly the attributes without a value and the '
                'empty not self-closed leaves in document order, numbered 1..N, no placeholder; an attribute tabstop is the whole value '
                '(name=, quote or brace, tabstop, matching closer); a leaf tabstop sits between its tags (tag syntaxes; place of a leaf '
                'tabstop not checked in pug, haml, slim)', exhaustive=False)
    run_parallel_sorted(c7, 'bounded.c13', 'check_tabstops_empty_forms', empty_form_cases(rng5, ne), chunk=300)
    c7.done()
    return [c1, c2, c3, c4, c5, c6, c7]
