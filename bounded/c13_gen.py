"""C13 generators added in round 4 (see notes/C13.md, "Round 4"):

* comment templates / triggers and trees whose commented attributes (id, class, ...) hold explicit fields
* abbreviations with *quoted literals that span several lines*: stylesheet string values and markup attribute values
"""
from .c03_tags import gen_tree, ATTR_NAMES

# ---------------------------------------------------------------------------------------------
# comments (`comment.enabled`, the "c" filter).  Documented behaviour (emmet/config.py: "comment.*" options and
# format/template.py docstring): an element that has one of the `comment.trigger` attributes gets `comment.before`
# printed before its open tag and `comment.after` after its close tag (an element without close tag has no "after");
# a `[xNAMEy]` placeholder of the template prints x + value of attribute `name` + y when the element has a value for that
# attribute and nothing otherwise.  Each table entry is (template text, names of the attributes it prints, in order),
# written by hand -- the oracle never parses a template.

DEFAULT_AFTER = '\n<!-- /[#ID][.CLASS] -->'
AFTER_TEMPLATES = [
    (None, ['id', 'class']),                                      # option not given: the default above
    (None, ['id', 'class']),
    (DEFAULT_AFTER, ['id', 'class']),
    ('<!-- /[ID] -->', ['id']),
    ('\n<!-- end [.CLASS] [TITLE] [#ID] -->', ['class', 'title', 'id']),
    ('<!-- [ROLE|][LANG|][DATA-X] -->', ['role', 'lang', 'data-x']),
    ('<!-- /[#ID][.CLASS] | [#ID] -->\n', ['id', 'class', 'id']),  # the same value repeated twice in one comment
    ('', []),
]
BEFORE_TEMPLATES = [
    (None, []), (None, []), (None, []),
    ('<!-- [#ID][.CLASS] -->\n', ['id', 'class']),
    ('<!-- [TITLE]: [CLASS] -->', ['title', 'class']),
    ('<!-- begin[ ID][ ROLE][ LANG] -->\n', ['id', 'role', 'lang']),
]
TRIGGERS = [None, None, None, ['id'], ['class', 'title'], ['id', 'class', 'role', 'lang', 'data-x', 'title'], ['data-x', 'lang']]

TEMPLATE_NAMES = dict((t, names) for t, names in AFTER_TEMPLATES + BEFORE_TEMPLATES if t is not None)


def comment_options(rng, base):
    o = dict(base)
    o.pop('stylesheet.json', None)
    o['comment.enabled'] = True
    t = rng.choice(TRIGGERS)
    if t is not None:
        o['comment.trigger'] = list(t)
    a = rng.choice(AFTER_TEMPLATES)[0]
    if a is not None:
        o['comment.after'] = a
    b = rng.choice(BEFORE_TEMPLATES)[0]
    if b is not None:
        o['comment.before'] = b
    return o


def comment_config(options):
    """what the comment options of a case say: (trigger names, attributes printed before, attributes printed after)"""
    if not options.get('comment.enabled'):
        return None
    trigger = options.get('comment.trigger', ['id', 'class'])
    after = options.get('comment.after', DEFAULT_AFTER)
    before = options.get('comment.before', '')
    return trigger, (TEMPLATE_NAMES[before] if before else []), (TEMPLATE_NAMES[after] if after else [])


def _field_value(rng, words):
    k = rng.randint(0, 2)
    w = rng.choice(words)
    return rng.choice(['${%d}' % k, '${%d:%s}' % (k, w), '${%d:%s}' % (k, w), w + '${%d}' % k, '${%d:a}-${%d:b}' % (k, k + 1),
                       'pre${%d}${%d:q}' % (k + 1, k), '%s-${%d:n}' % (w, k), '${%d:%s}${%d}' % (k + 2, w, k)])


def comment_tree(rng):
    """a random tree (elements, texts and attribute values with and without explicit fields, empty attributes, voids,
    repeaters) in which about half of the elements carry an id and / or class value *with explicit fields*"""
    nodes = gen_tree(rng, depth=rng.randint(1, 4), width=rng.randint(1, 3), fields=True, text_nodes=False)
    _inject(rng, nodes)
    return nodes


def _inject(rng, nodes):
    for nd in nodes:
        if nd['text'] and '${' in nd['text']:
            nd['children'] = []          # text with fields and children: children replace the first field (other property)
        if nd['name'] and rng.random() < 0.5:
            attrs = [a for a in nd['attrs']]
            r = rng.random()
            if r < 0.6:
                attrs = [a for a in attrs if a[0] != 'id']
                attrs.insert(0, ('id', _field_value(rng, ['main', 'i1', 'name'])))
            if r > 0.4:
                attrs = [a for a in attrs if a[0] != 'class']
                attrs.insert(1 if attrs and attrs[0][0] == 'id' else 0, ('class', _field_value(rng, ['item', 'c1', 'a b'])))
            nd['attrs'] = attrs
        _inject(rng, nd['children'])


# ---------------------------------------------------------------------------------------------
# quoted literals that span several lines

BREAKS = ['\n', '\n', '\n', '\r\n', '\r\n', '\r', '\n\n', '\r\n\r\n', '\n\r']
LIT_WORDS = ['one', 'two', 'Foo Bar', 'x', 'é', '', '', 'a.b', '#f00', '10px', ' ', 'z;']


def multiline_literal(rng, extra=()):
    """text with 1-3 line breaks (LF / CRLF / CR / empty lines), also at its start and at its end"""
    words = LIT_WORDS + list(extra)
    s = rng.choice(words)
    for _ in range(rng.randint(1, 3)):
        s += rng.choice(BREAKS) + rng.choice(words)
    return s


STYLE_STRING_PROPS = ['cnt', 'ff', 'bgi', 'q', 'foo', 'bg', 'c', 'fancy-prop', 'm', 'p', 'lh', 'bd']
STYLE_FILLERS = ['m10', 'p${1}', 'm${1:auto}-${2}', 'bd1-s#f', 'c#f.5', 'p10-20', 'd:n!', 'pos:a', 'z10', 'foo-bar', '@kf', 'fz14',
                 'lg(to right, #0, #f00.5)', 'w100p', 'bgi', 'p${2:a}${1}', 'm']


def _quoted(rng, text):
    q = rng.choice('\'"')
    return q + text + q


def style_string_part(rng):
    """one property whose value holds a quoted string with line breaks, alone or next to numbers, fields, other
    strings, `!`, or inside a function call"""
    s = _quoted(rng, multiline_literal(rng, ['${1:z}', 'url(x)']))
    r = rng.randint(0, 9)
    prop = rng.choice(STYLE_STRING_PROPS)
    if r == 0:
        return prop + s + ',' + _quoted(rng, rng.choice(['Bar', 'x y', multiline_literal(rng)]))
    if r == 1:
        return prop + s + '-${%d:ph}' % rng.randint(0, 2)
    if r == 2:
        return prop + '${%d}-' % rng.randint(0, 2) + s
    if r == 3:
        return prop + '10' + s
    if r == 4:
        return prop + s + '!'
    if r == 5:
        return rng.choice(['bgi:url(%s)', 'lg(to right,%s)', 'foo:bar(%s,2)', 'trf:r(%s)']) % s
    if r == 6:
        return prop + s + _quoted(rng, multiline_literal(rng))
    if r == 7:
        return prop + ':' + s
    return prop + s


def style_string_abbr(rng):
    n = rng.randint(1, 4)
    at = rng.randrange(n)
    parts = []
    for i in range(n):
        if i == at or rng.random() < 0.25:
            parts.append(style_string_part(rng))
        else:
            parts.append(rng.choice(STYLE_FILLERS))
    return '+'.join(parts)


def markup_literal_tree(rng):
    """a random tree in which at least one element has an attribute value (quoted in the abbreviation) or a text with
    line breaks; the value may also hold explicit fields"""
    fields = rng.random() < 0.5
    nodes = gen_tree(rng, depth=rng.randint(1, 3), width=3, fields=fields, text_nodes=False)
    named = []
    _named(nodes, named)
    if not named:
        return None
    rng.shuffle(named)
    for nd in named[:rng.randint(1, 3)]:
        free = [a for a in ATTR_NAMES if a not in [x[0] for x in nd['attrs']]]
        if free and rng.random() < 0.8:
            nd['attrs'].insert(rng.randint(0, len(nd['attrs'])), (rng.choice(free), multiline_literal(rng, ['${1:z}', '${0}'] if fields else ())))
        elif not nd['selfclose']:
            nd['text'] = multiline_literal(rng)
    return nodes


def _named(nodes, out):
    for nd in nodes:
        if nd['name']:
            out.append(nd)
        _named(nd['children'], out)


# ---------------------------------------------------------------------------------------------
# round 5: every *spelling* of an attribute without a value, in every markup syntax (see notes/C13.md, "Round 5")
#
# An abbreviation can say "this attribute has no value" in five ways: `[t]`, `[t=]`, `[t=""]`, `[t='']`, `[t={}]`.
# The statement speaks of "every empty attribute value", not of how the emptiness was written, so each of them is one
# tabstop.  A node of the trees below has, next to the usual keys, 'written': [(name, value|None, form)] -- what
# render_forms() prints -- while 'attrs' is the model the oracle reads: the attributes of the element in document order
# (defaults of a snippet element first, see EMPTY_DEFAULTS).

EMPTY_FORMS = ['bare', 'eq', 'dq', 'sq', 'expr']
_FORM_TEXT = {'bare': '[%s]', 'eq': '[%s=]', 'dq': '[%s=""]', 'sq': "[%s='']", 'expr': '[%s={}]'}

# Emmet's documented html snippets that only add attributes without a value (cheat sheet: a -> <a href="">, img -> <img src="" alt="">,
# form -> <form action="">, map -> <map name="">); written by hand.  (label -> <label for=""> is left out: jsx prints `for` under another name.)
EMPTY_DEFAULTS = {'a': ['href'], 'form': ['action'], 'map': ['name']}
EMPTY_DEFAULTS_VOID = {'img': ['src', 'alt']}


def empty_form_tree(rng, indent_syntax):
    """a random tree without explicit fields in which every attribute without a value is written in one of EMPTY_FORMS;
    some valued attributes are emptied, some elements become snippet elements (whose default attributes the abbreviation
    may repeat, again in any form)"""
    while True:
        nodes = gen_tree(rng, depth=rng.randint(1, 4), width=rng.randint(1, 3), fields=False, text_nodes=not indent_syntax)
        if _empty_forms(rng, nodes) > 0:
            return nodes


def _empty_forms(rng, nodes):
    n = 0
    for nd in nodes:
        if nd['name']:
            written = []
            for an, av in nd['attrs']:
                if an not in ('id', 'class') and av is not None and rng.random() < 0.4:
                    av = None
                written.append([an, av, rng.choice(EMPTY_FORMS) if av is None else None])
            if not written and rng.random() < 0.3:
                written.append([rng.choice(ATTR_NAMES), None, rng.choice(EMPTY_FORMS)])
            defaults = []
            r = rng.random()
            if nd['selfclose'] and nd['count'] == 1 and r < 0.5:
                nd['name'] = rng.choice(sorted(EMPTY_DEFAULTS_VOID))
                defaults = EMPTY_DEFAULTS_VOID[nd['name']]
                nd['selfclose'] = 'snippet'           # self-closing by its snippet: no `/` is written
            elif not nd['selfclose'] and r < 0.25:
                nd['name'] = rng.choice(sorted(EMPTY_DEFAULTS))
                defaults = EMPTY_DEFAULTS[nd['name']]
            for d in defaults:
                if rng.random() < 0.5:
                    # the abbreviation repeats the default attribute, at a random place among the written ones
                    written.insert(rng.randint(0, len(written)), [d, None, rng.choice(EMPTY_FORMS)])
            # an attribute of the snippet keeps its place, the others follow in the order written
            nd['attrs'] = [[d, None] for d in defaults] + [[an, av] for an, av, _ in written if an not in defaults]
            nd['written'] = written
            n += len([1 for w in written if w[1] is None])
        n += _empty_forms(rng, nd['children'])
    return n


def render_forms(nodes):
    parts = []
    for nd in nodes:
        s = nd['name']
        for an, av, form in nd.get('written', []):
            if an == 'id' and av is not None:
                s += '#' + av
            elif an == 'class' and av is not None:
                s += '.' + av
            elif av is None:
                s += _FORM_TEXT[form] % an
            else:
                s += '[%s="%s"]' % (an, av)
        if nd['text'] is not None:
            s += '{%s}' % nd['text']
        if nd['selfclose'] is True:
            s += '/'
        if nd['count'] != 1:
            s += '*%d' % nd['count']
        if nd['children']:
            inner = render_forms(nd['children'])
            if nd['name'] == '' or len(nodes) > 1:
                s = '(%s>%s)' % (s, inner)
            else:
                s = '%s>%s' % (s, inner)
        parts.append(s)
    return '+'.join(parts)
