"""C14: a markup snippet alias expands exactly like its definition, and snippet resolution ends.

Clauses (every oracle is a sentence of the statement of C14; outputs are compared as strings at emmet.expand):

F `snippet-keys`     -- "multi-key snippet tables": every `|`-separated part of every raw key of snippets/html.py, xsl.py,
                        pug.py is a name of the parsed table (emmet.snippets.markup_snippets / xsl_snippets /
                        pug_snippets) and maps to that raw key's value.
F `builtin-alias`    -- "expanding a markup snippet name gives the same result as expanding the snippet's definition in its
                        place": for every markup syntax S and every name N of the table that applies to S (the html table
                        for every markup syntax, overlaid by the xsl table for S = xsl and by the pug table for S = pug; the
                        name -> definition map is built here from the *raw* tables by splitting keys at `|`, i.e.
                        independently of parse_snippets and of config merging): expand(N, S) == expand(definition(N), S).
B `alias-decorated`  -- "attributes, text, repeaters and the self-closing mark written on the alias are applied to the
                        top-level elements of the definition and children go into its deepest element": every built-in
                        name with a fixed set of decorations inside a fixed set of surrounding abbreviations, compared
                        with the definition spelled out: the decoration is appended textually to every top-level
                        element of the definition text (before its `/`), children are appended at the end of the
                        definition (its deepest element), a repeater is written as `(definition)*N` ("the definition
                        in its place").  Shapes for which the textual spelling is not the statement's meaning are
                        skipped and counted as trivial (see `spell()`).
B `alias-nested`     -- sentences 1 and 2 for an alias written among the children / deeper descendants of another alias (the
                        same name, a synonym with the same definition text, a name on the outer alias's resolution chain, a
                        random other name; built-in tables and acyclic user tables): the abbreviation must expand like the
                        same abbreviation with both / only the outer / only the inner occurrence replaced by its definition.
B `alias-after-history` -- sentence 1 again, *after earlier calls*: calls that raise inside nested snippet resolution (complete over
                        the alias chains of the built-in tables), at top level, in the parser; and calls that succeed with decorated
                        snippet-backed elements; then every built-in name must still expand like its definition (also with one
                        `cache` dict shared by all calls).
B `user-tables`      -- random user snippet tables of 1..5 snippets (definitions over the user names themselves -- so self
                        and mutual references occur --, fresh names and the built-ins a / img / inp): (1) every
                        expansion returns within 5 s of CPU time and raises nothing (in particular no RecursionError); (2) the
                        number of simultaneously active snippet resolutions (frames of `resolve` in
                        emmet/markup/snippets.py, observed with sys.setprofile) never exceeds the number of snippets
                        involved (user snippets + 1 for a / img, + 2 for inp -> input); (3) for a name from which no
                        cycle is reachable: expand(name) == expand(definition) and the decorated forms agree as above.

B `alias-decorated-options` -- sentence 2 under *output options* (`output.reverseAttributes` alone and combined with
                        selfClosingStyle / compactBoolean / attributeQuotes / format, and a profile without the reversed order):
                        built-in names with attribute-bearing decorations, and seeded acyclic user tables whose definitions have
                        1..4 top-level elements with attributes of their own.  Two oracles: (1) alias form == definition
                        spelled out, compared *modulo the order of the attributes inside each tag* when the reversed order is
                        on (the statement does not say where the alias's attributes go there, but it does say which element
                        gets which attributes); (2) "applied to the top-level elements": an alias whose definition is
                        E1+...+En must expand exactly like the n one-element aliases zq1 -> E1 ... zqn -> En written side
                        by side with the same decoration.

B `self-rooted-definitions` -- user snippets *named after the root element of their own definition* (`ul -> ul>li.item*2>a`, the usual
                        way to give an element a default content; also reached through another alias `wrap -> ul`), with other
                        aliases (built-in or user) below the root.  Two oracles: (1) "resolution ends, nesting no deeper than the
                        number of snippets" leaves the self-reference a plain element, so the alias must expand like the same
                        definition stored under a fresh name that occurs nowhere (root names that are not built-in names);
                        (2) sentence 1 for the alias occurrence *inside* the definition: the table must behave like the table in
                        which that occurrence is replaced by its own definition spelled out.

Not checked, and why: the *position* of the alias's attributes among the definition's under `output.reverseAttributes` (the
statement does not define it; which element gets which attributes IS checked, see alias-decorated-options); `$` numbering and
implicit repeaters *inside* definitions (statement silent);
alias == definition for names on a cycle (the cycle cut necessarily breaks the equation one level down); wrap text.
"""
import json
import random

from .common import Clause, run_parallel, run_cases

MARKUP_SYNTAXES = ['html', 'xml', 'xsl', 'jsx', 'js', 'pug', 'slim', 'haml', 'vue', 'svelte']
TIMEOUT = 5.0


# ------------------------------------------------------------------------------------------------ tables
def raw_tables():
    from emmet.snippets.html import snippets as H
    from emmet.snippets.xsl import snippets as X
    from emmet.snippets.pug import snippets as P
    return {'html': H, 'xsl': X, 'pug': P}


_DEFS = {}


def definitions(syntax):
    """name -> definition for a syntax, from the raw tables (own `|` splitting)"""
    key = syntax if syntax in ('xsl', 'pug') else 'html'
    if key in _DEFS:
        return _DEFS[key]           # read-only for all callers
    raw = raw_tables()
    out = {}
    for t in ['html'] + ([syntax] if syntax in ('xsl', 'pug') else []):
        for k, v in raw[t].items():
            for part in k.split('|'):
                out[part] = v
    _DEFS[key] = out
    return out


_TIMEOUTS = [0]
_MEMERRS = [0]
_LIMITED = []


def _limit_memory(lower=None):
    """once per process (again with `lower` after repeated MemoryErrors, see _timed): cap the data segment at 3 GB (a regular run needs < 100 MB per worker). On a tree where a corrupted
    shared object makes expansions grow exponentially, a call can allocate gigabytes before the CPU-time alarm fires; with the
    cap it gets a MemoryError instead (reported like any other difference) and the machine is not driven into swap"""
    if not _LIMITED or lower:
        import resource
        _LIMITED.append(True)
        try:
            soft, hard = resource.getrlimit(resource.RLIMIT_DATA)
            cap = lower or (3 << 30)
            if hard != resource.RLIM_INFINITY:
                cap = min(cap, hard)
            resource.setrlimit(resource.RLIMIT_DATA, (cap, hard))
        except (ValueError, OSError):
            pass



class _Slow(Exception):
    pass


class _Timeout(BaseException):
    pass


def _alarm(signum, frame):
    raise _Timeout()


def _timed(f, what):
    "f() under the CPU-time alarm; _Slow (reported as a violation by the check functions) when it does not return"
    import signal
    _limit_memory()
    old = signal.signal(signal.SIGVTALRM, _alarm)
    # after 3 time-outs in this process the alarm drops to 0.3 s (still > 20x the slowest regular call): a tree on which
    # expansions blow up must not stall the whole run
    signal.setitimer(signal.ITIMER_VIRTUAL, TIMEOUT if _TIMEOUTS[0] < 3 else 0.3)
    try:
        try:
            return f()
        finally:
            signal.setitimer(signal.ITIMER_VIRTUAL, 0)
            signal.signal(signal.SIGVTALRM, old)
    except _Timeout:
        _TIMEOUTS[0] += 1
        raise _Slow('%s did not return within %.0f s of CPU time' % (what, TIMEOUT))
    except MemoryError:
        # reported like a call that does not return; after 2 of them in this process the cap drops to 768 MB so that a tree
        # on which merged values grow without bound fails fast instead of filling 3 GB per case
        _MEMERRS[0] += 1
        if _MEMERRS[0] == 2:
            _limit_memory(768 << 20)
        raise _Slow('%s ran out of memory (data segment capped at %s; a regular call needs < 100 MB)' % (
            what, '3 GB' if _MEMERRS[0] <= 2 else '768 MB'))


def _reports_slow(check):
    import functools

    @functools.wraps(check)
    def wrapper(*args):
        try:
            return check(*args)
        except _Slow as e:
            return str(e)
    return wrapper


def _expand(abbr, syntax, extra=None):
    from emmet import expand
    cfg = {'type': 'markup', 'syntax': syntax}
    if extra:
        cfg.update(json.loads(json.dumps(extra)))
    return _timed(lambda: expand(abbr, cfg), 'expand(%r, %s)' % (abbr, json.dumps(cfg, sort_keys=True, default=repr)[:200]))


# ------------------------------------------------------------------------------------------------ F clauses
def check_key(table, raw_key):
    import emmet.snippets as S
    raw = raw_tables()[table]
    parsed = {'html': S.markup_snippets, 'xsl': S.xsl_snippets, 'pug': S.pug_snippets}[table]
    for part in raw_key.split('|'):
        if part not in parsed:
            return 'part %r of raw key %r of the %s table is not a name of the parsed table' % (part, raw_key, table)
        if parsed[part] != raw[raw_key]:
            return 'part %r of raw key %r of the %s table maps to %r, the key\'s value is %r' % (part, raw_key, table, parsed[part], raw[raw_key])
    return None


@_reports_slow
def check_alias(syntax, name, options):
    d = definitions(syntax)[name]
    extra = {'options': options} if options else None
    a = _expand(name, syntax, extra)
    b = _expand(d, syntax, extra)
    if a != b:
        return 'syntax %s%s: expand(%r) = %r but expand(definition %r) = %r' % (syntax, ' options %r' % options if options else '', name, a, d, b)
    return None


# ------------------------------------------------------------------------------------------------ spelling out
def split_top(defn):
    """(top-level sibling segments before the first top-level `>`, rest of the text starting at that `>`) or None if the
    text uses `^` at top level (not needed for the built-in tables)"""
    depth = {'[': 0, '{': 0, '(': 0}
    close = {']': '[', '}': '{', ')': '('}
    quote = None
    segs, cur = [], []
    i = 0
    while i < len(defn):
        ch = defn[i]
        if quote:
            if ch == quote:
                quote = None
        elif depth['{']:
            if ch == '{':
                depth['{'] += 1
            elif ch == '}':
                depth['{'] -= 1
        elif ch in '"\'' and depth['[']:
            quote = ch
        elif ch in depth:
            depth[ch] += 1
        elif ch in close:
            depth[close[ch]] -= 1
        elif not any(depth.values()):
            if ch == '^':
                return None
            if ch == '+':
                segs.append(''.join(cur))
                cur = []
                i += 1
                continue
            if ch == '>':
                segs.append(''.join(cur))
                return segs, defn[i:]
        cur.append(ch)
        i += 1
    segs.append(''.join(cur))
    return segs, ''


def _has_top(seg, what):
    "does the element text contain character `what` outside of [...] / {...} / quotes"
    d_sq = d_cu = 0
    quote = None
    for ch in seg:
        if quote:
            if ch == quote:
                quote = None
        elif d_cu:
            d_cu += (ch == '{') - (ch == '}')
        elif d_sq:
            if ch in '"\'':
                quote = ch
            d_sq += (ch == '[') - (ch == ']')
        elif ch == '[':
            d_sq += 1
        elif ch == '{':
            if what == '{':
                return True
            d_cu += 1
        elif ch == what:
            return True
    return False


def _drop_top_text(seg):
    "the element text without its own `{...}` part (outside of [...] and quotes)"
    out = []
    d_sq = d_cu = 0
    quote = None
    for ch in seg:
        if quote:
            if ch == quote:
                quote = None
        elif d_cu:
            d_cu += (ch == '{') - (ch == '}')
            continue
        elif d_sq:
            if ch in '"\'':
                quote = ch
            d_sq += (ch == '[') - (ch == ']')
        elif ch == '[':
            d_sq += 1
        elif ch == '{':
            d_cu += 1
            continue
        out.append(ch)
    return ''.join(out)


def spell(defn, attrs='', text='', close=False, rep='', child=''):
    """the definition with the alias's decoration written out, or None where a textual spelling would not express the
    statement: a top-level group in the definition; a
    child where the definition contains a repeater, ends in a group, uses `^`, or ends in a text-only node (the statement says
    children go into the deepest *element*)"""
    st = split_top(defn)
    if st is None:
        return None
    tops, tail = st
    new = []
    for seg in tops:
        if not seg or seg[0] == '(':
            return None
        had_close = seg.endswith('/') and not seg.endswith('\\/')
        core = seg[:-1] if had_close else seg
        if text and _has_top(core, '{'):
            # the alias's text replaces the text of the definition's element ("text written on the alias is applied")
            core = _drop_top_text(core)
        new.append(core + attrs + text + ('/' if (had_close or close) else ''))
    s = '+'.join(new) + tail
    if child:
        if '^' in defn or '*' in defn or defn.rstrip().endswith(')'):
            # with a repeater in the definition the text `...*2>child` gives children to every copy, the statement's
            # "deepest element" is one element: no textual spelling
            return None
        # last element of the definition text must be a real element (not a text-only node, not a group)
        t2 = split_top(defn)
        tops2, tail2 = t2
        last = tops2[-1]
        rest = tail2
        while rest:
            inner = split_top(rest[1:])
            if inner is None:
                return None
            tops3, rest = inner
            last = tops3[-1]
        if last.startswith('{') or last.startswith('('):
            return None
        s += child
    if rep:
        s = '(' + s + ')' + rep
    return s


DECORATIONS = [
    # (attrs, text, close, rep, child)
    ('[x=y]', '', False, '', ''),
    ('.k', '', False, '', ''),
    ('#i.k', '', False, '', ''),
    ('[href=z title]', '', False, '', ''),
    ('', '{T}', False, '', ''),
    ('', '', True, '', ''),
    ('', '', False, '*2', ''),
    ('', '', False, '', '>b'),
    ('', '', False, '', '>b+i'),
    ('', '', False, '', '>b>i'),
    ('[x=y]', '{T}', False, '', ''),
    ('.k$', '', False, '*3', ''),
    ('[x=y]', '', True, '', ''),
    ('.k', '', False, '*2', '>b'),
    ('#i', '{T}', False, '*2', '>b+i'),
    ('', '', True, '*2', ''),
]
CONTEXTS = ['%s', 'p>%s', '%s+q', 'ul>%s+q', '(%s)*2', 'p*2>%s']


def alias_form(name, attrs, text, close, rep, child):
    return name + attrs + text + rep + ('/' if close else '') + child


@_reports_slow
def check_decorated(syntax, name, defn, deco, context, snippets):
    attrs, text, close, rep, child = deco
    sp = spell(defn, attrs, text, close, rep, child)
    if sp is None:
        return None
    extra = {'snippets': snippets} if snippets else None
    x = alias_form(name, attrs, text, close, rep, child)
    y = sp
    if context != '%s':
        # "the definition in its place" inside a larger abbreviation is the definition as a group
        y = '(' + y + ')'
        if child and not context.endswith('%s'):
            # something follows: keep it a sibling of the alias, not of the children added to the alias
            x = '(' + x + ')'
    x = context % x
    y = context % y
    a = _expand(x, syntax, extra)
    b = _expand(y, syntax, extra)
    if a != b:
        return 'syntax %s%s: alias %r has definition %r; expand(%r) = %r but with the definition spelled out expand(%r) = %r' % (
            syntax, ' snippets %r' % snippets if snippets else '', name, defn, x, a, y, b)
    return None


def decorated_is_nontrivial(args):
    syntax, name, defn, deco, context, snippets = args
    return spell(defn, *deco) is not None


# ------------------------------------------------------------------------------------------------ aliases under aliases
# An alias written among the children / deeper descendants of another alias (the same name, a synonym with the same
# definition text, a name on the outer alias's own resolution chain, or an unrelated one).  Sentence 1 holds for *every*
# occurrence of a snippet name in an abbreviation, sentence 2 says where the children of the outer alias go; so each
# occurrence may be replaced by its definition independently of the other.
NESTED_SHAPES = [
    # (context, outer attrs, outer text, outer repeater, link between outer alias and inner alias, inner decoration)
    ['%s', '', '', '', '>%s', ['', '', False, '', '']],                    # X>Y
    ['%s', '', '', '', '>e>%s', ['', '', False, '', '']],                  # X>e>Y
    ['%s', '', '', '', '>e+%s', ['', '', False, '', '']],                  # X>e+Y
    ['%s', '', '', '', '>%s+e', ['', '', False, '', '']],                  # X>Y+e
    ['%s', '', '', '', '>e>f>%s', ['', '', False, '', '']],                # X>e>f>Y
    ['%s', '', '', '', '>(e>%s)+f', ['', '', False, '', '']],              # X>(e>Y)+f
    ['%s', '', '', '', '>%s', ['', '', False, '', '>b']],                  # X>Y>b
    ['%s', '[x=y]', '', '', '>e>%s', ['.k', '{T}', False, '', '']],        # X[x=y]>e>Y.k{T}
    ['%s', '', '', '*2', '>%s', ['', '', False, '*2', '']],                # X*2>Y*2
    ['%s', '.k', '{T}', '', '>e>%s+f', ['[x=y]', '', False, '', '>b+i']],  # X.k{T}>e>(Y[x=y]>b+i)+f
    ['p>%s+q', '', '', '', '>e>%s', ['', '', True, '', '']],               # p>(X>e>Y/)+q
    ['ul>%s', '', '', '', '>%s', ['#i', '', False, '', '>b']],             # ul>X>Y#i>b
]


def nested_forms(defx, defy, outer, inner, shape):
    """the four spellings of one case, or None where spell() has no textual spelling:
    [outer alias + inner alias, both definitions, outer definition + inner alias, outer alias + inner definition]"""
    ctx, oattrs, otext, orep, link, ideco = shape
    ideco = list(ideco)
    in_alias = alias_form(inner, *ideco)
    in_spelled = spell(defy, *ideco)
    if in_spelled is None:
        return None
    if ideco[4] and not link.endswith('%s'):
        in_alias = '(' + in_alias + ')'
    kids = [link % in_alias, link % ('(' + in_spelled + ')')]
    forms = []
    for outer_is_alias, k in ((True, 0), (False, 1), (False, 0), (True, 1)):
        if outer_is_alias:
            f = alias_form(outer, oattrs, otext, False, orep, kids[k])
        else:
            f = spell(defx, oattrs, otext, False, orep, kids[k])
            if f is None:
                return None
        if ctx != '%s':
            if not outer_is_alias or not ctx.endswith('%s'):
                f = '(' + f + ')'
            f = ctx % f
        forms.append(f)
    return forms


def _nested_defs(syntax, snippets):
    defs = definitions(syntax)
    if snippets:
        defs = dict(defs)
        defs.update(snippets)
    return defs


@_reports_slow
def check_nested(syntax, outer, inner, shape, snippets):
    """alias `inner` among the descendants of alias `outer`: the abbreviation must expand like the same abbreviation with
    either or both occurrences replaced by their definitions (children of the outer alias at the deepest element)"""
    defs = _nested_defs(syntax, snippets)
    forms = nested_forms(defs[outer], defs[inner], outer, inner, shape)
    if forms is None:
        return None
    extra = {'snippets': snippets} if snippets else None
    a = _expand(forms[0], syntax, extra)
    for f, which in zip(forms[1:], ('both aliases replaced by their definitions', 'the outer alias %r replaced by its definition' % outer,
                                    'the inner alias %r replaced by its definition' % inner)):
        b = _expand(f, syntax, extra)
        if a != b:
            return 'syntax %s%s: %r = %r, %r = %r; expand(%r) = %r but with %s expand(%r) = %r' % (
                syntax, ' snippets %r' % snippets if snippets else '', outer, defs[outer], inner, defs[inner], forms[0], a, which, f, b)
    return None


def nested_is_nontrivial(args):
    syntax, outer, inner, shape, snippets = args
    defs = _nested_defs(syntax, snippets)
    return nested_forms(defs[outer], defs[inner], outer, inner, shape) is not None


def builtin_nested_pairs(syntax, rnd, n_random):
    """(outer, inner) pairs of built-in names, own analysis of the raw tables: every name under itself; every two names
    with the same definition text; every name with every name on its resolution chain, both ways round; random pairs"""
    defs = definitions(syntax)
    names = sorted(defs)
    pairs = [(n, n) for n in names]
    by_def = {}
    for n in names:
        by_def.setdefault(defs[n], []).append(n)
    for group in by_def.values():
        pairs += [(a, b) for a in group for b in group if a != b]
    for n, reach in chains(syntax):
        for k in reach:
            pairs += [(n, k), (k, n)]
    for _ in range(n_random):
        pairs.append((rnd.choice(names), rnd.choice(names)))
    seen, out = set(), []
    for p in pairs:
        if p not in seen:
            seen.add(p)
            out.append(p)
    return out


def gen_acyclic_table(rnd):
    "1..4 user snippets; a definition uses fresh names, a / img / inp and the user names before it: no cycle, every name usable"
    n = rnd.randint(1, 4)
    user = USER_NAMES[:n]
    table = {}
    for i, u in enumerate(user):
        names = user[:i] * 3 + FRESH + list(BUILTIN_USED)
        if i and rnd.random() < 0.2:
            table[u] = table[rnd.choice(user[:i])]        # a second name with the same definition text
        else:
            table[u] = gen_definition(rnd, names)
    return table


def gen_nested_cases(seed, quick):
    rnd = random.Random('c14-nested-%d' % seed)
    for syntax in ('html', 'xsl', 'pug'):
        own = set(k2 for k in raw_tables()[syntax] for k2 in k.split('|'))
        for x, y in builtin_nested_pairs(syntax, rnd, 150 if quick else 1500):
            if syntax != 'html' and quick and x not in own and y not in own:
                continue
            shapes = NESTED_SHAPES if (x == y or not quick) else [NESTED_SHAPES[0], NESTED_SHAPES[1], rnd.choice(NESTED_SHAPES[2:])]
            for sh in shapes:
                yield syntax, x, y, sh, None
    fixed = [{'x': 'k1.c'}, {'x': 'k1.c', 'y': 'a.c[href=#]'}, {'x': 'k1', 'y': 'k1'}, {'x': 'k1>k2', 'y': 'x>k3', 'z': 'y+k1'},
             {'a': 'a[href=u]', 'x': 'a'}, {'x': 'inp', 'y': 'img+x'}]
    tables = fixed + [gen_acyclic_table(rnd) for _ in range(80 if quick else 3000)]
    for t in tables:
        names = sorted(t)
        for x in names:
            for y in names:
                for sh in ([NESTED_SHAPES[0], NESTED_SHAPES[1], rnd.choice(NESTED_SHAPES[2:])] if x != y else
                           [NESTED_SHAPES[0], NESTED_SHAPES[1], NESTED_SHAPES[6]] + rnd.sample(NESTED_SHAPES[2:], 2)):
                    yield 'html', x, y, sh, t


# ------------------------------------------------------------------------------------------------ user tables
USER_NAMES = ['x', 'y', 'z', 'w', 'v']
FRESH = ['k1', 'k2', 'k3']
BUILTIN_USED = {'a': 1, 'img': 1, 'inp': 2}     # name -> number of built-in snippets on its own resolution chain


def gen_element(rnd, names, leaf):
    n = rnd.choice(names)
    s = n
    r = rnd.random()
    if r < 0.25:
        s += rnd.choice(['[p=q]', '[p]', '.c', '#d', '[p=q r]'])
    if rnd.random() < 0.15:
        s += '{t}'
    if rnd.random() < 0.15:
        s += '*2'
    if leaf and rnd.random() < 0.15:
        s += '/'
    return s


def gen_definition(rnd, names):
    levels = rnd.choice([1, 1, 2, 2, 3])
    parts = []
    for lv in range(levels):
        k = rnd.choice([1, 1, 2])
        parts.append('+'.join(gen_element(rnd, names, lv == levels - 1 and i == k - 1) for i in range(k)))
    return '>'.join(parts)


def gen_table(rnd):
    n = rnd.randint(1, 5)
    user = USER_NAMES[:n]
    # element names: user names weighted up so that cycles are frequent
    names = user * 3 + FRESH + list(BUILTIN_USED)
    return {u: gen_definition(rnd, names) for u in user}


def _refs(defn):
    import re
    return set(re.findall(r'(?<![\w\[=.#{])([a-z][a-z0-9]*)', re.sub(r'\[[^\]]*\]|\{[^}]*\}', '', defn)))


def has_reachable_cycle(table, name):
    "is a cycle of user snippet references reachable from `name`? (own static analysis of the definitions)"
    graph = {n: _refs(d) & set(table) for n, d in table.items()}
    color = {}

    def dfs(n):
        color[n] = 1
        for r in sorted(graph[n]):
            if color.get(r) == 1:
                return True
            if r not in color and dfs(r):
                return True
        color[n] = 2
        return False
    return dfs(name)


def _guarded_expand(abbr, cfg):
    """(outcome, max nesting of snippets.resolve frames)"""
    import signal
    import sys
    from emmet import expand
    state = {'d': 0, 'max': 0, 'seen': 0}

    def prof(frame, event, arg):
        # a frame of resolve() that returns a value (not None) has resolved a snippet; every resolve() frame below it on the
        # stack is in the middle of resolving one too, so its nesting level is the number of active resolve() frames
        co = frame.f_code
        if co.co_name == 'resolve' and co.co_filename.replace('\\', '/').endswith('emmet/markup/snippets.py'):
            if event == 'call':
                state['d'] += 1
                state['seen'] += 1
            elif event == 'return':
                if arg is not None and state['d'] > state['max']:
                    state['max'] = state['d']
                state['d'] -= 1

    # CPU-time alarm (ITIMER_VIRTUAL): a loaded machine must not turn a slow call into a "non-terminating" one
    old = signal.signal(signal.SIGVTALRM, _alarm)
    signal.setitimer(signal.ITIMER_VIRTUAL, TIMEOUT)
    sys.setprofile(prof)
    try:
        try:
            out = ('ok', expand(abbr, cfg))
        finally:
            sys.setprofile(None)
            signal.setitimer(signal.ITIMER_VIRTUAL, 0)
            signal.signal(signal.SIGVTALRM, old)
    except _Timeout:
        out = ('timeout', None)
    except RecursionError:
        out = ('RecursionError', None)
    except Exception as e:
        out = ('raised', '%s: %s' % (type(e).__name__, e))
    return out, state['max'], state['seen']


@_reports_slow
def check_user_table(table, abbrs):
    """table: user snippets; abbrs: abbreviations to expand under it"""
    n = len(table)
    for abbr in abbrs:
        cfg = {'type': 'markup', 'syntax': 'html', 'snippets': dict(table)}
        out, depth, seen = _guarded_expand(abbr, cfg)
        if out[0] == 'timeout':
            return 'snippets %r: expand(%r) did not return within %.0f s of CPU time' % (table, abbr, TIMEOUT)
        if out[0] != 'ok':
            return 'snippets %r: expand(%r) %s %s (all definitions are valid abbreviations; resolution must end normally)' % (
                table, abbr, out[0], out[1] or '')
        if seen == 0:
            return 'oracle cannot observe resolution nesting: no frame of resolve() in emmet/markup/snippets.py during expand(%r)' % abbr
        bound = n + sum(BUILTIN_USED.values())
        # tighter: only the built-ins that occur in the table or in the abbreviation itself
        used = set()
        for d in list(table.values()) + [abbr]:
            used |= _refs(d) & set(BUILTIN_USED)
        bound = n + sum(BUILTIN_USED[b] for b in used)
        if depth > bound:
            return 'snippets %r: expand(%r) nested %d snippet resolutions; only %d snippets are involved (%d user + built-ins %s)' % (
                table, abbr, depth, bound, n, sorted(used))
    # alias == definition where no cycle is reachable
    for name in sorted(table):
        if has_reachable_cycle(table, name):
            continue
        d = table[name]
        a = _expand(name, 'html', {'snippets': table})
        b = _expand(d, 'html', {'snippets': table})
        if a != b:
            return 'snippets %r: expand(%r) = %r but expand(definition %r) = %r' % (table, name, a, d, b)
        for deco in (DECORATIONS[0], DECORATIONS[4], DECORATIONS[6], DECORATIONS[8], DECORATIONS[13]):
            for ctx in ('%s', 'p>%s+q'):
                r = check_decorated('html', name, d, list(deco), ctx, table)
                if r:
                    return r
    return None


def gen_user_cases(seed, n):
    rnd = random.Random('c14-%d' % seed)
    # fixed hand-written cyclic tables first
    fixed = [
        {'x': 'x'}, {'x': 'x>x'}, {'x': 'p>x'}, {'x': 'x+x>x*2'}, {'x': 'y', 'y': 'x'}, {'x': 'y>x', 'y': 'x>y'},
        {'x': 'y+y', 'y': 'z+z', 'z': 'x+x'}, {'x': 'y', 'y': 'z', 'z': 'w', 'w': 'v', 'v': 'x'},
        {'x': 'y>z', 'y': 'z>x', 'z': 'x>y'}, {'x': 'a>x', 'a': 'x>a'}, {'x': 'inp>x', 'y': 'img+x'},
        {'x': 'k1', 'y': 'k1'}, {'x': 'y', 'y': 'k1>x', 'z': 'k1>x'}, {'x': 'y*2>z*2', 'y': 'z*2>x*2', 'z': 'x*2>y*2'},
    ]
    for t in fixed:
        yield t, sorted(t) + ['+'.join(sorted(t)), '>'.join(sorted(t)), '(%s)*2>%s' % (sorted(t)[0], sorted(t)[-1])]
    for _ in range(n):
        t = gen_table(rnd)
        names = sorted(t)
        abbrs = list(names)
        abbrs.append('>'.join(rnd.choice(names) for _ in range(3)))
        abbrs.append('%s[u=v]*2>%s+%s' % (rnd.choice(names), rnd.choice(names), rnd.choice(names + ['a', 'k1'])))
        yield t, abbrs


# ------------------------------------------------------------------------------------------------ after a history
def table_refs(defn, table):
    "names of `table` used as element names in the definition text (own analysis)"
    import re
    flat = re.sub(r'\[[^\]]*\]|\{[^}]*\}', '', defn)
    out = set()
    for tok in re.split(r'[>+^()]', flat):
        m = re.match(r'[A-Za-z!][\w:!-]*', tok.strip())
        if m and m.group(0) in table:
            out.add(m.group(0))
    return out


def chains(syntax):
    "[(name, sorted other names reachable from its definition)] for the table of a syntax"
    table = definitions(syntax)
    res = []
    for n in sorted(table):
        seen, todo = set(), [n]
        while todo:
            for r in sorted(table_refs(table[todo.pop()], table)):
                if r != n and r not in seen:
                    seen.add(r)
                    todo.append(r)
        if seen:
            res.append((n, sorted(seen)))
    return res


MALFORMED = 'zz["'          # unclosed quote: the parser's own TokenScannerException
FIXED_HISTORIES = [
    # raises inside nested resolution (alias chain goes through a malformed user snippet)
    [['input:email', {'snippets': {'inp': "input[name='${1}]"}}]],
    [['link:css', {'snippets': {'link': 'link[a="]'}}]],
    [['meta:edge>b', {'snippets': {'meta': MALFORMED}}], ['!', {'snippets': {'meta:vp': MALFORMED}}]],
    [['ri:a+src:mt', {'snippets': {'source': MALFORMED, 'img': MALFORMED}}]],
    [['ul>li*2>input:t', {'snippets': {'input': MALFORMED}, 'text': ['a', 'b']}]],
    # raises at the top level of resolution / in the parser / in the tokenizer
    [['x', {'snippets': {'x': MALFORMED}}], ['a[b="c', {}], ['a)', {}]],
    # succeeds: snippet-backed elements with children, attributes, text, repeaters
    [['doc>p', {}], ['a.x', {}], ['a[href=u title]{t}>b', {}]],
    [['!>p', {}], ['ul>li*2>a.k{t}', {}], ['input:email#i*2', {}], ['link:css[media=print]/', {}]],
    [['btn:s{go}>b', {'options': {'output.reverseAttributes': True}}], ['img.k/', {'syntax': 'jsx'}], ['ri:a>b', {'syntax': 'pug'}]],
]


@_reports_slow
def check_alias_after(history, syntax, names, share_cache):
    """run the history (every exception swallowed), then every name must still expand like its definition; with
    share_cache one `cache` dict is passed to every call of the case (history and comparisons)"""
    from emmet import expand
    cache = {} if share_cache else None

    def cfg(extra):
        c = {'type': 'markup', 'syntax': syntax}
        c.update(json.loads(json.dumps(extra)))
        if cache is not None:
            c['cache'] = cache
        return c

    for abbr, extra in history:
        try:
            _timed(lambda: expand(abbr, cfg(extra)), 'history call expand(%r)' % abbr)
        except _Slow:
            raise
        except Exception:
            pass
    defs = definitions(syntax)
    for name in names:
        try:
            a = _timed(lambda: expand(name, cfg({})), 'after the history %r: expand(%r)' % (history, name))
            b = _timed(lambda: expand(defs[name], cfg({})), 'after the history %r: expand(%r)' % (history, defs[name]))
        except _Slow:
            raise
        except Exception as e:
            return 'syntax %s, after the calls %r%s: expanding the built-in alias %r / its definition %r raised %s: %s' % (
                syntax, history, ' (one cache dict shared by all calls)' if share_cache else '', name, defs[name], type(e).__name__, e)
        if a != b:
            return 'syntax %s, after the calls %s%s: expand(%r) = %r but expand(definition %r) = %r' % (
                syntax, '; '.join('expand(%r, %s)' % (x, json.dumps(e, sort_keys=True)) for x, e in history),
                ' (one cache dict shared by all calls)' if share_cache else '', name, a, defs[name], b)
    return None


def gen_after_cases():
    # complete over the alias chains of the built-in tables: the call that raises inside nested resolution, then the names
    # of that chain
    for syntax in ('html', 'xsl', 'pug'):
        for n, reach in chains(syntax):
            for k in reach:
                yield [[n, {'snippets': {k: MALFORMED}}]], syntax, [n] + reach, False
    # fixed histories, then every name of the table, 30 per case; without and with one shared cache dict
    for syntax in ('html', 'xsl', 'pug'):
        names = sorted(definitions(syntax))
        for h in FIXED_HISTORIES:
            for share in (False, True):
                for i in range(0, len(names), 30):
                    yield h, syntax, names[i:i + 30], share


# ------------------------------------------------------------------------------------------------ decorated aliases under options
# Sentence 2 ("attributes ... written on the alias are applied to the top-level elements of the definition") does not depend
# on the output options.  The statement does not say where the alias's attributes are placed among the element's own ones when
# `output.reverseAttributes` is on, so there the comparison with the spelled-out definition is made modulo the order of the
# attributes inside each tag (which element carries which attributes, and everything else, is compared exactly) and only when
# no attribute name is written on both the alias and the element (which value wins there depends on the order).  The second
# oracle needs no spelling at all: for a definition E1+...+En the alias must expand like the n one-element aliases
# zq1 -> E1, ..., zqn -> En side by side with the same decoration (exact string comparison, every profile).
OPTION_PROFILES = [
    {'output.reverseAttributes': True},
    {'output.reverseAttributes': True, 'output.selfClosingStyle': 'xhtml', 'output.compactBoolean': True},
    {'output.reverseAttributes': True, 'output.attributeQuotes': 'single', 'output.format': False},
    {'output.selfClosingStyle': 'xml', 'output.compactBoolean': True, 'output.attributeQuotes': 'single'},
]
PART_NAMES = ['zq1', 'zq2', 'zq3', 'zq4', 'zq5', 'zq6']

_TAG = None


def norm_tags(out):
    "the output with the attributes of every tag sorted (names with their values); everything else unchanged"
    global _TAG
    import re
    if _TAG is None:
        _TAG = re.compile(r'''<([A-Za-z_][^\s<>/'"=]*)((?:\s+[^\s<>='"/]+(?:=(?:"[^"]*"|'[^']*'|\{[^{}]*\}|[^\s<>'"]+))?)*)(\s*/?)>''')
        _TAG_ATTR = re.compile(r'''[^\s<>='"/]+(?:=(?:"[^"]*"|'[^']*'|\{[^{}]*\}|[^\s<>'"]+))?''')
        norm_tags.attr = _TAG_ATTR

    def one(m):
        attrs = sorted(norm_tags.attr.findall(m.group(2)))
        return '<' + m.group(1) + ''.join(' ' + a for a in attrs) + m.group(3) + '>'
    return _TAG.sub(one, out)


def seg_parts(seg):
    """(element name, [attribute names written on the element, `class` / `id` for the shorthands]) of one element text;
    own scanner (quotes inside [...], `{...}` text skipped)"""
    import re
    m = re.match(r'[A-Za-z!][\w:!-]*', seg)
    name = m.group(0) if m else ''
    i = len(name)
    names = []
    while i < len(seg):
        ch = seg[i]
        if ch == '{':
            depth = 0
            while i < len(seg):
                depth += (seg[i] == '{') - (seg[i] == '}')
                i += 1
                if depth == 0:
                    break
            continue
        if ch in '.#':
            m = re.match(r'[\w$@-]+', seg[i + 1:])
            names.append('class' if ch == '.' else 'id')
            i += 1 + (len(m.group(0)) if m else 0)
            continue
        if ch == '[':
            i += 1
            tok, quote, in_value = [], None, False
            while i < len(seg):
                c = seg[i]
                if quote:
                    if c == quote:
                        quote = None
                elif c in '"\'':
                    quote = c
                elif c == '=':
                    in_value = True
                elif c in ' \t\n]':
                    if tok:
                        names.append(''.join(tok).lstrip('!').rstrip('.'))
                    tok, in_value = [], False
                    if c == ']':
                        break
                elif not in_value:
                    tok.append(c)
                i += 1
            i += 1
            continue
        i += 1
    return name, names


def top_attr_names(defn, defs, _seen=()):
    """attribute names that the top-level elements of a definition carry, including those that come from the definitions of
    top-level elements that are aliases themselves; None if the shape is not analysed (`^`, group)"""
    st = split_top(defn)
    if st is None:
        return None
    out = set()
    for seg in st[0]:
        if not seg or seg[0] == '(':
            return None
        name, names = seg_parts(seg)
        out.update(names)
        if name in defs and name not in _seen:
            inner = top_attr_names(defs[name], defs, _seen + (name,))
            if inner is None:
                return None
            out.update(inner)
    return out


def _ctx_forms(x, ys, context, child):
    "alias form x and spelled-out forms ys placed in a surrounding abbreviation (same rules as check_decorated)"
    if context != '%s':
        ys = ['(' + y + ')' for y in ys]
        if child and not context.endswith('%s'):
            x = '(' + x + ')'
    return context % x, [context % y for y in ys]


def opts_plan(syntax, name, defn, deco, context, snippets, options):
    """what is compared for one case: {'x': alias form, 'spelled': text or None, 'split': (text, extra snippets) or None,
    'modulo': bool}; None if nothing can be compared (trivial case)"""
    attrs, text, close, rep, child = deco
    sp = spell(defn, attrs, text, close, rep, child)
    if sp is None:
        return None
    defs = _nested_defs(syntax, snippets)
    reverse = bool(options.get('output.reverseAttributes'))
    x = alias_form(name, attrs, text, close, rep, child)
    spelled = sp
    if reverse:
        own = top_attr_names(defn, defs)
        written = set(seg_parts('e' + attrs)[1])
        if own is None or (own & written):
            spelled = None
    split = None
    tops, tail = split_top(defn)
    if len(tops) >= 2 and len(tops) <= len(PART_NAMES) and not any(p in defs for p in PART_NAMES):
        parts = {PART_NAMES[i]: t for i, t in enumerate(tops)}
        parts[PART_NAMES[len(tops) - 1]] += tail
        z = spell('+'.join(PART_NAMES[:len(tops)]), attrs, text, close, rep, child)
        split = [z, parts]
    if spelled is None and split is None:
        return None
    ys = [spelled or '', split[0] if split else '']
    x, ys = _ctx_forms(x, ys, context, child)
    return {'x': x, 'spelled': ys[0] if spelled else None, 'split': [ys[1], split[1]] if split else None, 'modulo': reverse}


@_reports_slow
def check_decorated_opts(syntax, name, defn, deco, context, snippets, options):
    plan = opts_plan(syntax, name, defn, deco, context, snippets, options)
    if plan is None:
        return None
    extra = {'options': options}
    if snippets:
        extra['snippets'] = snippets
    where = 'syntax %s options %s%s: alias %r has definition %r; ' % (syntax, json.dumps(options, sort_keys=True),
                                                                     ' snippets %r' % snippets if snippets else '', name, defn)
    a = _expand(plan['x'], syntax, extra)
    if plan['spelled'] is not None:
        b = _expand(plan['spelled'], syntax, extra)
        if (norm_tags(a) != norm_tags(b)) if plan['modulo'] else (a != b):
            return where + 'expand(%r) = %r but with the definition spelled out expand(%r) = %r%s' % (
                plan['x'], a, plan['spelled'], b, ' (compared modulo the order of the attributes inside each tag)' if plan['modulo'] else '')
    if plan['split'] is not None:
        z, parts = plan['split']
        extra2 = dict(extra)
        extra2['snippets'] = dict(snippets or {})
        extra2['snippets'].update(parts)
        c = _expand(z, syntax, extra2)
        if a != c:
            return where + 'expand(%r) = %r but one alias per top-level element of the definition (%s) gives expand(%r) = %r' % (
                plan['x'], a, ', '.join('%s -> %r' % kv for kv in sorted(parts.items())), z, c)
    return None


def opts_is_nontrivial(args):
    return opts_plan(*args) is not None


ATTR_DECORATIONS = [d for d in DECORATIONS if d[0] and '$' not in d[0]] + [
    ('[x=y r="a b"]', '', False, '', '>b'),
    ('#i[x]', '{T}', False, '', ''),
]

# user tables: attribute pools.  Flavour `defs` writes class names in the definitions only, `alias` on the alias only,
# `both` on both sides (also with several top-level elements: the shared value list that made `pp.c.d` with
# pp = p+p print class="c d d" was repaired in /repo, fix f38c84a, and is now part of what this clause demands)
DEF_ATTRS = ['[t=1]', '[s=2]', '[href=x]', '[lang=en]', '[title]', '[u=0]', '#j', '[data-a="p q"]', '[w]', '[t=1 s=2]']
DEF_CLASS_ATTRS = ['.a', '.b', '.a.b', '.a[t=1]']
ALIAS_ATTRS = ['[u=3]', '[u=3 w=4]', '[title=T]', '#i', '[v]', '[r=1 href=z]', '[m="a b"]', '[u=3][n=5]']
ALIAS_CLASS_ATTRS = ['.k', '#i.k', '[u=3].k']
ALIAS_2CLASS_ATTRS = ['.k.m', '.k[class=m]']
ALIAS_REST = [('', False, '', ''), ('', False, '', ''), ('{T}', False, '', ''), ('', False, '*2', ''), ('', False, '', '>b'),
              ('', True, '', ''), ('{hi}', False, '*2', '>b+i'), ('', False, '*3', '>b>i')]
OPT_CONTEXTS = ['p>%s+q', 'div>%s', '(%s)*2', '%s+q', 'p*2>%s']


def gen_opt_element(rnd, names, pool):
    s = rnd.choice(names)
    r = rnd.random()
    if r < 0.7:
        s += ''.join(rnd.sample(pool, 1 if r < 0.5 else 2))
    if rnd.random() < 0.15:
        s += '{t}'
    return s


def gen_opt_table(rnd):
    """(flavour, table): 1..3 acyclic user snippets x y z whose definitions have 1..4 top-level elements with attributes of
    their own (element names: fresh names, a / img, the user names before it), optionally with children below"""
    flavour = rnd.choice(['defs', 'defs', 'alias', 'alias', 'both'])
    pool = DEF_ATTRS + (DEF_CLASS_ATTRS * 2 if flavour != 'alias' else [])
    n = rnd.randint(1, 3)
    user = USER_NAMES[:n]
    table = {}
    for i, u in enumerate(user):
        names = user[:i] * 2 + FRESH + ['a', 'img', 'k1']
        k = 1 if rnd.random() < 0.2 else rnd.choice([2, 2, 2, 3, 3, 4])
        d = '+'.join(gen_opt_element(rnd, names, pool) for _ in range(k))
        r = rnd.random()
        if r < 0.4:
            d += '>' + '+'.join(gen_opt_element(rnd, names, pool) for _ in range(rnd.choice([1, 1, 2])))
            if r < 0.12:
                d += '>' + gen_opt_element(rnd, names, pool)
        table[u] = d
    return flavour, table


FIXED_OPT_TABLES = [
    ('alias', {'x': 'k1[t=1]+k2[s=2]'}),
    ('alias', {'x': 'k1[t=1]+k2+k3[lang=en]>b[r=1]'}),
    ('alias', {'x': 'a+img'}),
    ('alias', {'x': 'k1[t=1]+k2[s=2]', 'y': 'div>x[k=v]', 'z': 'x[k=v]+y[w]'}),
    ('defs', {'x': 'k1.a+k1.b'}),
    ('defs', {'x': 'k1.a[t=1]+a.b', 'y': 'x[s=2]+x#j'}),
    ('both', {'x': 'k1.a[t=1]', 'y': 'x.b>k2.a'}),
    # class names on both sides of a definition with several top-level elements (fix f38c84a in /repo: the value list
    # the classes are merged into used to be shared by the top-level elements)
    ('both', {'x': 'k1+k1'}),
    ('both', {'x': 'k1.a+k2.b'}),
    ('both', {'x': 'k1.a+k2.b+k3', 'y': 'x.c+x'}),
]


def gen_opt_cases(seed, quick):
    rnd = random.Random('c14-opts-%d' % seed)
    raw = raw_tables()
    # built-in names
    for s in ('html', 'xsl', 'pug') if quick else ('html', 'xsl', 'pug', 'xml', 'jsx'):
        defs = definitions(s)
        names = sorted(defs) if s in ('html', 'xml', 'jsx') else sorted(set(k2 for k in raw[s] for k2 in k.split('|')))
        for n in names:
            for deco in ATTR_DECORATIONS:
                for ctx in ('%s', 'ul>%s+q'):
                    for o in (OPTION_PROFILES if ctx == '%s' else OPTION_PROFILES[:1]):
                        yield s, n, defs[n], list(deco), ctx, None, o
    # user tables
    tables = FIXED_OPT_TABLES + [gen_opt_table(rnd) for _ in range(130 if quick else 4000)]
    for flavour, t in tables:
        pool = ALIAS_ATTRS + (ALIAS_CLASS_ATTRS * 2 if flavour != 'defs' else []) + (ALIAS_2CLASS_ATTRS * 2 if flavour == 'both' else [])
        for name in sorted(t):
            for _ in range(5):
                deco = [rnd.choice(pool)] + list(rnd.choice(ALIAS_REST))
                for ctx in ('%s', rnd.choice(OPT_CONTEXTS)):
                    for o in OPTION_PROFILES:
                        yield 'html', name, t[name], deco, ctx, t, o


# ------------------------------------------------------------------------------------------------ self-rooted definitions
# A user snippet named after the root element of its own definition: N -> N[attrs]>body, where the body contains other aliases
# (slots `@Y@`).  The root refers to the snippet being resolved and stays a plain element (the statement: resolution ends,
# "nesting no deeper than the number of snippets" -- with N active, N cannot be resolved again); every other alias of the
# definition is expanded as usual (sentence 1).  `@R@` in the other definitions / in the abbreviation is the root's name.
NEUTRAL = 'zqm'                 # a name that occurs in no table, no definition, no abbreviation
SR_ROOTS = ['ul', 'box', 'nav', 'k1', 'tbl', 'dl', 'x-list', 'select', 'form', 'label', 'a', 'btn']
SR_ROOT_ATTRS = ['', '', '.c', '[name id]', '[action=u]', '#d[p]']
SR_BODIES = ['@Y@', 'li>@Y@', 'li*2>@Y@', 'li.item*2>@Y@', 'e+@Y@', '@Y@+e', 'li>e+@Y@', 'li>(@Y@)+e', 'p>q>@Y@', 'e[r=1]>@Y@+f>@Y@',
             '(li>@Y@)*2', 'li{t}+li>@Y@', '@Y@+@Y@']
SR_SLOT_DECOS = [['', '', False, '', '']] * 4 + [['.s', '', False, '', ''], ['[p=q]', '', False, '', ''], ['', '{t}', False, '', ''],
                                                  ['', '', False, '*2', ''], ['', '', False, '', '>b'], ['#j', '{t}', False, '*2', '']]
SR_USER_SLOTS = [{'it': 'i.t'}, {'it': 'k2>a'}, {'it': 'jt.c', 'jt': 'img+k3'}, {'it': 'k2[u=1]+k3'}, {'it': 'inp', 'jt': 'k2'}]
SR_ABBRS = ['@R@', '@R@', '@R@.k', '@R@[x=y]{T}', '@R@*2', '@R@>b', 'p>@R@+q', 'sec>@R@.menu>b', '(@R@)*2', '@R@/', 'p*2>@R@#i>b+i']
SR_WRAPS = [['wrap', '@R@'], ['wrap', 'div>@R@'], ['wrap', '@R@.w+k3']]
SR_WRAP_ABBRS = ['wrap', 'p>wrap.k', 'wrap*2>b']


def sr_tables(syntax, root, root_attrs, body, slot, deco, others, abbr, oracle):
    """[(table, abbreviation), (table, abbreviation)] that must expand alike, or None if the slot's definition has no textual
    spelling.  oracle `rename`: the definition under the fresh name NEUTRAL; oracle `inline`: the slot replaced by its definition"""
    slot_alias = alias_form(slot, *deco)
    if deco[4]:
        slot_alias = '(' + slot_alias + ')'
    defn = root + root_attrs + '>' + body.replace('@Y@', slot_alias)
    t1 = {k: v.replace('@R@', root) for k, v in others.items()}
    t1[root] = defn
    a1 = abbr.replace('@R@', root)
    if oracle == 'rename':
        t2 = {k: v.replace('@R@', NEUTRAL) for k, v in others.items()}
        t2[NEUTRAL] = defn
        return [t1, a1], [t2, abbr.replace('@R@', NEUTRAL)]
    defs = others if slot in others else definitions(syntax)
    sp = spell(defs[slot], *deco)
    if sp is None:
        return None
    t2 = dict(t1)
    t2[root] = root + root_attrs + '>' + body.replace('@Y@', '(' + sp + ')')
    return [t1, a1], [t2, a1]


@_reports_slow
def check_self_rooted(syntax, root, root_attrs, body, slot, deco, others, abbr, oracle):
    pair = sr_tables(syntax, root, root_attrs, body, slot, deco, others, abbr, oracle)
    if pair is None:
        return None
    (t1, a1), (t2, a2) = pair
    a = _expand(a1, syntax, {'snippets': t1})
    b = _expand(a2, syntax, {'snippets': t2})
    if a != b:
        if oracle == 'rename':
            why = 'the same definition stored under the fresh name %r (the root %r stays a plain element either way)' % (NEUTRAL, root)
        else:
            why = 'the alias %r inside the definition replaced by its own definition' % slot
        return 'syntax %s: snippet %r is named after the root of its definition %r; with snippets %r expand(%r) = %r but with %s, snippets %r, expand(%r) = %r' % (
            syntax, root, t1[root], t1, a1, a, why, t2, a2, b)
    return None


def sr_is_nontrivial(args):
    return sr_tables(*args) is not None


def gen_self_rooted_cases(seed, quick):
    rnd = random.Random('c14-selfroot-%d' % seed)
    # the README shapes of the class first (fixed), then seeded combinations
    for root, ra, body, slot in (('ul', '', 'li.item*2>@Y@', 'a'), ('select', '[name id]', '@Y@', 'opt'), ('form', '[action]', '@Y@', 'btn:s'),
                                 ('box', '', '@Y@', 'it')):
        others = {'it': 'i.t'} if slot == 'it' else {}
        for abbr in SR_ABBRS:
            for oracle in ('rename', 'inline'):
                if oracle == 'rename' and root in definitions('html'):
                    continue
                yield 'html', root, ra, body, slot, ['', '', False, '', ''], others, abbr, oracle
    for _ in range(1500 if quick else 40000):
        syntax = rnd.choice(['html'] * 4 + ['xsl', 'pug', 'jsx'])
        defs = definitions(syntax)
        root = rnd.choice(SR_ROOTS)
        others = {}
        if rnd.random() < 0.35:
            others = dict(rnd.choice(SR_USER_SLOTS))
            slot = 'it'
        else:
            slot = rnd.choice(['a', 'img', 'inp', 'opt', 'btn:s', 'link:css']) if rnd.random() < 0.4 else rnd.choice(sorted(defs))
        if slot == root or root in table_refs(defs.get(slot, ''), defs) or any(root in table_refs(defs[k], defs) for k in chain_of(syntax, slot)):
            continue
        abbr = rnd.choice(SR_ABBRS)
        if rnd.random() < 0.25:
            w = rnd.choice(SR_WRAPS)
            others[w[0]] = w[1]
            abbr = rnd.choice(SR_WRAP_ABBRS)
        deco = list(rnd.choice(SR_SLOT_DECOS))
        body = rnd.choice(SR_BODIES)
        ra = rnd.choice(SR_ROOT_ATTRS)
        for oracle in ('rename', 'inline'):
            if oracle == 'rename' and root in defs:
                continue        # under the fresh name the root would be the built-in snippet of that name
            yield syntax, root, ra, body, slot, deco, others, abbr, oracle


_CHAINS = {}


def chain_of(syntax, name):
    key = syntax if syntax in ('xsl', 'pug') else 'html'
    if key not in _CHAINS:
        _CHAINS[key] = dict(chains(syntax))
    return _CHAINS[key].get(name, [])


# ------------------------------------------------------------------------------------------------ run
def run(tier, seed):
    quick = tier == 'quick'
    out = []
    raw = raw_tables()
    c = Clause('snippet-keys', 'F', 'every raw key of snippets/html.py, xsl.py, pug.py', 'complete: %d raw keys' % sum(len(t) for t in raw.values()),
               'a case is one raw key; every `|` part must be a name of the parsed table with the key\'s value', exhaustive=True)
    run_cases(c, 'bounded.c14:check_key', check_key, [(t, k) for t in ('html', 'xsl', 'pug') for k in raw[t]])
    out.append(c.done())

    cases = [(s, n, o) for s in MARKUP_SYNTAXES for n in sorted(definitions(s))
             for o in ([None, {'output.reverseAttributes': True}] if s in ('html', 'xsl', 'pug') else [None])]
    c = Clause('builtin-alias', 'F', 'every name of the built-in table that applies to each of the %d markup syntaxes (html table; + xsl table for xsl; '
               '+ pug table for pug), default options and, for html / xsl / pug, output.reverseAttributes' % len(MARKUP_SYNTAXES),
               'complete: %d (syntax, name, options) triples' % len(cases),
               'a case is one (syntax, snippet name): expand(name) must equal expand(definition)', exhaustive=True)
    run_parallel(c, 'bounded.c14', 'check_alias', cases, chunk=60)
    out.append(c.done())

    dcases = []
    for s in (('html', 'xsl', 'pug') if quick else ('html', 'xsl', 'pug', 'xml', 'haml', 'slim', 'jsx')):
        defs = definitions(s)
        names = sorted(defs) if s == 'html' or not quick else sorted(set(k2 for k in raw[s] for k2 in k.split('|')))
        for n in names:
            for deco in DECORATIONS:
                for ctx in (CONTEXTS if (s == 'html' or not quick) else CONTEXTS[:2]):
                    dcases.append((s, n, defs[n], list(deco), ctx, None))
    c = Clause('alias-decorated', 'B', 'every built-in name (html: all; xsl / pug: the names of their own tables%s) x %d decorations (attributes, '
               'text, `/`, repeaters, children and combinations) x %d surrounding abbreviations' % ('' if quick else '; thorough: also xml, haml, slim, jsx with all names', len(DECORATIONS), len(CONTEXTS)),
               '%d (syntax, name, decoration, context) cases; decorations and contexts are fixed lists' % len(dcases),
               'alias form vs definition spelled out; cases whose definition shape cannot be spelled out textually (see spell()) are trivial',
               exhaustive=False)
    _run_decorated(c, dcases)
    out.append(c.done())

    ncases = list(gen_nested_cases(seed, quick))
    real = [a for a in ncases if nested_is_nontrivial(a)]
    c = Clause('alias-nested', 'B', 'an alias among the children / deeper descendants of an alias: built-in tables of html, xsl, pug -- every name '
               'under itself, every two names with the same definition text, every name with every name on its resolution chain (both ways '
               'round), seeded random pairs -- and %s seeded acyclic user tables of 1..4 snippets (all ordered pairs of their names); '
               '%d shapes (X>Y, X>e>Y, X>e+Y, X>(e>Y)+f, X>Y>b, decorated, repeated, inside p>..+q / ul>..)' % ('86' if quick else '3006', len(NESTED_SHAPES)),
               '%d (syntax, outer, inner, shape, user table) cases, %d skipped because a definition shape has no textual spelling, %d evaluated' % (
                   len(ncases), len(ncases) - len(real), len(real)),
               'a case is one abbreviation with two alias occurrences: it must expand like the abbreviation with both, only the outer, '
               'only the inner occurrence replaced by the definition (children of the outer alias appended at its deepest element)', exhaustive=False)
    run_parallel(c, 'bounded.c14', 'check_nested', real, chunk=100)
    out.append(c.done())

    ocases = list(gen_opt_cases(seed, quick))
    real = [a for a in ocases if opts_is_nontrivial(a)]
    c = Clause('alias-decorated-options', 'B', 'decorated aliases under %d option profiles (output.reverseAttributes alone / with selfClosingStyle, '
               'compactBoolean / with attributeQuotes, format; one profile in the default order): every built-in name (html: all; xsl / pug: own '
               'tables%s) x %d attribute-bearing decorations; %d hand-written + %s seeded acyclic user tables of 1..3 snippets whose definitions have '
               '1..4 top-level elements with attributes of their own (and children below), 5 seeded decorations (attributes + text / `/` / '
               'repeater / children) per name, alone and inside a surrounding abbreviation' % (
                   len(OPTION_PROFILES), '' if quick else '; thorough: also xml, jsx', len(ATTR_DECORATIONS), len(FIXED_OPT_TABLES), '130' if quick else '4000'),
               '%d (syntax, name, decoration, context, table, options) cases, %d skipped (no textual spelling, or reversed order with an attribute name '
               'written on both sides and a single top-level element), %d evaluated' % (len(ocases), len(ocases) - len(real), len(real)),
               'alias form vs definition spelled out (modulo attribute order inside each tag when the reversed order is on; exact otherwise) '
               'and, for definitions E1+...+En, alias form vs the n one-element aliases side by side (exact)', exhaustive=False)
    run_parallel(c, 'bounded.c14', 'check_decorated_opts', real, chunk=150)
    out.append(c.done())

    acases = list(gen_after_cases())
    c = Clause('alias-after-history', 'B', 'earlier calls, then alias vs definition: (1) for every built-in alias N (html, xsl, pug tables) whose definition reaches '
               'another built-in name K: expand(N) with K redefined by a malformed user snippet (raises inside nested resolution), then N and '
               'every name on its chains; (2) %d fixed histories (raising inside nested resolution, at top level, in parser / tokenizer; '
               'succeeding with children / attributes / text / repeaters on snippet-backed elements) x every built-in name, without and with '
               'one cache dict shared by all calls' % len(FIXED_HISTORIES), '%d cases (a case = history + up to 30 names)' % len(acases),
               'after the history every name must expand like its definition (default options); distinct by history + names', exhaustive=False)
    run_parallel(c, 'bounded.c14', 'check_alias_after', acases, chunk=8)
    out.append(c.done())

    ucases = list(gen_user_cases(seed, 1000 if quick else 30000))
    c = Clause('user-tables', 'B', '14 hand-written cyclic tables + seeded random tables of 1..5 user snippets over the names x y z w v, fresh names and a / img / inp; '
               'each expanded for every user name alone and in 2-3 larger abbreviations', '%d tables' % len(ucases),
               'a case is one table + abbreviations: termination (5 s), no exception, nesting of resolve() <= snippets involved, alias == definition '
               '(plain and decorated) for names with no reachable cycle', exhaustive=False)
    run_parallel(c, 'bounded.c14', 'check_user_table', ucases, chunk=25)
    out.append(c.done())
    scases = list(gen_self_rooted_cases(seed, quick))
    real = [a for a in scases if sr_is_nontrivial(a)]
    c = Clause('self-rooted-definitions', 'B', 'user snippets named after the root element of their own definition, N -> N[attrs]>body with built-in '
               'or user aliases in the body (%d root names, %d body shapes, %d slot decorations; slots: every built-in name of html / xsl / pug, '
               'user aliases with 1..2 snippets), also reached through a second alias (wrap -> N, div>N, N.w+k3); expanded alone, decorated '
               'and inside larger abbreviations; 4 fixed tables + %s seeded combinations' % (len(SR_ROOTS), len(SR_BODIES), len(SR_SLOT_DECOS), '1500' if quick else '40000'),
               '%d (syntax, root, body, slot, decoration, other snippets, abbreviation, oracle) cases, %d skipped (slot definition has no textual '
               'spelling), %d evaluated' % (len(scases), len(scases) - len(real), len(real)),
               'oracle rename (root names that are not built-in names): same output as the definition stored under a fresh name; oracle inline: '
               'same output as the table whose definition has the inner alias replaced by that alias\'s definition spelled out', exhaustive=False)
    run_parallel(c, 'bounded.c14', 'check_self_rooted', real, chunk=150)
    out.append(c.done())
    return out


def _run_decorated(c, dcases):
    # count spelled-out (non-trivial) cases honestly: run_parallel counts every case as distinct, so trivial ones are
    # filtered out beforehand and reported in the bound text
    real = [a for a in dcases if decorated_is_nontrivial(a)]
    c.bound += '; %d of them skipped because the definition shape has no textual spelling, %d evaluated' % (len(dcases) - len(real), len(real))
    run_parallel(c, 'bounded.c14', 'check_decorated', real, chunk=150)
