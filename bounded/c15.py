"""C15 bounded stand-in: HAML / Pug / Slim output has one line per element, indented by its depth.

A case is an abbreviation AST of c01_gen whose elements carry ids, classes (no spaces), other
attributes and single- or multi-line text.  From the AST's denotation (the tree the abbreviation
denotes, C01) the expected *lines* are written down directly from the statement:
    indent * depth + `name#id.class.class` (`div` left out when an id or class is there; HAML writes
    `%name`) + the syntax's attribute list + ` text` for one-line text;
    every line of a multi-line text on a line of its own at depth + 1; then the children.
The observation is emmet.expand(abbr, {'syntax': haml|pug|slim, 'options': {'output.indent': ...}}).
Independently of the expected lines, the element tree is recovered from the produced lines by their
indentation alone and compared with the tree of the HTML output for the same abbreviation.
Besides the small decorations, three clauses widen two dimensions: the number of classes of one element
(0..20 and a few large counts) and the kind of line break between text lines (LF, CR LF, bare CR and every
mixture): a text line ends at any of the three (text_lines()).
Four more clauses add two classes of abbreviations: attribute lists with *implied* attributes `[!k]`
(written_attributes(): without a value they are no attribute of the element, so the attribute list skips them
and vanishes when nothing is left) and *self-closing elements that have children* (`p/>b`, `br>span`: the
subtree is part of the tree like any other; loose check).
Two more: *deep trees* (a spine of up to 50 nested elements carrying a small subtree: "indentation equals its
depth" at any depth, not only the 4-5 levels the skeletons reach) and *write histories* (check_history(): one
parsed abbreviation handed to a sequence of writers; every write must give the lines of the statement).
"""
import random
import re

from .common import Clause, run_parallel
from . import c01_gen as G

SYNTAXES = ('haml', 'pug', 'slim')
INDENTS = ['\t', '  ', '    ', '--']

# names without a built-in snippet (a snippet would add attributes of its own to the line)
NAMES = ['div', 'ul', 'p', 'em', 'table', 'tr', 'span', 'div', 'ol', 'section', 'b', 'tbody', 'li', 'div',
         'strong', 'td', 'article', 'i', 'header']


# ----------------------------------------------------------------------------- expected lines
LINE_BREAK = re.compile(r'\r\n|\r|\n')


def text_lines(text):
    """the lines of a text: a line break is CR LF, a bare CR or a bare LF -- the three line terminators of
    text files (the statement speaks of "text lines" without naming one terminator; the package's own HTML
    output and output stream break a text at exactly these three).  Other characters str.splitlines() knows
    (FF, VT, U+2028, ...) are never generated."""
    return LINE_BREAK.split(text)


def denote_full(items, parent=''):
    """forest of {'name','named','id','cls','attrs','text','children'} denoted by the AST"""
    out = []
    for it in items:
        if it[0] == 'g':
            for _ in range(1 if it[1] is None else it[1]):
                out += denote_full(it[2], parent)
        else:
            _, head, rep, children = it
            if head.get('name') is None and not G.has_attributes(head):
                name = None                     # a text-only node `{...}`: not an element
            else:
                name = head.get('name') or G.implicit_name(parent)
            for _ in range(1 if rep is None else rep):
                out.append({'name': name, 'id': head.get('id'), 'cls': list(head.get('cls', ())),
                            'attrs': [list(a) for a in head.get('attrs', ())], 'text': head.get('text'),
                            'close': bool(head.get('close')) or name in G.VOID, 'children': denote_full(children, name or parent)})
    return out


def element_shape(forest):
    """[name, id, class, children] of the elements only (text-only nodes dropped)"""
    return [[nd['name'], nd['id'], ' '.join(nd['cls']) or None, element_shape(nd['children'])]
            for nd in forest if nd['name'] is not None]


def written_attributes(attrs):
    """the attributes (other than id / class) the element HAS, from the attributes the abbreviation wrote:
    `[k=v]` is the attribute k="v", `[k]` (no value) the attribute k=""; an *implied* attribute `[!k]` only
    names an attribute the element gets once a value is given for it: without a value it is not an attribute
    of the element (the HTML output for the same abbreviation has none), with a value (`[!k=v]`) it is k="v"."""
    out = []
    for k, v in attrs:
        if k.startswith('!'):
            if v is None:
                continue
            k = k[1:]
        out.append([k, '' if v is None else v])
    return out


def attribute_list(attrs, syntax):
    """the syntax's attribute list of the attributes the element has; nothing at all when it has none"""
    attrs = written_attributes(attrs)
    if not attrs:
        return ''
    pairs = ['%s="%s"' % (k, v) for k, v in attrs]
    if syntax == 'haml':
        return '(' + ' '.join(pairs) + ')'
    if syntax == 'pug':
        return '(' + ', '.join(pairs) + ')'
    return ' ' + ' '.join(pairs)


def expected_lines(forest, syntax, depth=0):
    """-> list of ('element', depth, text-of-line) / ('text', depth, text line)"""
    out = []
    for nd in forest:
        primary = ('#' + nd['id'] if nd['id'] is not None else '') + ''.join('.' + c for c in nd['cls'])
        if nd['name'] == 'div' and primary:
            head = primary
        else:
            head = ('%' if syntax == 'haml' else '') + nd['name'] + primary
        line = head + attribute_list(nd['attrs'], syntax)
        text_lines_ = text_lines(nd['text']) if nd['text'] is not None else []
        if len(text_lines_) == 1:
            line += ' ' + text_lines_[0]
        out.append(('element', depth, line))
        if len(text_lines_) > 1:
            for t in text_lines_:
                out.append(('text', depth + 1, t))
        out += expected_lines(nd['children'], syntax, depth + 1)
    return out


# ----------------------------------------------------------------------------- reading the output
def split_indent(line, indent):
    d = 0
    while line.startswith(indent):
        line = line[len(indent):]
        d += 1
    return d, line


HEAD_RE = {'haml': re.compile(r'(?:%([\w:-]+))?((?:[#.][\w-]+)*)'),
           'pug': re.compile(r'([\w:-]+)?((?:[#.][\w-]+)*)'),
           'slim': re.compile(r'([\w:-]+)?((?:[#.][\w-]+)*)')}


def is_text_line(body, syntax):
    # (the greedy indentation split may have eaten the padding blanks of an empty HAML text line)
    return body.endswith('|') if syntax == 'haml' else body.startswith('|')


def recover_tree(lines, syntax, indent):
    """element forest [name, id, class, children] from indentation only; -> (forest, error)"""
    root = ['', None, None, []]
    stack = [(-1, root)]
    for ln in lines:
        d, body = split_indent(ln, indent)
        if is_text_line(body, syntax):
            continue
        m = HEAD_RE[syntax].match(body)
        if not m or m.end() == 0 or body[m.end():m.end() + 1] not in ('', ' ', '('):
            return None, 'line %r does not start with a name#id.class head' % ln
        ids = re.findall(r'#([\w-]+)', m.group(2))
        classes = re.findall(r'\.([\w-]+)', m.group(2))
        node = [m.group(1) or 'div', ids[0] if ids else None, ' '.join(classes) or None, []]
        while stack[-1][0] >= d:
            stack.pop()
        if d != stack[-1][0] + 1:
            return None, 'line %r is indented %d levels below its predecessor' % (ln, d - stack[-1][0])
        stack[-1][1][3].append(node)
        stack.append((d, node))
    return root[3], None


def text_line_problem(line, indent, depth, text, syntax, may_continue=False):
    """None, or what is wrong with `line` as the output line of the text line `text` at `depth`;
    may_continue: more may follow the text on the line (text of a following text-only node)"""
    prefix = indent * depth
    if not line.startswith(prefix):
        return '%r does not start with %d x indent (text line %r one level below its element)' % (line, depth, text)
    rest = line[len(prefix):]
    blank_start = syntax == 'haml' and not indent.strip(' \t') and (text.strip(' ') == '' or text[0] in ' \t')
    if not blank_start and rest.startswith(indent):
        return '%r is indented more than %d x indent (text line %r)' % (line, depth, text)
    if may_continue:
        if not rest.lstrip(' |').startswith(text.strip(' ')):
            return 'is %r, expected a line that starts with the text line %r' % (rest, text)
    elif rest.strip(' |') != text.strip(' '):
        return 'is %r, expected the text line %r' % (rest, text)
    return None


def lines_problem(where, out, forest, syntax, indent, ref_tree, ref_text):
    """None, or what is wrong with the text `out` as the haml / pug / slim output for the denoted `forest`:
    line by line against expected_lines(), then the tree recovered from the indentation against `ref_tree`"""
    lines = out.split('\n')
    exp = expected_lines(forest, syntax)
    for i in range(max(len(lines), len(exp))):
        if i >= len(lines):
            return '%s: line %d missing, expected %r (%s); output %r' % (where, i + 1, exp[i][2], exp[i][0], out)
        if i >= len(exp):
            return '%s: unexpected extra line %d %r; output %r' % (where, i + 1, lines[i], out)
        kind, depth, text = exp[i]
        if kind == 'element':
            d, body = split_indent(lines[i], indent)
            if d != depth:
                return '%s: line %d %r is indented %d x indent, expected %d (depth of the element); output %r' % (
                    where, i + 1, lines[i], d, depth, out)
            if body.rstrip() != text.rstrip():
                return '%s: line %d is %r, expected %r; output %r' % (where, i + 1, body, text, out)
        else:
            # statement: "one line per text line one level deeper"; the syntax's text markers
            # (`| ` before, ` |` after with padding) and blanks at the ends of the line are not
            # constrained.  The line must start with depth x indent and not with one indent more --
            # the latter cannot be told (and is not checked) when the indent string is white space and
            # the written line itself starts with white space (HAML writes the text first: empty /
            # blank lines and lines starting with a blank or tab).
            problem = text_line_problem(lines[i], indent, depth, text, syntax)
            if problem:
                return '%s: line %d %s; output %r' % (where, i + 1, problem, out)
    tree, err = recover_tree(lines, syntax, indent)
    if err:
        return '%s: %s; output %r' % (where, err, out)
    if tree != ref_tree:
        return '%s: tree recovered from indentation differs from the tree of %s: %s; output %r' % (
            where, ref_text, G.first_difference(ref_tree, tree) or 'ids differ', out)
    return None


def check_indent(ast, indent):
    from emmet import expand
    abbr = G.print_abbr(ast)
    forest = denote_full(ast)
    html = expand(abbr, {'syntax': 'html', 'options': {'output.format': False}})
    html_tree = G.shape(G.parse_markup(html, void_without_slash=True))
    for syntax in SYNTAXES:
        out = expand(abbr, {'syntax': syntax, 'options': {'output.indent': indent}})
        where = 'expand(%r, syntax=%s, output.indent=%r)' % (abbr, syntax, indent)
        problem = lines_problem(where, out, forest, syntax, indent, html_tree, 'the HTML output %r' % html)
        if problem:
            return problem
    return None


def check_history(ast, indent, history):
    """one parsed abbreviation written several times.  `history` is a list of writer names (haml, pug, slim,
    html): the abbreviation is parsed ONCE (emmet.markup.parse with the configuration of the first writer) and
    the resulting tree is handed to the writers in that order, each with the configuration of its own syntax.
    The statement makes the output a function of abbreviation, syntax and indent string only, so EVERY write of
    an indentation-based writer must give the lines expected_lines() writes down for the denoted tree --
    whatever was written from the same parsed abbreviation before -- and the tree recovered from its
    indentation, as well as the tree of every HTML write in the history, must be the tree the abbreviation
    denotes (names, ids, classes, nesting)."""
    from emmet.config import Config
    from emmet import markup
    abbr = G.print_abbr(ast)
    forest = denote_full(ast)
    ref_tree = element_shape(forest)
    configs = {}
    for s in history:
        if s not in configs:
            options = {'output.indent': indent}
            if s == 'html':
                options['output.format'] = False
            configs[s] = Config({'syntax': s, 'options': options})
    tree = markup.parse(abbr, configs[history[0]])
    for n, s in enumerate(history):
        out = markup.FORMATTERS[s](tree, configs[s])
        where = 'write %d of %r (emmet.markup.%s(tree, config), output.indent=%r) on the one tree of emmet.markup.parse(%r)' % (
            n + 1, history, s, indent, abbr)
        if s == 'html':
            got = G.shape(G.parse_markup(out, void_without_slash=True))
            if got != ref_tree:
                return '%s: the HTML output is not the tree the abbreviation denotes: %s; output %r' % (
                    where, G.first_difference(ref_tree, got) or 'ids differ', out)
        else:
            problem = lines_problem(where, out, forest, s, indent, ref_tree, 'the abbreviation')
            if problem:
                return problem
    return None


def check_indent_attrs(ast, indent):
    """check_indent() for elements that carry implied attributes `[!k]` / attributes without value `[k]`.
    First the reading of the oracle is confirmed on the HTML output of the same abbreviation (the reference
    of the statement's second sentence): every element there must carry exactly written_attributes() of
    what the abbreviation wrote -- in particular no implied attribute that got no value."""
    from emmet import expand
    abbr = G.print_abbr(ast)
    html = expand(abbr, {'syntax': 'html', 'options': {'output.format': False}})
    got = []

    def flat_html(fr):
        for nd in fr:
            got.append([nd[0], [[k, v] for k, v in nd[1] if k not in ('id', 'class')]])
            flat_html(nd[3])
    flat_html(G.parse_markup(html, void_without_slash=True))
    exp = []

    def flat(fr):
        for nd in fr:
            exp.append([nd['name'], written_attributes(nd['attrs'])])
            flat(nd['children'])
    flat(denote_full(ast))
    if got != exp:
        return 'expand(%r, syntax=html): the elements of the HTML reference carry the attributes %r, the abbreviation gives them %r ' \
               '(a C03 matter; the comparison of C15 is void); output %r' % (abbr, got, exp, html)
    return check_indent(ast, indent)


def check_indent_loose(ast, indent, strict_heads):
    """for trees that also contain text-only nodes `{...}` and self-closing elements `x/`.  The statement
    says nothing about where the text of a text-only node goes nor about a self-closing mark, so only this
    is required: the output lines, read in order, contain for every element -- in document order -- one
    line of its own with indentation == depth that reads `head + attribute list`, then nothing / a space
    and anything (/ the element's own one-line text and anything); self-closing: optionally `/`.  Every
    other line must consist of text that the abbreviation wrote (plus blanks and `|` markers) only.
    With strict_heads False the line of an element only has to *start* with its head (text may run into
    it): that variant checks order, own line and depth only."""
    from emmet import expand
    abbr = G.print_abbr(ast)
    forest = denote_full(ast)
    html = expand(abbr, {'syntax': 'xhtml', 'options': {'output.format': False}})
    html_tree = G.shape(G.parse_markup(html))
    if html_tree != element_shape(forest):
        return 'expand(%r, syntax=xhtml): the HTML reference tree is not the tree the abbreviation denotes (a C01 failure; ' \
               'the comparison of C15 is void): %s; output %r' % (abbr, G.first_difference(element_shape(forest), html_tree), html)
    texts = set()

    def collect(fr):
        for nd in fr:
            if nd['text'] is not None:
                # (stripped: the greedy indentation split may eat blanks / tabs a text line starts with)
                texts.update(t.strip(' \t') for t in text_lines(nd['text']) if t.strip(' \t'))
            collect(nd['children'])
    collect(forest)
    for syntax in SYNTAXES:
        out = expand(abbr, {'syntax': syntax, 'options': {'output.indent': indent}})
        where = 'expand(%r, syntax=%s, output.indent=%r)' % (abbr, syntax, indent)
        elements = []

        def flat(fr, depth):
            for nd in fr:
                if nd['name'] is not None:
                    primary = ('#' + nd['id'] if nd['id'] is not None else '') + ''.join('.' + c for c in nd['cls'])
                    head = primary if nd['name'] == 'div' and primary else ('%' if syntax == 'haml' else '') + nd['name'] + primary
                    head += attribute_list(nd['attrs'], syntax)
                    own = text_lines(nd['text']) if nd['text'] is not None else []
                    elements.append((depth, head, own[0] if len(own) == 1 else None, nd['close'], own if len(own) > 1 else []))
                    flat(nd['children'], depth + 1)
                else:
                    flat(nd['children'], depth)
        flat(forest, 0)
        k = 0
        pending = []        # text lines of the element just matched: they must follow it directly
        for i, ln in enumerate(out.split('\n')):
            if pending:
                pdepth, ptext = pending.pop(0)
                problem = text_line_problem(ln, indent, pdepth, ptext, syntax, may_continue=True)
                if problem:
                    return '%s: line %d %s; output %r' % (where, i + 1, problem, out)
                continue
            d, body = split_indent(ln, indent)
            if k < len(elements):
                depth, head, text, close, own_lines = elements[k]
                ok = False
                if not strict_heads:
                    ok = body.startswith(head)
                elif text is not None:
                    ok = body.startswith(head + ' ' + text)
                else:
                    rest = body[len(head):] if body.startswith(head) else None
                    # the head must end where the expected head ends: end of line, a blank, or -- for a
                    # self-closing element -- the `/` mark (what follows the mark is not constrained)
                    ok = rest is not None and (rest == '' or rest[0] == ' ' or (close and rest[0] == '/'))
                if ok:
                    if d != depth:
                        return '%s: line %d %r is indented %d x indent, expected %d (depth of the element); output %r' % (
                            where, i + 1, ln, d, depth, out)
                    k += 1
                    pending = [(depth + 1, t) for t in own_lines]
                    continue
            left = body
            for t in sorted(texts, key=len, reverse=True):
                left = left.replace(t, '')
            if left.strip(' \t|'):
                nxt = ('; the next element awaited is %r at depth %d' % (elements[k][1], elements[k][0])) if k < len(elements) else ''
                return '%s: line %d %r is neither the line of the next element nor made of text of the abbreviation%s; output %r' % (
                    where, i + 1, ln, nxt, out)
        if pending:
            return '%s: the text line %r of the last element has no line; output %r' % (where, pending[0][1], out)
        if k < len(elements):
            return '%s: no line of its own for element %r (depth %d); output %r' % (where, elements[k][1], elements[k][0], out)
    return None


# ----------------------------------------------------------------------------- generators
def decoration(k, j):
    """k-th way to decorate element j: -> head fields"""
    k %= N_DECORATIONS
    return [
        {},
        {'cls': ['c%d' % j]},
        {'id': 'i%d' % j},
        {'id': 'i%d' % j, 'cls': ['c%d' % j, 'k', 'm-%d' % j]},
        {'attrs': [['title', 't%d' % j]]},
        {'cls': ['c%d' % j], 'attrs': [['title', 't%d' % j], ['data-n', 'v%d' % j]]},
        {'text': 'T%d' % j},
        {'text': 'La%d\nLb%d' % (j, j)},
        {'cls': ['c%d' % j], 'text': 'La%d\nLonger b%d\nLc' % (j, j)},
        {'id': 'i%d' % j, 'attrs': [['title', 't%d' % j]], 'text': 'T%d w' % j},
        # multi-line texts with empty / blank lines.  Every line is a text line and must get a line of its
        # own: an empty line inside or at the start, several in a row, a line of blanks, a last line of
        # blanks, lines starting with a blank / tab.  (A text *ending* in a line break is not generated:
        # whether that starts one more, empty, text line is not fixed by the statement.)
        {'text': 'La%d\n\nLb%d' % (j, j)},
        {'cls': ['c%d' % j], 'text': '\nLa%d\nLb%d' % (j, j)},
        {'text': 'La%d\n  \nLb%d\n\n\nLc' % (j, j)},
        {'id': 'i%d' % j, 'text': ' La%d\n\n\tLb%d\n ' % (j, j)},
        # ordinary attributes whose names resemble / are fragments of `class` and `id`: only the attributes
        # called exactly `id` and `class` belong to the head, all others to the attribute list, in order --
        # alone, next to a real id / class, and with text
        {'attrs': [['a', 'b%d' % j]]},
        {'cls': ['c%d' % j], 'attrs': [['as', 'x%d' % j], ['idx', 'y%d' % j]]},
        {'id': 'i%d' % j, 'cls': ['c%d' % j], 'attrs': [['s', 'v%d' % j], ['i', 'w%d' % j], ['d', 'z%d' % j]]},
        {'attrs': [['classes', 'k%d' % j], ['cl', 'm%d' % j], ['c', 'n%d' % j], ['l', 'o%d' % j], ['ss', 'p%d' % j], ['la', 'q%d' % j]]},
        {'id': 'i%d' % j, 'attrs': [['ids', 'u%d' % j], ['klass', 'r%d' % j], ['si', 's%d' % j]], 'text': 'T%d' % j},
        {'attrs': [['i', 'w%d' % j]], 'text': 'La%d\nLb%d' % (j, j)},
    ][k]


N_DECORATIONS = 20


def decorate(skel, reps, variant, offset):
    """element j (document order): name NAMES[(j + offset) % len] or implicit (variant 1: odd j, 2: even j,
    3: all), decoration number (3 * j + offset); an implicit element always gets an id or class"""
    counter = [0, 0]

    def items(sk):
        out = []
        for kind, ch in sk:
            idx = counter[0]
            counter[0] += 1
            rep = reps.get(idx)
            if kind == 'g':
                out.append(['g', rep, items(ch)])
                continue
            j = counter[1]
            counter[1] += 1
            head = dict(decoration(3 * j + offset, j))
            implicit = (variant == 1 and j % 2 == 1) or (variant == 2 and j % 2 == 0) or variant == 3
            if not implicit:
                head['name'] = NAMES[(j + offset) % len(NAMES)]
            elif not G.has_attributes(head):
                head['cls'] = ['c%d' % j]
            out.append(['e', head, rep, items(ch)])
        return out
    return items(skel)


def skeleton_cases(plan):
    idx = 0
    for (n, gmax, rmax), nvar in plan:
        for g in range(0, gmax + 1):
            for skel in G.skeletons(n, g):
                m = G.count_nodes(skel)
                for reps in G.rep_assignments(m, rmax, (2, 3)):
                    for v in range(nvar):
                        idx += 1
                        yield (decorate(skel, reps, (idx + v) % 4, idx), INDENTS[idx % len(INDENTS)])


def head_cases():
    """every name kind x every decoration x position in a small tree x every indent"""
    E = G.E
    for name in ['div', 'p', 'ul', 'span', None]:
        for k in range(N_DECORATIONS):
            head = dict(decoration(k, 1))
            if name is None and not G.has_attributes(head):
                continue
            if name:
                head['name'] = name
            x = ['e', head, None, []]
            x2 = ['e', dict(head), 2, [E('em')]]
            xt = ['e', dict(head), None, [E('b', text='B'), E('i')]]
            for ast in ([x], [E('section', [x])], [E('ul', [E('li'), x, E('li')])], [E('p', [E('b', [x])]), E('div')],
                        [x2], [E('table', [x2, E('tr')])], [xt, x], [E('div', [E('div', [xt]), E('p')])],
                        [G.G([x, E('p')], 2)], [E('ol', [G.G([x], 3)])]):
                for indent in INDENTS:
                    yield (ast, indent)


def decorate_loose(skel, reps, offset):
    """like decorate(); additionally leaves become, in rotation, text-only nodes `{Tx}` / `{Lx\nLy}` and
    self-closing elements `name/`, `br`, `hr` (built-in self-closing snippets without attributes)"""
    counter = [0, 0]

    def items(sk):
        out = []
        for kind, ch in sk:
            idx = counter[0]
            counter[0] += 1
            rep = reps.get(idx)
            if kind == 'g':
                out.append(['g', rep, items(ch)])
                continue
            j = counter[1]
            counter[1] += 1
            sel = (2 * j + offset) % 7
            if not ch and sel == 0:
                head = {'text': 'Tx%d' % j}
            elif not ch and sel == 1:
                head = {'text': 'Lx%d\nLy%d' % (j, j)}
            elif not ch and sel == 2:
                head = dict(decoration(offset + j, j), name=NAMES[(j + offset) % len(NAMES)], close=True)
                head.pop('text', None)
            elif not ch and sel == 3:
                head = {'name': ('br', 'hr')[(j + offset) % 2]}
            else:
                head = dict(decoration(3 * j + offset, j), name=NAMES[(j + offset) % len(NAMES)])
            out.append(['e', head, rep, items(ch)])
        return out
    return items(skel)


def loose_cases(plan, strict):
    idx = 0
    for (n, gmax, rmax), nvar in plan:
        for g in range(0, gmax + 1):
            for skel in G.skeletons(n, g):
                m = G.count_nodes(skel)
                for reps in G.rep_assignments(m, rmax, (2,)):
                    for v in range(nvar):
                        idx += 1
                        yield (decorate_loose(skel, reps, idx), INDENTS[idx % len(INDENTS)], strict)


def random_cases(seed, count):
    rng = random.Random(seed)
    for _ in range(count):
        ast = G.random_ast(rng, rng.randint(5, 30), names=NAMES, implicit_p=0.0, id_p=0.0)
        j = [0]

        def deco(items):
            for it in items:
                if it[0] == 'g':
                    deco(it[2])
                    continue
                j[0] += 1
                head = dict(decoration(rng.randrange(N_DECORATIONS), j[0]))
                if rng.random() < 0.7:
                    head['name'] = rng.choice(NAMES)
                elif not G.has_attributes(head):
                    head['id'] = 'i%d' % j[0]
                it[1] = head
                deco(it[3])
        deco(ast)
        yield (ast, rng.choice(INDENTS + [' ', '\t\t', '   ']))


# ----------------------------------------------------------------------------- wide heads, line-break kinds
CLASS_COUNTS = list(range(0, 21)) + [33, 65, 130, 260]
CLASS_FORMS = ['u%d', 'k-%d', 'm_%d', 'col-md-%d', 'X%dy']
BREAKS = ['\n', '\r\n', '\r']


def class_names(n, shift=0):
    """n distinct class names without blanks; the form rotates with the position"""
    return [CLASS_FORMS[(i + shift) % len(CLASS_FORMS)] % i for i in range(n)]


def wide_extra(k, j):
    return [{}, {'attrs': [['title', 't%d' % j]]}, {'text': 'T%d w' % j}, {'text': 'La%d\nLb%d' % (j, j)}][k % 4]


def class_count_cases():
    """every class count of CLASS_COUNTS x 4 name kinds x with / without id x 5 positions in a small tree;
    what else the element carries (nothing / attribute / one-line text / two-line text) rotates with
    count + position + name kind, the indent string with the case index"""
    E = G.E
    idx = 0
    for n in CLASS_COUNTS:
        for ni, name in enumerate(['div', 'p', 'section', None]):
            for with_id in (False, True):
                if name is None and n == 0 and not with_id:
                    continue                    # an implicit element needs an id or a class
                for pos in range(5):
                    head = dict(wide_extra(n + pos + ni, 1))
                    if n:
                        head['cls'] = class_names(n, pos)
                    if with_id:
                        head['id'] = 'i1'
                    if name:
                        head['name'] = name
                    x = ['e', head, None, []]
                    inner = dict(wide_extra(n + pos + ni + 1, 2), cls=class_names((n + 7) % 21 + 1, 2), name='span')
                    if pos == 0:
                        ast = [x]
                    elif pos == 1:
                        ast = [E('ul', [E('li'), x, E('li')])]
                    elif pos == 2:
                        ast = [E('section', [E('p', [['e', dict(head), None, [E('b', text='B'), E('i')]]])]), E('div')]
                    elif pos == 3:
                        ast = [G.G([x, E('p')], 2)]
                    else:
                        ast = [['e', dict(head), None, [['e', inner, None, [E('em')]], E('i')]], x]
                    idx += 1
                    yield (ast, INDENTS[idx % len(INDENTS)])


# texts as lists of lines; the separators between the lines range over BREAKS.  (When an empty line stands
# between a `\r` and a `\n` the two separators read as one CR LF: the expected lines are always taken from
# the text as written, text_lines(), not from the list it was built from.)
BREAK_TEXTS = [['La', 'Lb'], ['La', 'Longer b', 'Lc'], ['La', '', 'Lb'], ['', 'La', 'Lb'],
               [' La', '', '\tLb', ' '], ['La', '  ', 'Lb', '', 'Lc']]


def break_texts():
    import itertools
    for pieces in BREAK_TEXTS:
        for seps in itertools.product(BREAKS, repeat=len(pieces) - 1):
            yield ''.join(p + s for p, s in zip(pieces, seps + ('',)))


def line_break_cases():
    """every text of break_texts() x 4 heads x 4 positions; indent string rotating"""
    E = G.E
    idx = 0
    for text in break_texts():
        for head in ({'name': 'p'}, {'name': 'div', 'cls': ['c1']}, {'cls': ['c1', 'k']},
                     {'name': 'span', 'id': 'i1', 'attrs': [['title', 't1']]}):
            head = dict(head, text=text)
            x = ['e', head, None, []]
            xt = ['e', dict(head), None, [E('b', text='B'), E('i')]]
            for ast in ([x], [E('div', [E('section', [xt, E('i')]), E('blockquote', text='Q')])],
                        [E('ul', [G.G([x, E('li', text='third')], 2)])], [xt, E('p', [x])]):
                idx += 1
                yield (ast, INDENTS[idx % len(INDENTS)])


def random_wide_cases(seed, count):
    """random ASTs of 3..15 elements; every element gets 0..14 classes (a third of them 9 and more), an id,
    attributes and a text of 1..5 lines separated by random line breaks, each with its own probability"""
    rng = random.Random(seed * 7919 + 15)
    words = ['La', 'Longer b', 'x', 'Lc d e', '', '  ', ' s', '\tt']
    for _ in range(count):
        ast = G.random_ast(rng, rng.randint(3, 15), names=NAMES, implicit_p=0.0, id_p=0.0, max_mult=6)
        j = [0]

        def deco(items):
            for it in items:
                if it[0] == 'g':
                    deco(it[2])
                    continue
                j[0] += 1
                head = {}
                n = rng.choice([0, 1, 2, 3]) if rng.random() < 0.65 else rng.randint(4, 14)
                if n:
                    head['cls'] = class_names(n, rng.randrange(5))
                if rng.random() < 0.3:
                    head['id'] = 'i%d' % j[0]
                if rng.random() < 0.25:
                    head['attrs'] = [['title', 't%d' % j[0]], ['data-n', 'v%d' % j[0]]][:rng.randint(1, 2)]
                if rng.random() < 0.5:
                    pieces = [rng.choice(words) for _ in range(rng.randint(1, 5))]
                    if pieces[-1] == '':
                        pieces[-1] = 'Z'        # (a text ending in a line break is not generated)
                    if len(pieces) == 1:
                        pieces[0] = 'T%d w' % j[0]
                    kinds = rng.choice([BREAKS, BREAKS, ['\r'], ['\r\n'], ['\r', '\n']])
                    head['text'] = ''.join(p + (rng.choice(kinds) if i + 1 < len(pieces) else '') for i, p in enumerate(pieces))
                if rng.random() < 0.7:
                    head['name'] = rng.choice(NAMES)
                elif not G.has_attributes(head):
                    head['cls'] = ['c%d' % j[0]]
                it[1] = head
                deco(it[3])
        deco(ast)
        yield (ast, rng.choice(INDENTS + [' ', '\t\t', '   ']))


# ----------------------------------------------------------------------------- implied attributes
def attr_forms(j):
    """attribute lists with implied attributes `!k` (value None: no value given): alone, first, in the
    middle, last, two of them in every arrangement around an ordinary attribute, with a value of their own,
    next to an attribute without value `[title]`; no name occurs twice"""
    t, v = 't%d' % j, 'v%d' % j
    L, D = ['!lang', None], ['!dir', None]
    return [
        [L],
        [['title', t], L],
        [L, ['title', t]],
        [['title', t], L, ['data-n', v]],
        [['title', t], ['data-n', v], L],
        [L, D],
        [['title', t], L, D],
        [L, ['title', t], D],
        [L, D, ['title', t]],
        [['!lang', 'en']],
        [['title', t], ['!lang', 'en'], D],
        [['!data-x', None], ['!lang', 'en']],
        [['title', None], L],
        [L, ['title', None], ['data-n', v]],
        [['title', None]],
    ]


N_ATTR_FORMS = 15
PRIMARY_FORMS = [{}, {'cls': ['c1']}, {'id': 'i1'}, {'id': 'i1', 'cls': ['c1', 'k', 'm-1']}]
TEXT_FORMS = [None, 'T1 w', 'La1\nLb1']


def implied_cases():
    """every attribute form x 4 id / class forms x 4 name kinds x 5 positions; the text of the element
    (none / one line / two lines) rotates so that every (attribute form, id / class form) pair meets all
    three; the indent string rotates with the case index"""
    E = G.E
    idx = 0
    for f in range(N_ATTR_FORMS):
        for pi, primary in enumerate(PRIMARY_FORMS):
            for ni, name in enumerate(['p', 'div', 'span', None]):
                for pos in range(5):
                    head = dict(primary, attrs=attr_forms(1)[f])
                    text = TEXT_FORMS[(f + pi + ni + pos) % 3]
                    if text is not None:
                        head['text'] = text
                    if name:
                        head['name'] = name
                    x = ['e', head, None, []]
                    inner = {'name': 'b', 'attrs': attr_forms(2)[(f + pos + 3) % N_ATTR_FORMS], 'text': 'B'}
                    if pos == 0:
                        ast = [x]
                    elif pos == 1:
                        ast = [E('ul', [E('li'), x, E('li')])]
                    elif pos == 2:
                        ast = [E('section', [E('p', [['e', dict(head), None, [['e', inner, None, []], E('i')]]])]), E('div')]
                    elif pos == 3:
                        ast = [G.G([x, E('p')], 2)]
                    else:
                        ast = [['e', dict(head), 2, [['e', inner, None, [E('em')]]]], x]
                    idx += 1
                    yield (ast, INDENTS[idx % len(INDENTS)])


# ----------------------------------------------------------------------------- self-closing elements with children
# `name/` and the built-in self-closing snippets only say "no closing tag when the element is empty"; the
# element is an element of the tree like any other and so are the elements written below it.
VOID_PARENTS = ['br', 'hr']         # built-in self-closing snippets that add no attribute of their own

PLAIN_DECORATIONS = [0, 1, 2, 3, 4, 5, 14, 15, 16, 17, 6, 9, 7]     # the last three carry text


def closing_head(kind, k, j):
    """head of a self-closing element: kind 0 `name.../` (name without snippet), 1 `div.../`, 2 implicit `.../`,
    3 `br...` / `hr...` (self-closing by their snippet), 4 `br.../` / `hr.../`"""
    head = dict(decoration(PLAIN_DECORATIONS[k % len(PLAIN_DECORATIONS)], j))
    if kind == 0:
        head['name'] = ['p', 'section', 'span', 'li'][(j + k) % 4]
    elif kind == 1:
        head['name'] = 'div'
    elif kind == 2:
        if not G.has_attributes(head):
            head['cls'] = ['c%d' % j]
    else:
        head['name'] = VOID_PARENTS[(j + k) % 2]
    if kind != 3:
        head['close'] = True
    return head


def closing_parent_cases():
    """5 kinds of self-closing element x 13 decorations (10 without, 3 with text of its own) x 8 families of
    children x 4 positions in a tree; indent rotating"""
    E = G.E
    idx = 0
    for kind in range(5):
        for k in range(len(PLAIN_DECORATIONS)):
            for fam in range(8):
                def X(children, rep=None, j=1):
                    return ['e', closing_head(kind, k, j), rep, children]
                if fam == 0:
                    x = X([E('span')])
                elif fam == 1:
                    x = X([E('b', text='B'), E('i'), E('em', cls=['e'])])
                elif fam == 2:
                    x = X([E('ul', [E('li', [E('u')]), E('li')]), E('p')])
                elif fam == 3:
                    x = X([E(None, cls=['n1']), E(None, id='n2', children=[E('i')])])     # implicit children
                elif fam == 4:
                    x = X([X([X([E('b')], j=3), E('i')], j=2), E('em')])                  # nested self-closing parents
                elif fam == 5:
                    x = X([E('span', [E('b')])], rep=2)
                elif fam == 6:
                    x = X([G.G([E('b'), E('i', text='I')], 2), E('hr')])
                else:
                    x = X([E('br'), E('span', close=True), E('em', [E('hr', [E('b')])])])
                for pos in range(4):
                    if pos == 0:
                        ast = [x]
                    elif pos == 1:
                        ast = [E('ul', [E('li'), x, E('li')])]
                    elif pos == 2:
                        ast = [E('section', [E('p', [x]), E('h2')]), E('div')]        # a climb follows the subtree
                    else:
                        ast = [G.G([x, E('p')], 2), E('footer')]
                    idx += 1
                    yield (ast, INDENTS[idx % len(INDENTS)], True)


def decorate_closing(skel, reps, offset):
    """like decorate_loose(), but an element WITH children is, in rotation (5 rotations), a self-closing one:
    0 `name.../` with a decoration (its own text kept), 1 `br` / `hr`, 2 an implicit `.cJ.../`; leaves are, in
    rotation, `name.../` (no text), `br` / `hr`, a text-only node, an implicit element, or ordinary"""
    counter = [0, 0]

    def items(sk):
        out = []
        for kind, ch in sk:
            idx = counter[0]
            counter[0] += 1
            rep = reps.get(idx)
            if kind == 'g':
                out.append(['g', rep, items(ch)])
                continue
            j = counter[1]
            counter[1] += 1
            sel = (2 * j + offset) % 5
            name = NAMES[(j + offset) % len(NAMES)]
            if sel == 0:
                head = dict(decoration(offset + j, j), name=name, close=True)
                if not ch:
                    head.pop('text', None)
            elif sel == 1:
                head = {'name': VOID_PARENTS[(j + offset) % 2]}
            elif sel == 2 and ch:
                head = dict(decoration(offset + j, j), close=True)
                if not G.has_attributes(head):
                    head['cls'] = ['c%d' % j]
            elif sel == 2:
                head = {'text': 'Tx%d' % j}
            elif sel == 3:
                head = dict(decoration(3 * j + offset, j))
                if not G.has_attributes(head):
                    head['cls'] = ['c%d' % j]
            else:
                head = dict(decoration(3 * j + offset, j), name=name)
            out.append(['e', head, rep, items(ch)])
        return out
    return items(skel)


def closing_skeleton_cases(plan):
    idx = 0
    for (n, gmax, rmax), nvar in plan:
        for g in range(0, gmax + 1):
            for skel in G.skeletons(n, g):
                m = G.count_nodes(skel)
                for reps in G.rep_assignments(m, rmax, (2,)):
                    for v in range(nvar):
                        idx += 1
                        yield (decorate_closing(skel, reps, idx), INDENTS[idx % len(INDENTS)], True)


def random_closing_implied_cases(seed, count):
    """random ASTs of 4..20 elements; every element: a random decoration; with probability 0.3 its attributes
    are replaced by a random form with implied attributes; with probability 0.3 it is self-closing (`name.../`,
    or br / hr) whether or not it has children; leaves are text-only nodes with probability 0.1"""
    rng = random.Random(seed * 104729 + 154)
    for _ in range(count):
        ast = G.random_ast(rng, rng.randint(4, 20), names=NAMES, implicit_p=0.0, id_p=0.0, max_mult=6)
        j = [0]

        def deco(items):
            for it in items:
                if it[0] == 'g':
                    deco(it[2])
                    continue
                j[0] += 1
                if not it[3] and rng.random() < 0.1:
                    it[1] = {'text': 'Tx%d' % j[0]}
                    continue
                head = dict(decoration(rng.randrange(N_DECORATIONS), j[0]))
                if rng.random() < 0.3:
                    head['attrs'] = attr_forms(j[0])[rng.randrange(N_ATTR_FORMS)]
                r = rng.random()
                if r < 0.1:
                    head['name'] = rng.choice(VOID_PARENTS)
                    if rng.random() < 0.3:
                        head['close'] = True
                elif r < 0.75:
                    head['name'] = rng.choice(NAMES)
                elif not G.has_attributes(head):
                    head['id'] = 'i%d' % j[0]
                if 0.1 <= r and rng.random() < 0.25:
                    head['close'] = True
                if head.get('close') and not it[3]:
                    head.pop('text', None)      # (a self-closing leaf with text of its own is not generated)
                it[1] = head
                deco(it[3])
        deco(ast)
        yield (ast, rng.choice(INDENTS + [' ', '\t\t', '   ']), True)


# ----------------------------------------------------------------------------- deep trees
# "indentation equals its depth in the tree": depth is unbounded in the grammar.  The skeleton generators stop
# at 5 (6) elements, i.e. depth <= 4 (5); random ASTs practically never pass depth 7.  Here a *spine*
# a>b>c>... of K elements carries a small payload at depth K, with siblings after a climb at some level.
ALL_INDENTS = INDENTS + [' ', '\t\t', '   ']
SPINE_LENGTHS = list(range(1, 17)) + [20, 24, 33, 50]
SPINE_DECORATIONS = [0, 1, 2, 3, 4, 5, 6, 7, 14, 15, 16, 9, 8]      # 6, 9: one-line text; 7, 8: multi-line text


def spine_head(d, variant, offset):
    """head of the spine element at depth d: variant 0 a bare name, 1 name + rotating decoration (id, classes,
    attributes, one-line or multi-line text of its own), 2 as 1 with the odd depths implicit"""
    name = NAMES[(d + offset) % len(NAMES)]
    if variant == 0:
        return {'name': name}
    head = dict(decoration(SPINE_DECORATIONS[(d + offset) % len(SPINE_DECORATIONS)], 100 + d))
    if variant == 2 and d % 2 == 1:
        if not G.has_attributes(head):
            head['cls'] = ['c%d' % (100 + d)]
    else:
        head['name'] = name
    return head


def spine(K, variant, offset, payload, climb=None):
    """AST of a chain of K elements (depths 0..K-1) whose innermost element has the children `payload`
    (depth K); climb = d: an element `footer#fd` follows the spine element of depth d as its sibling"""
    items = payload
    for d in range(K - 1, -1, -1):
        items = [['e', spine_head(d, variant, offset), None, items]]
        if climb == d:
            items.append(G.E('footer', id='f%d' % d))
    return items


def payload_family(fam, k):
    """the subtree put at the end of the spine; x is an element with the k-th decoration"""
    E = G.E
    head = dict(decoration(k, 1), name=['p', 'div', 'span', 'section'][k % 4])
    x = ['e', head, None, []]
    if fam == 0:
        return [x]
    if fam == 1:
        return [E('li'), x, E('i', cls=['y'])]
    if fam == 2:
        return [['e', dict(head), None, [E('b', text='B'), E('i', [E('u')])]], E('em')]
    if fam == 3:
        return [G.G([x, E('p')], 2)]
    if fam == 4:
        return [['e', dict(head), 2, [E('em')]], E(None, cls=['z'])]
    return []                                   # the innermost spine element is the deepest one


def deep_cases(plan):
    """every spine length x 6 payload families x 3 spine variants x 4 climbs (none, to the top, to the middle,
    to the innermost spine element); decoration of the payload and indent string (7 strings) rotating;
    then every operator skeleton of `plan` placed below a spine of 5..12 elements"""
    idx = 0
    for K in SPINE_LENGTHS:
        for fam in range(6):
            for variant in range(3):
                for climb in (None, 0, K // 2, K - 1):
                    idx += 1
                    yield (spine(K, variant, idx, payload_family(fam, idx), climb), ALL_INDENTS[idx % len(ALL_INDENTS)])
    for (n, gmax, rmax), nvar in plan:
        for g in range(0, gmax + 1):
            for skel in G.skeletons(n, g):
                m = G.count_nodes(skel)
                for reps in G.rep_assignments(m, rmax, (2,)):
                    for v in range(nvar):
                        idx += 1
                        K = 5 + idx % 8
                        climb = (None, K - 1, K // 2)[idx % 3]
                        yield (spine(K, idx % 3, idx, decorate(skel, reps, (idx + v) % 4, idx), climb),
                               ALL_INDENTS[idx % len(ALL_INDENTS)])


# ----------------------------------------------------------------------------- write histories
# one parsed abbreviation, several writes: the same writer again, another indentation-based writer, the HTML
# writer before / between / after them (the HTML write of the same tree is the reference of sentence 2)
HISTORIES = [['haml', 'haml'], ['pug', 'pug'], ['slim', 'slim'], ['haml', 'haml', 'haml'],
             ['haml', 'pug'], ['pug', 'slim'], ['slim', 'haml'], ['haml', 'pug', 'slim'], ['slim', 'pug', 'haml', 'pug'],
             ['haml', 'html'], ['pug', 'html'], ['slim', 'html'], ['html', 'haml', 'html'], ['pug', 'html', 'pug'],
             ['html', 'slim', 'slim', 'html']]


def history_cases(plan):
    """5 name kinds x 20 decorations x 3 positions x every history of HISTORIES (indent rotating), then the
    operator skeletons of `plan` with rotating decorations, history and indent string"""
    E = G.E
    idx = 0
    for name in ['div', 'p', 'ul', 'span', None]:
        for k in range(N_DECORATIONS):
            head = dict(decoration(k, 1))
            if name is None and not G.has_attributes(head):
                continue
            if name:
                head['name'] = name
            x = ['e', head, None, []]
            xt = ['e', dict(head), None, [E('b', text='B'), E('i', cls=['y'])]]
            for ast in ([x], [E('ul', [E('li'), x, E('li', id='l')])], [E('div', [E('div', [xt], cls=['w']), E('p')]), x]):
                for history in HISTORIES:
                    idx += 1
                    yield (ast, ALL_INDENTS[idx % len(ALL_INDENTS)], history)
    for case in skeleton_cases(plan):
        idx += 1
        yield (case[0], ALL_INDENTS[idx % len(ALL_INDENTS)], HISTORIES[idx % len(HISTORIES)])


def run_sorted(c, fname, cases, chunk):
    """run_parallel with a deterministic report: the pool delivers violations in arrival order and the
    default cap is 50, so collect all, sort by input (shortest first), report the first 50"""
    found = []
    c.violation = lambda key, what, func, args: found.append({'key': key, 'what': what, 'replay': {'func': func, 'args': args}})
    run_parallel(c, 'bounded.c15', fname, cases, chunk=chunk)
    del c.violation
    found.sort(key=lambda v: (len(v['key']), v['key']))
    c.violations = found[:50]


def run(tier, seed):
    if tier == 'quick':
        plan = [((1, 2, 2), 4), ((2, 2, 2), 4), ((3, 2, 2), 2), ((4, 2, 1), 1), ((5, 1, 1), 1)]
        loose = [((1, 1, 1), 7), ((2, 1, 1), 7), ((3, 1, 1), 7), ((4, 1, 1), 2), ((5, 0, 1), 1)]
        closing = [((2, 1, 1), 5), ((3, 1, 1), 5), ((4, 1, 1), 1), ((5, 0, 1), 1)]
        nrand = 800
        nwide = 300
        nclosing = 300
        deep = [((1, 1, 1), 1), ((2, 1, 1), 1), ((3, 1, 1), 1)]
        hist = [((1, 2, 2), 2), ((2, 2, 2), 2), ((3, 1, 1), 1)]
    else:
        plan = [((1, 2, 2), 4), ((2, 2, 2), 4), ((3, 2, 2), 4), ((4, 2, 2), 2), ((5, 2, 2), 1), ((6, 1, 1), 1)]
        loose = [((1, 2, 2), 7), ((2, 2, 2), 7), ((3, 2, 2), 7), ((4, 2, 2), 7), ((5, 1, 1), 2), ((6, 0, 1), 1)]
        closing = [((2, 2, 2), 5), ((3, 2, 2), 5), ((4, 2, 2), 5), ((5, 1, 1), 2), ((6, 0, 1), 1)]
        nrand = 30000
        nwide = 10000
        nclosing = 10000
        deep = [((1, 2, 2), 2), ((2, 2, 2), 2), ((3, 2, 2), 2), ((4, 1, 1), 1)]
        hist = [((1, 2, 2), 4), ((2, 2, 2), 4), ((3, 2, 2), 2), ((4, 2, 1), 1)]
    out = []
    c = Clause('lines-skeleton-exhaustive', 'B',
               'every operator skeleton of the C01 generator (groups, ^ climbs, *2/*3), elements decorated with id / classes / '
               'attributes / one-line / multi-line text in rotation, named or implicit; haml, pug and slim; indent rotating over %r' % INDENTS,
               ' | '.join('%d elements, <=%d groups, <=%d repeaters: %d naming variant(s)' % (s + (v,)) for s, v in plan),
               'a case is (AST, indent string); the three syntaxes and the HTML reference are evaluated inside', exhaustive=True)
    run_parallel(c, 'bounded.c15', 'check_indent', skeleton_cases(plan), chunk=300)
    out.append(c.done())

    c = Clause('head-forms', 'B',
               '5 name kinds (div, p, ul, span, implicit) x 20 decorations (bare, class, id, id+3 classes, attribute, class+attributes, text, '
               '2-line text, class+3-line text, id+attribute+text, 4 multi-line texts with empty / blank / blank-started lines, 6 with '
               'attributes named like fragments / relatives of class and id: a as idx s i d classes cl c l ss la ids klass si) x 10 positions in a small tree x 4 indent strings',
               'complete product as stated', 'a case is (AST, indent string)', exhaustive=True)
    run_parallel(c, 'bounded.c15', 'check_indent', head_cases(), chunk=100)
    out.append(c.done())

    for name, strict, what in (
            ('text-only-self-closing-levels', False,
             'every element has, in document order, a line of its own that starts with its head and is indented by its depth '
             '(no level leak after text-only / self-closing nodes); other lines consist of text of the abbreviation'),
            ('text-only-self-closing-heads', True,
             'as the -levels clause, and the head of every element line ends where name#id.class + attribute list end '
             '(end of line, blank, or the self-closing mark): text of a text-only node must not run into a head')):
        c = Clause(name, 'B',
                   'operator skeletons whose leaves are, in rotation, text-only nodes {T} / {L1\\nL2}, self-closing elements name/ , br, hr '
                   'and ordinary decorated elements; haml, pug, slim; indent rotating over %r' % INDENTS,
                   ' | '.join('%d elements, <=%d groups, <=%d repeaters (*2): %d rotation(s)' % (s + (v,)) for s, v in loose),
                   'a case is (AST, indent string, strict_heads); ' + what, exhaustive=True)
        # keep the reported violations deterministic (the pool delivers them in arrival order and the
        # default cap is 50): collect all, sort by input, report the first 250
        found = []
        c.violation = lambda key, what, func, args: found.append({'key': key, 'what': what, 'replay': {'func': func, 'args': args}})
        run_parallel(c, 'bounded.c15', 'check_indent_loose', loose_cases(loose, strict), chunk=300)
        del c.violation
        found.sort(key=lambda v: v['key'])
        c.violations = found[:250]
        out.append(c.done())

    c = Clause('class-count', 'B',
               'one element with n classes, n in 0..20, 33, 65, 130, 260 (names without blanks of 5 forms: uN k-N m_N col-md-N XNy) x '
               '4 name kinds (div, p, section, implicit) x with / without id x 5 positions in a small tree (alone, middle child of ul, '
               'depth 2 with children, in a group repeated twice, parent of another many-class element + copy); attribute / one-line / '
               'two-line text rotating; haml, pug, slim; indent rotating over %r' % INDENTS,
               'complete product as stated (an implicit element needs an id or class: 5 combinations drop out)',
               'a case is (AST, indent string)', exhaustive=True)
    run_sorted(c, 'check_indent', class_count_cases(), 50)
    out.append(c.done())

    c = Clause('line-break-kinds', 'B',
               'multi-line texts of 2..5 lines (with empty, blank and blank-started lines) whose lines are separated by every '
               'assignment of LF, CR LF and bare CR to the separators (3 + 9 + 9 + 9 + 27 + 81 texts) x 4 heads (p, div.c1, '
               'implicit .c1.k, span#i1[title]) x 4 positions (alone, depth 2 with children and siblings, in a repeated group below ul, '
               'with children + nested copy); haml, pug, slim; indent rotating over %r' % INDENTS,
               'complete product as stated', 'a case is (AST, indent string); a text line ends at CR LF, CR or LF', exhaustive=True)
    run_sorted(c, 'check_indent', line_break_cases(), 100)
    out.append(c.done())

    c = Clause('random-wide-heads-line-breaks', 'B',
               'seeded random ASTs of 3..15 elements; every element 0..14 classes, id, attributes, text of 1..5 lines with random '
               'LF / CR LF / CR separators; 7 indent strings',
               '%d cases, seed %d' % (nwide, seed), 'a case is (AST, indent string)', exhaustive=False)
    run_sorted(c, 'check_indent', random_wide_cases(seed, nwide), 25)
    out.append(c.done())

    c = Clause('implied-attributes', 'B',
               '%d attribute lists with implied attributes `!k` (alone, first, middle, last, two of them around an ordinary '
               'attribute, with a value `!k=v`, next to an attribute without value `[k]`) x 4 id / class forms (none, .c1, #i1, '
               '#i1.c1.k.m-1) x 4 name kinds (p, div, span, implicit) x 5 positions (alone, middle child of ul, depth 2 with children '
               'that carry such lists too, in a group repeated twice, repeated *2 with a subtree + copy); no / one-line / two-line '
               'text rotating; haml, pug, slim; indent rotating over %r' % (N_ATTR_FORMS, INDENTS),
               'complete product as stated', 'a case is (AST, indent string); the attribute list of a line holds the attributes the '
               'element has: an implied attribute without a value is none of them (checked on the HTML output too), and an element '
               'without attributes has no attribute list at all', exhaustive=True)
    run_sorted(c, 'check_indent_attrs', implied_cases(), 60)
    out.append(c.done())

    c = Clause('self-closing-parents', 'B',
               '5 kinds of self-closing element (name/, div/, implicit ./, br|hr, br/|hr/) x 13 decorations (bare, class, id, '
               'id+classes, attributes, ..., 3 with text of its own) x 8 families of children (one; three; a subtree; implicit ones; '
               'self-closing parents nested 3 deep; repeated *2; a repeated group + hr; self-closing leaves and a deeper hr>b) x 4 '
               'positions (alone, middle child of ul, depth 2 followed by a climb, in a group repeated twice); haml, pug, slim; '
               'indent rotating over %r' % INDENTS,
               'complete product as stated', 'a case is (AST, indent string, strict_heads=True); every element -- also those below a '
               'self-closing element -- has, in document order, a line of its own indented by its depth (loose check: the `/` mark '
               'itself is not constrained)', exhaustive=True)
    run_sorted(c, 'check_indent_loose', closing_parent_cases(), 100)
    out.append(c.done())

    c = Clause('self-closing-parents-skeletons', 'B',
               'operator skeletons in which the elements with children are, in rotation, self-closing (name.../ decorated, br / hr, '
               'implicit .cJ/) or ordinary, and the leaves self-closing, text-only, implicit or ordinary; haml, pug, slim; indent '
               'rotating over %r' % INDENTS,
               ' | '.join('%d elements, <=%d groups, <=%d repeaters (*2): %d rotation(s)' % (s + (v,)) for s, v in closing),
               'a case is (AST, indent string, strict_heads=True)', exhaustive=True)
    run_sorted(c, 'check_indent_loose', closing_skeleton_cases(closing), 200)
    out.append(c.done())

    c = Clause('random-self-closing-implied', 'B',
               'seeded random ASTs of 4..20 elements; every element a random decoration, implied-attribute lists (30 %), self-closing '
               '(name/ 25 %, br / hr 10 %) with or without children, text-only leaves (10 %); 7 indent strings',
               '%d cases, seed %d' % (nclosing, seed), 'a case is (AST, indent string, strict_heads=True)', exhaustive=False)
    run_sorted(c, 'check_indent_loose', random_closing_implied_cases(seed, nclosing), 25)
    out.append(c.done())

    c = Clause('deep-trees', 'B',
               'a spine a>b>c>... of K elements, K in 1..16, 20, 24, 33, 50 (bare names / rotating decorations incl. one-line and '
               'multi-line text / odd depths implicit) x 6 payloads at depth K (one decorated element; between siblings; with a '
               'subtree; in a group *2; repeated *2 with a child + implicit sibling; none) x 4 climbs (none, a sibling after the '
               'spine element at depth 0, K//2, K-1); then every operator skeleton below a spine of 5..12 elements; haml, pug, '
               'slim; indent rotating over %r' % ALL_INDENTS,
               '%d spine lengths x 6 x 3 x 4 | ' % len(SPINE_LENGTHS) + ' | '.join(
                   '%d elements, <=%d groups, <=%d repeaters (*2): %d naming variant(s) below a spine' % (s + (v,)) for s, v in deep),
               'a case is (AST, indent string); the indentation of every line equals the depth of its element at any depth',
               exhaustive=True)
    run_sorted(c, 'check_indent', deep_cases(deep), 60)
    out.append(c.done())

    c = Clause('write-histories', 'B',
               'one abbreviation parsed once (emmet.markup.parse) and written by a sequence of writers: %d histories (the same '
               'indentation-based writer 2-3 times, two / three / four different ones, the HTML writer after / between / around '
               'them) x 5 name kinds x 20 decorations x 3 positions; then operator skeletons with rotating decorations and '
               'history; indent rotating over %r' % (len(HISTORIES), ALL_INDENTS),
               'complete product as stated | ' + ' | '.join(
                   '%d elements, <=%d groups, <=%d repeaters: %d naming variant(s)' % (s + (v,)) for s, v in hist),
               'a case is (AST, indent string, history); every write gives the lines the statement fixes for the abbreviation, '
               'whatever was written from the same parsed abbreviation before; every HTML write has the denoted tree',
               exhaustive=True)
    run_sorted(c, 'check_history', history_cases(hist), 150)
    out.append(c.done())

    c = Clause('random-large', 'B', 'seeded random ASTs of 5..30 elements with random decorations and 7 indent strings',
               '%d cases, seed %d' % (nrand, seed), 'a case is (AST, indent string)', exhaustive=False)
    run_parallel(c, 'bounded.c15', 'check_indent', random_cases(seed, nrand), chunk=25)
    out.append(c.done())
    return out
