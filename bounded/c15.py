"""C15 bounded stand-in: HAML / Pug / Slim output has one line per element, indented by its depth.

A case is an abbreviation AST of c01_gen whose elements carry ids, classes (no spaces), other
attributes and single- or multi-line text.  From the AST's denotation (the tree the abbreviation
denotes, C01) the expected *lines* are written down directly from the statement:
    indent * depth + `name#id.class.class` (`div` left out when an id or class is there; HAML writes
    `%name`) + the syntax's attribute list + ` text` for one-line text;
    every line of a multi-line text on a line of its own at depth + 1; then the children.
The observation is emmet.expand(abbr, {'syntax': haml|pug|slim, 'options': {'output.indent': ...}}).
Independently of the expected lines, the element tree is recovered from the produced lines by their
indentation alone and compared with the tree of the HTML output for the same abbreviation.
"""
import random
import re

from .common import Clause, run_parallel
from . import c01_gen as G

SYNTAXES = ('haml', 'pug', 'slim')
INDENTS = ['\t', '  ', '    ', '--']

# names without a built-in snippet (a snippet would add attributes of its own to the line)
NAMES = ['div', 'ul', 'p', 'em', 'table', 'tr', 'span', 'div', 'ol', 'section', 'b', 'tbody', 'li', 'div',
         'strong', 'td', 'article', 'i', 'header']


# ----------------------------------------------------------------------------- expected lines
def denote_full(items, parent=''):
    """forest of {'name','named','id','cls','attrs','text','children'} denoted by the AST"""
    out = []
    for it in items:
        if it[0] == 'g':
            for _ in range(1 if it[1] is None else it[1]):
                out += denote_full(it[2], parent)
        else:
            _, head, rep, children = it
            if head.get('name') is None and not G.has_attributes(head):
                name = None                     # a text-only node `{...}`: not an element
            else:
                name = head.get('name') or G.implicit_name(parent)
            for _ in range(1 if rep is None else rep):
                out.append({'name': name, 'id': head.get('id'), 'cls': list(head.get('cls', ())),
                            'attrs': [list(a) for a in head.get('attrs', ())], 'text': head.get('text'),
                            'close': bool(head.get('close')) or name in G.VOID, 'children': denote_full(children, name or parent)})
    return out


def element_shape(forest):
    """[name, id, class, children] of the elements only (text-only nodes dropped)"""
    return [[nd['name'], nd['id'], ' '.join(nd['cls']) or None, element_shape(nd['children'])]
            for nd in forest if nd['name'] is not None]


def attribute_list(attrs, syntax):
    if not attrs:
        return ''
    pairs = ['%s="%s"' % (k, v) for k, v in attrs]
    if syntax == 'haml':
        return '(' + ' '.join(pairs) + ')'
    if syntax == 'pug':
        return '(' + ', '.join(pairs) + ')'
    return ' ' + ' '.join(pairs)


def expected_lines(forest, syntax, depth=0):
    """-> list of ('element', depth, text-of-line) / ('text', depth, text line)"""
    out = []
    for nd in forest:
        primary = ('#' + nd['id'] if nd['id'] is not None else '') + ''.join('.' + c for c in nd['cls'])
        if nd['name'] == 'div' and primary:
            head = primary
        else:
            head = ('%' if syntax == 'haml' else '') + nd['name'] + primary
        line = head + attribute_list(nd['attrs'], syntax)
        text_lines = nd['text'].split('\n') if nd['text'] is not None else []
        if len(text_lines) == 1:
            line += ' ' + text_lines[0]
        out.append(('element', depth, line))
        if len(text_lines) > 1:
            for t in text_lines:
                out.append(('text', depth + 1, t))
        out += expected_lines(nd['children'], syntax, depth + 1)
    return out


# ----------------------------------------------------------------------------- reading the output
def split_indent(line, indent):
    d = 0
    while line.startswith(indent):
        line = line[len(indent):]
        d += 1
    return d, line


HEAD_RE = {'haml': re.compile(r'(?:%([\w:-]+))?((?:[#.][\w-]+)*)'),
           'pug': re.compile(r'([\w:-]+)?((?:[#.][\w-]+)*)'),
           'slim': re.compile(r'([\w:-]+)?((?:[#.][\w-]+)*)')}


def is_text_line(body, syntax):
    # (the greedy indentation split may have eaten the padding blanks of an empty HAML text line)
    return body.endswith('|') if syntax == 'haml' else body.startswith('|')


def recover_tree(lines, syntax, indent):
    """element forest [name, id, class, children] from indentation only; -> (forest, error)"""
    root = ['', None, None, []]
    stack = [(-1, root)]
    for ln in lines:
        d, body = split_indent(ln, indent)
        if is_text_line(body, syntax):
            continue
        m = HEAD_RE[syntax].match(body)
        if not m or m.end() == 0 or body[m.end():m.end() + 1] not in ('', ' ', '('):
            return None, 'line %r does not start with a name#id.class head' % ln
        ids = re.findall(r'#([\w-]+)', m.group(2))
        classes = re.findall(r'\.([\w-]+)', m.group(2))
        node = [m.group(1) or 'div', ids[0] if ids else None, ' '.join(classes) or None, []]
        while stack[-1][0] >= d:
            stack.pop()
        if d != stack[-1][0] + 1:
            return None, 'line %r is indented %d levels below its predecessor' % (ln, d - stack[-1][0])
        stack[-1][1][3].append(node)
        stack.append((d, node))
    return root[3], None


def text_line_problem(line, indent, depth, text, syntax, may_continue=False):
    """None, or what is wrong with `line` as the output line of the text line `text` at `depth`;
    may_continue: more may follow the text on the line (text of a following text-only node)"""
    prefix = indent * depth
    if not line.startswith(prefix):
        return '%r does not start with %d x indent (text line %r one level below its element)' % (line, depth, text)
    rest = line[len(prefix):]
    blank_start = syntax == 'haml' and not indent.strip(' \t') and (text.strip(' ') == '' or text[0] in ' \t')
    if not blank_start and rest.startswith(indent):
        return '%r is indented more than %d x indent (text line %r)' % (line, depth, text)
    if may_continue:
        if not rest.lstrip(' |').startswith(text.strip(' ')):
            return 'is %r, expected a line that starts with the text line %r' % (rest, text)
    elif rest.strip(' |') != text.strip(' '):
        return 'is %r, expected the text line %r' % (rest, text)
    return None


def check_indent(ast, indent):
    from emmet import expand
    abbr = G.print_abbr(ast)
    forest = denote_full(ast)
    html = expand(abbr, {'syntax': 'html', 'options': {'output.format': False}})
    html_tree = G.shape(G.parse_markup(html, void_without_slash=True))
    for syntax in SYNTAXES:
        out = expand(abbr, {'syntax': syntax, 'options': {'output.indent': indent}})
        where = 'expand(%r, syntax=%s, output.indent=%r)' % (abbr, syntax, indent)
        lines = out.split('\n')
        exp = expected_lines(forest, syntax)
        for i in range(max(len(lines), len(exp))):
            if i >= len(lines):
                return '%s: line %d missing, expected %r (%s); output %r' % (where, i + 1, exp[i][2], exp[i][0], out)
            if i >= len(exp):
                return '%s: unexpected extra line %d %r; output %r' % (where, i + 1, lines[i], out)
            kind, depth, text = exp[i]
            if kind == 'element':
                d, body = split_indent(lines[i], indent)
                if d != depth:
                    return '%s: line %d %r is indented %d x indent, expected %d (depth of the element); output %r' % (
                        where, i + 1, lines[i], d, depth, out)
                if body.rstrip() != text.rstrip():
                    return '%s: line %d is %r, expected %r; output %r' % (where, i + 1, body, text, out)
            else:
                # statement: "one line per text line one level deeper"; the syntax's text markers
                # (`| ` before, ` |` after with padding) and blanks at the ends of the line are not
                # constrained.  The line must start with depth x indent and not with one indent more --
                # the latter cannot be told (and is not checked) when the indent string is white space and
                # the written line itself starts with white space (HAML writes the text first: empty /
                # blank lines and lines starting with a blank or tab).
                problem = text_line_problem(lines[i], indent, depth, text, syntax)
                if problem:
                    return '%s: line %d %s; output %r' % (where, i + 1, problem, out)
        tree, err = recover_tree(lines, syntax, indent)
        if err:
            return '%s: %s; output %r' % (where, err, out)
        if tree != html_tree:
            return '%s: tree recovered from indentation differs from the tree of the HTML output %r: %s; output %r' % (
                where, html, G.first_difference(html_tree, tree) or 'ids differ', out)
    return None


def check_indent_loose(ast, indent, strict_heads):
    """for trees that also contain text-only nodes `{...}` and self-closing elements `x/`.  The statement
    says nothing about where the text of a text-only node goes nor about a self-closing mark, so only this
    is required: the output lines, read in order, contain for every element -- in document order -- one
    line of its own with indentation == depth that reads `head + attribute list`, then nothing / a space
    and anything (/ the element's own one-line text and anything); self-closing: optionally `/`.  Every
    other line must consist of text that the abbreviation wrote (plus blanks and `|` markers) only.
    With strict_heads False the line of an element only has to *start* with its head (text may run into
    it): that variant checks order, own line and depth only."""
    from emmet import expand
    abbr = G.print_abbr(ast)
    forest = denote_full(ast)
    html = expand(abbr, {'syntax': 'xhtml', 'options': {'output.format': False}})
    html_tree = G.shape(G.parse_markup(html))
    if html_tree != element_shape(forest):
        return 'expand(%r, syntax=xhtml): the HTML reference tree is not the tree the abbreviation denotes (a C01 failure; ' \
               'the comparison of C15 is void): %s; output %r' % (abbr, G.first_difference(element_shape(forest), html_tree), html)
    texts = set()

    def collect(fr):
        for nd in fr:
            if nd['text'] is not None:
                # (stripped: the greedy indentation split may eat blanks / tabs a text line starts with)
                texts.update(t.strip(' \t') for t in nd['text'].split('\n') if t.strip(' \t'))
            collect(nd['children'])
    collect(forest)
    for syntax in SYNTAXES:
        out = expand(abbr, {'syntax': syntax, 'options': {'output.indent': indent}})
        where = 'expand(%r, syntax=%s, output.indent=%r)' % (abbr, syntax, indent)
        elements = []

        def flat(fr, depth):
            for nd in fr:
                if nd['name'] is not None:
                    primary = ('#' + nd['id'] if nd['id'] is not None else '') + ''.join('.' + c for c in nd['cls'])
                    head = primary if nd['name'] == 'div' and primary else ('%' if syntax == 'haml' else '') + nd['name'] + primary
                    head += attribute_list(nd['attrs'], syntax)
                    own = nd['text'].split('\n') if nd['text'] is not None else []
                    elements.append((depth, head, own[0] if len(own) == 1 else None, nd['close'], own if len(own) > 1 else []))
                    flat(nd['children'], depth + 1)
                else:
                    flat(nd['children'], depth)
        flat(forest, 0)
        k = 0
        pending = []        # text lines of the element just matched: they must follow it directly
        for i, ln in enumerate(out.split('\n')):
            if pending:
                pdepth, ptext = pending.pop(0)
                problem = text_line_problem(ln, indent, pdepth, ptext, syntax, may_continue=True)
                if problem:
                    return '%s: line %d %s; output %r' % (where, i + 1, problem, out)
                continue
            d, body = split_indent(ln, indent)
            if k < len(elements):
                depth, head, text, close, own_lines = elements[k]
                ok = False
                if not strict_heads:
                    ok = body.startswith(head)
                elif text is not None:
                    ok = body.startswith(head + ' ' + text)
                else:
                    rest = body[len(head):] if body.startswith(head) else None
                    # the head must end where the expected head ends: end of line, a blank, or -- for a
                    # self-closing element -- the `/` mark (what follows the mark is not constrained)
                    ok = rest is not None and (rest == '' or rest[0] == ' ' or (close and rest[0] == '/'))
                if ok:
                    if d != depth:
                        return '%s: line %d %r is indented %d x indent, expected %d (depth of the element); output %r' % (
                            where, i + 1, ln, d, depth, out)
                    k += 1
                    pending = [(depth + 1, t) for t in own_lines]
                    continue
            left = body
            for t in sorted(texts, key=len, reverse=True):
                left = left.replace(t, '')
            if left.strip(' \t|'):
                nxt = ('; the next element awaited is %r at depth %d' % (elements[k][1], elements[k][0])) if k < len(elements) else ''
                return '%s: line %d %r is neither the line of the next element nor made of text of the abbreviation%s; output %r' % (
                    where, i + 1, ln, nxt, out)
        if pending:
            return '%s: the text line %r of the last element has no line; output %r' % (where, pending[0][1], out)
        if k < len(elements):
            return '%s: no line of its own for element %r (depth %d); output %r' % (where, elements[k][1], elements[k][0], out)
    return None


# ----------------------------------------------------------------------------- generators
def decoration(k, j):
    """k-th way to decorate element j: -> head fields"""
    k %= N_DECORATIONS
    return [
        {},
        {'cls': ['c%d' % j]},
        {'id': 'i%d' % j},
        {'id': 'i%d' % j, 'cls': ['c%d' % j, 'k', 'm-%d' % j]},
        {'attrs': [['title', 't%d' % j]]},
        {'cls': ['c%d' % j], 'attrs': [['title', 't%d' % j], ['data-n', 'v%d' % j]]},
        {'text': 'T%d' % j},
        {'text': 'La%d\nLb%d' % (j, j)},
        {'cls': ['c%d' % j], 'text': 'La%d\nLonger b%d\nLc' % (j, j)},
        {'id': 'i%d' % j, 'attrs': [['title', 't%d' % j]], 'text': 'T%d w' % j},
        # multi-line texts with empty / blank lines.  Every line is a text line and must get a line of its
        # own: an empty line inside or at the start, several in a row, a line of blanks, a last line of
        # blanks, lines starting with a blank / tab.  (A text *ending* in a line break is not generated:
        # whether that starts one more, empty, text line is not fixed by the statement.)
        {'text': 'La%d\n\nLb%d' % (j, j)},
        {'cls': ['c%d' % j], 'text': '\nLa%d\nLb%d' % (j, j)},
        {'text': 'La%d\n  \nLb%d\n\n\nLc' % (j, j)},
        {'id': 'i%d' % j, 'text': ' La%d\n\n\tLb%d\n ' % (j, j)},
        # ordinary attributes whose names resemble / are fragments of `class` and `id`: only the attributes
        # called exactly `id` and `class` belong to the head, all others to the attribute list, in order --
        # alone, next to a real id / class, and with text
        {'attrs': [['a', 'b%d' % j]]},
        {'cls': ['c%d' % j], 'attrs': [['as', 'x%d' % j], ['idx', 'y%d' % j]]},
        {'id': 'i%d' % j, 'cls': ['c%d' % j], 'attrs': [['s', 'v%d' % j], ['i', 'w%d' % j], ['d', 'z%d' % j]]},
        {'attrs': [['classes', 'k%d' % j], ['cl', 'm%d' % j], ['c', 'n%d' % j], ['l', 'o%d' % j], ['ss', 'p%d' % j], ['la', 'q%d' % j]]},
        {'id': 'i%d' % j, 'attrs': [['ids', 'u%d' % j], ['klass', 'r%d' % j], ['si', 's%d' % j]], 'text': 'T%d' % j},
        {'attrs': [['i', 'w%d' % j]], 'text': 'La%d\nLb%d' % (j, j)},
    ][k]


N_DECORATIONS = 20


def decorate(skel, reps, variant, offset):
    """element j (document order): name NAMES[(j + offset) % len] or implicit (variant 1: odd j, 2: even j,
    3: all), decoration number (3 * j + offset); an implicit element always gets an id or class"""
    counter = [0, 0]

    def items(sk):
        out = []
        for kind, ch in sk:
            idx = counter[0]
            counter[0] += 1
            rep = reps.get(idx)
            if kind == 'g':
                out.append(['g', rep, items(ch)])
                continue
            j = counter[1]
            counter[1] += 1
            head = dict(decoration(3 * j + offset, j))
            implicit = (variant == 1 and j % 2 == 1) or (variant == 2 and j % 2 == 0) or variant == 3
            if not implicit:
                head['name'] = NAMES[(j + offset) % len(NAMES)]
            elif not G.has_attributes(head):
                head['cls'] = ['c%d' % j]
            out.append(['e', head, rep, items(ch)])
        return out
    return items(skel)


def skeleton_cases(plan):
    idx = 0
    for (n, gmax, rmax), nvar in plan:
        for g in range(0, gmax + 1):
            for skel in G.skeletons(n, g):
                m = G.count_nodes(skel)
                for reps in G.rep_assignments(m, rmax, (2, 3)):
                    for v in range(nvar):
                        idx += 1
                        yield (decorate(skel, reps, (idx + v) % 4, idx), INDENTS[idx % len(INDENTS)])


def head_cases():
    """every name kind x every decoration x position in a small tree x every indent"""
    E = G.E
    for name in ['div', 'p', 'ul', 'span', None]:
        for k in range(N_DECORATIONS):
            head = dict(decoration(k, 1))
            if name is None and not G.has_attributes(head):
                continue
            if name:
                head['name'] = name
            x = ['e', head, None, []]
            x2 = ['e', dict(head), 2, [E('em')]]
            xt = ['e', dict(head), None, [E('b', text='B'), E('i')]]
            for ast in ([x], [E('section', [x])], [E('ul', [E('li'), x, E('li')])], [E('p', [E('b', [x])]), E('div')],
                        [x2], [E('table', [x2, E('tr')])], [xt, x], [E('div', [E('div', [xt]), E('p')])],
                        [G.G([x, E('p')], 2)], [E('ol', [G.G([x], 3)])]):
                for indent in INDENTS:
                    yield (ast, indent)


def decorate_loose(skel, reps, offset):
    """like decorate(); additionally leaves become, in rotation, text-only nodes `{Tx}` / `{Lx\nLy}` and
    self-closing elements `name/`, `br`, `hr` (built-in self-closing snippets without attributes)"""
    counter = [0, 0]

    def items(sk):
        out = []
        for kind, ch in sk:
            idx = counter[0]
            counter[0] += 1
            rep = reps.get(idx)
            if kind == 'g':
                out.append(['g', rep, items(ch)])
                continue
            j = counter[1]
            counter[1] += 1
            sel = (2 * j + offset) % 7
            if not ch and sel == 0:
                head = {'text': 'Tx%d' % j}
            elif not ch and sel == 1:
                head = {'text': 'Lx%d\nLy%d' % (j, j)}
            elif not ch and sel == 2:
                head = dict(decoration(offset + j, j), name=NAMES[(j + offset) % len(NAMES)], close=True)
                head.pop('text', None)
            elif not ch and sel == 3:
                head = {'name': ('br', 'hr')[(j + offset) % 2]}
            else:
                head = dict(decoration(3 * j + offset, j), name=NAMES[(j + offset) % len(NAMES)])
            out.append(['e', head, rep, items(ch)])
        return out
    return items(skel)


def loose_cases(plan, strict):
    idx = 0
    for (n, gmax, rmax), nvar in plan:
        for g in range(0, gmax + 1):
            for skel in G.skeletons(n, g):
                m = G.count_nodes(skel)
                for reps in G.rep_assignments(m, rmax, (2,)):
                    for v in range(nvar):
                        idx += 1
                        yield (decorate_loose(skel, reps, idx), INDENTS[idx % len(INDENTS)], strict)


def random_cases(seed, count):
    rng = random.Random(seed)
    for _ in range(count):
        ast = G.random_ast(rng, rng.randint(5, 30), names=NAMES, implicit_p=0.0, id_p=0.0)
        j = [0]

        def deco(items):
            for it in items:
                if it[0] == 'g':
                    deco(it[2])
                    continue
                j[0] += 1
                head = dict(decoration(rng.randrange(N_DECORATIONS), j[0]))
                if rng.random() < 0.7:
                    head['name'] = rng.choice(NAMES)
                elif not G.has_attributes(head):
                    head['id'] = 'i%d' % j[0]
                it[1] = head
                deco(it[3])
        deco(ast)
        yield (ast, rng.choice(INDENTS + [' ', '\t\t', '   ']))


def run(tier, seed):
    if tier == 'quick':
        plan = [((1, 2, 2), 4), ((2, 2, 2), 4), ((3, 2, 2), 2), ((4, 2, 1), 1), ((5, 1, 1), 1)]
        loose = [((1, 1, 1), 7), ((2, 1, 1), 7), ((3, 1, 1), 7), ((4, 1, 1), 2), ((5, 0, 1), 1)]
        nrand = 800
    else:
        plan = [((1, 2, 2), 4), ((2, 2, 2), 4), ((3, 2, 2), 4), ((4, 2, 2), 2), ((5, 2, 2), 1), ((6, 1, 1), 1)]
        loose = [((1, 2, 2), 7), ((2, 2, 2), 7), ((3, 2, 2), 7), ((4, 2, 2), 7), ((5, 1, 1), 2), ((6, 0, 1), 1)]
        nrand = 30000
    out = []
    c = Clause('lines-skeleton-exhaustive', 'B',
               'every operator skeleton of the C01 generator (groups, ^ climbs, *2/*3), elements decorated with id / classes / '
               'attributes / one-line / multi-line text in rotation, named or implicit; haml, pug and slim; indent rotating over %r' % INDENTS,
               ' | '.join('%d elements, <=%d groups, <=%d repeaters: %d naming variant(s)' % (s + (v,)) for s, v in plan),
               'a case is (AST, indent string); the three syntaxes and the HTML reference are evaluated inside', exhaustive=True)
    run_parallel(c, 'bounded.c15', 'check_indent', skeleton_cases(plan), chunk=300)
    out.append(c.done())

    c = Clause('head-forms', 'B',
               '5 name kinds (div, p, ul, span, implicit) x 20 decorations (bare, class, id, id+3 classes, attribute, class+attributes, text, '
               '2-line text, class+3-line text, id+attribute+text, 4 multi-line texts with empty / blank / blank-started lines, 6 with '
               'attributes named like fragments / relatives of class and id: a as idx s i d classes cl c l ss la ids klass si) x 10 positions in a small tree x 4 indent strings',
               'complete product as stated', 'a case is (AST, indent string)', exhaustive=True)
    run_parallel(c, 'bounded.c15', 'check_indent', head_cases(), chunk=100)
    out.append(c.done())

    for name, strict, what in (
            ('text-only-self-closing-levels', False,
             'every element has, in document order, a line of its own that starts with its head and is indented by its depth '
             '(no level leak after text-only / self-closing nodes); other lines consist of text of the abbreviation'),
            ('text-only-self-closing-heads', True,
             'as the -levels clause, and the head of every element line ends where name#id.class + attribute list end '
             '(end of line, blank, or the self-closing mark): text of a text-only node must not run into a head')):
        c = Clause(name, 'B',
                   'operator skeletons whose leaves are, in rotation, text-only nodes {T} / {L1\\nL2}, self-closing elements name/ , br, hr '
                   'and ordinary decorated elements; haml, pug, slim; indent rotating over %r' % INDENTS,
                   ' | '.join('%d elements, <=%d groups, <=%d repeaters (*2): %d rotation(s)' % (s + (v,)) for s, v in loose),
                   'a case is (AST, indent string, strict_heads); ' + what, exhaustive=True)
        # keep the reported violations deterministic (the pool delivers them in arrival order and the
        # default cap is 50): collect all, sort by input, report the first 250
        found = []
        c.violation = lambda key, what, func, args: found.append({'key': key, 'what': what, 'replay': {'func': func, 'args': args}})
        run_parallel(c, 'bounded.c15', 'check_indent_loose', loose_cases(loose, strict), chunk=300)
        del c.violation
        found.sort(key=lambda v: v['key'])
        c.violations = found[:250]
        out.append(c.done())

    c = Clause('random-large', 'B', 'seeded random ASTs of 5..30 elements with random decorations and 7 indent strings',
               '%d cases, seed %d' % (nrand, seed), 'a case is (AST, indent string)', exhaustive=False)
    run_parallel(c, 'bounded.c15', 'check_indent', random_cases(seed, nrand), chunk=25)
    out.append(c.done())
    return out
