"""C16 bounded stand-in / cross-check: exhaustive small strings, all positions (also out of range).

The deductive layer proves the range/ totality clauses function by function; this run (a) is the
stand-in for the relational HTML clause (match == outward[0], nesting of outward / inward entries)
and for the functions not yet under contract, (b) cross-checks the proved clauses on the real code.
"""
import itertools

from .common import Clause, run_parallel
from . import c16_gen

HTML_ALPHA = '<>/a "=!-?s['
CSS_ALPHA = 'a{}:;"\\ (/*'


def _wf(r, n):
    return isinstance(r, (tuple, list)) and len(r) >= 2 and isinstance(r[0], int) and isinstance(r[1], int) \
        and 0 <= r[0] <= r[1] <= n


def check_html(src):
    return _check_html(src, None, (None, {'xml': True}))


def check_html_special(src, special):
    """same oracle as check_html, with the `special` option dimension: `special` (JSON: None or a dict
    tag name -> None | list of `type` values) is handed to scan() directly and to the three matchers
    through the options ({'special': ...}, html and xml mode); None = scan() without special elements and
    the matchers with their default options"""
    if special is None:
        return _check_html(src, None, (None, {'xml': True}))
    return _check_html(src, special, ({'special': special}, {'special': special, 'xml': True}))


def _check_html(src, special, opts):
    from emmet.html_matcher import match, balanced_outward, balanced_inward
    from emmet.html_matcher.scan import scan
    from emmet.html_matcher.attributes import attributes
    from emmet.html_matcher.utils import ElementType
    n = len(src)
    tags = []
    scan(src, lambda name, t, s, e: tags.append((name, t, s, e)), special)
    last = 0
    for name, t, s, e in tags:
        if not (0 <= s <= e <= n):
            return 'scan reported ill-formed range %r' % ((name, t, s, e),)
        if s < last:
            return 'scan reported overlapping / decreasing tag %r after end %d' % ((name, t, s, e), last)
        last = e
        if src[s] != '<' or src[e - 1] != '>':
            return 'tag range %r does not start with < and end with >' % ((name, t, s, e),)
        k = 2 if t == ElementType.Close else 1
        if src[s + k:s + k + len(name)] != name or not name:
            return 'tag range %r does not carry its name after the bracket' % ((name, t, s, e),)
    for a in attributes(src):
        if not (0 <= a.name_start <= a.name_end <= n) or src[a.name_start:a.name_end] != a.name:
            return 'attributes(): bad name range %r' % (a.to_json(),)
        if a.value is not None:
            if not (0 <= a.value_start <= a.value_end <= n) or src[a.value_start:a.value_end] != a.value:
                return 'attributes(): bad value range %r' % (a.to_json(),)
    for opt in opts:
        for pos in range(-1, n + 2):
            m = match(src, pos, opt)
            out = balanced_outward(src, pos, opt)
            inw = balanced_inward(src, pos, opt)
            for lst, what in ((out, 'balanced_outward'), (inw, 'balanced_inward')):
                for t in lst:
                    if not _wf(t.open, n) or (t.close is not None and not _wf(t.close, n)):
                        return '%s(%r, %d) ill-formed range %r' % (what, src, pos, t.to_json())
                    if t.close is not None and t.close[0] < t.open[1]:
                        return '%s(%r, %d) close before open %r' % (what, src, pos, t.to_json())
            if m is None:
                if out:
                    return 'match is None but balanced_outward(%r, %d)[0] = %r' % (src, pos, out[0].to_json())
            else:
                if not _wf(m.open, n) or (m.close is not None and not _wf(m.close, n)):
                    return 'match(%r, %d) ill-formed range' % (src, pos)
                if not out:
                    return 'match(%r, %d) found %r but balanced_outward is empty' % (src, pos, (m.name, m.open, m.close))
                o = out[0]
                if (m.name, tuple(m.open), m.close and tuple(m.close)) != (o.name, tuple(o.open), o.close and tuple(o.close)):
                    return 'match(%r, %d) = %r differs from balanced_outward[0] = %r' % (
                        src, pos, (m.name, m.open, m.close), o.to_json())
                for a in m.attributes:
                    if not (0 <= a.name_start <= a.name_end <= n):
                        return 'match(%r, %d): attribute range ill-formed' % (src, pos)
                    if a.value is not None and not (0 <= a.value_start <= a.value_end <= n):
                        return 'match(%r, %d): attribute value range ill-formed' % (src, pos)
            prev = None
            for t in out:
                s, e = t.open[0], (t.close or t.open)[1]
                if not (s < pos < e):
                    return 'balanced_outward(%r, %d): entry %r does not strictly contain the position' % (src, pos, t.to_json())
                if prev is not None:
                    ps, pe = prev
                    if not (s <= ps and pe <= e and (s, e) != (ps, pe)):
                        return 'balanced_outward(%r, %d): entry %r does not strictly contain the previous one' % (src, pos, t.to_json())
                prev = (s, e)
            prev = None
            for t in inw:
                s, e = t.open[0], (t.close or t.open)[1]
                if prev is not None:
                    ps, pe = prev
                    if not (ps <= s and e <= pe):
                        return 'balanced_inward(%r, %d): entry %r does not lie inside the previous one' % (src, pos, t.to_json())
                prev = (s, e)
    return None


def check_css(src):
    from emmet.css_matcher import match, balanced_outward, balanced_inward
    from emmet.css_matcher.scan import scan
    from emmet.css_matcher.parse import split_value
    n = len(src)
    toks = []
    scan(src, lambda *a: toks.append(a))
    for t, s, e, d in toks:
        if not (0 <= s <= e <= n):
            return 'css scan(%r) reported ill-formed range %r' % (src, (t, s, e, d))
        if not (d == -1 or 0 <= d < n):
            return 'css scan(%r) reported delimiter out of range %r' % (src, (t, s, e, d))
    for off in (0, 3):
        for r in split_value(src, off):
            if not (off <= r[0] <= r[1] <= off + n):
                return 'split_value(%r, %d) ill-formed range %r' % (src, off, r)
    for pos in range(-1, n + 2):
        m = match(src, pos)
        if m is not None:
            if not (0 <= m.start <= m.end <= n) or not (0 <= m.body_start <= m.body_end <= n):
                return 'css match(%r, %d) ill-formed %r' % (src, pos, m.to_json())
        for f in (balanced_outward, balanced_inward):
            for r in f(src, pos):
                if not _wf(r, n):
                    return 'css %s(%r, %d) ill-formed range %r' % (f.__name__, src, pos, tuple(r))
    return None


def strings(alpha, maxlen):
    for n in range(0, maxlen + 1):
        for t in itertools.product(alpha, repeat=n):
            yield (''.join(t),)


HTML_TOKENS = ['<a>', '</a>', '<b>', '</b>', '<br>', '<a/>', 'x', '<!--<b>-->', ' ']
CSS_TOKENS = ['a{', '}', 'b:c;', 'd', ' ', '/*}*/', ':', '(', ';']


def token_docs(tokens, maxn):
    for n in range(1, maxn + 1):
        for t in itertools.product(tokens, repeat=n):
            yield (''.join(t),)


def run(tier, seed):
    hl, cl = (4, 4) if tier == "quick" else (5, 6)
    c1 = Clause('html-exhaustive', 'B', 'all strings over %r' % HTML_ALPHA, 'length <= %d, positions -1..len+1, html and xml mode' % hl,
                'a case is one source string (all positions, both modes checked inside); distinct by string', exhaustive=True)
    run_parallel(c1, 'bounded.c16', 'check_html', strings(HTML_ALPHA, hl), chunk=1500)
    c1.done()
    c2 = Clause('css-exhaustive', 'B', 'all strings over %r' % CSS_ALPHA, 'length <= %d, positions -1..len+1' % cl,
                'a case is one source string (all positions checked inside); distinct by string', exhaustive=True)
    run_parallel(c2, 'bounded.c16', 'check_css', strings(CSS_ALPHA, cl), chunk=1500)
    c2.done()
    # longer, structured documents: several top-level elements / rules, nesting, comments (the relational
    # HTML clause needs documents such as <a></a><a></a>, far beyond the character-exhaustive bound)
    tn = 5 if tier == 'quick' else 6
    c3 = Clause('html-token-sequences', 'B', 'all concatenations of the tokens %r' % (HTML_TOKENS,),
                'up to %d tokens, positions -1..len+1, html and xml mode' % tn,
                'a case is one document (all positions, both modes checked inside); distinct by document', exhaustive=True)
    run_parallel(c3, 'bounded.c16', 'check_html', token_docs(HTML_TOKENS, tn), chunk=400)
    c3.done()
    c4 = Clause('css-token-sequences', 'B', 'all concatenations of the tokens %r' % (CSS_TOKENS,),
                'up to %d tokens, positions -1..len+1' % tn,
                'a case is one stylesheet (all positions checked inside); distinct by document', exhaustive=True)
    run_parallel(c4, 'bounded.c16', 'check_css', token_docs(CSS_TOKENS, tn), chunk=800)
    c4.done()
    # opening tags with attributes whose values are themselves markup, on special (style / script / user
    # `special` option), ordinary and empty elements; the `special` table is a dimension of the case and is
    # handed to scan() directly as well as to the matchers (see c16_gen.py)
    c5 = Clause('html-special-attributed', 'B',
                'prefix + <name [type] attr=markup> + body + closing tag + suffix; kind of element x attribute form x '
                'markup value x body x closing tag (present / missing / mismatched), each with its special table',
                '%s, one of 9 (prefix, suffix) contexts per case in rotation, coinciding documents once; '
                'positions -1..len+1, html and xml mode' % (
                    '7 kinds x 4 attribute forms x 7 values x 3 bodies x 3 closings' if tier == 'quick'
                    else '11 kinds x 7 attribute forms x 14 values x 6 bodies x 3 closings'),
                'a case is one (document, special table) pair (scan with that table, all positions, both modes inside); '
                'distinct by pair', exhaustive=True)
    run_parallel(c5, 'bounded.c16', 'check_html_special', c16_gen.special_docs(tier), chunk=40)
    c5.done()
    rn = 300 if tier == 'quick' else 6000
    c6 = Clause('html-random-attributed-mutated', 'B',
                'seeded random documents of 1-3 elements with attributes holding markup (nested), 0-2 one-character '
                'mutations, random special table',
                '%d documents of length <= 64, seed %d; positions -1..len+1, html and xml mode' % (rn, seed),
                'a case is one (document, special table) pair; distinct by pair', exhaustive=False)
    run_parallel(c6, 'bounded.c16', 'check_html_special', c16_gen.random_docs(seed, rn), chunk=20)
    c6.done()
    return [c1, c2, c3, c4, c5, c6]
