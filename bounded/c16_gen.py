"""Generators for the C16 clauses on *attributed* tags and *special* elements.

The character-exhaustive and token-sequence clauses of c16.py never produce an opening tag with an
attribute value, and never reach the part of the HTML scanner that skips the contents of "special"
elements (style / script / user-supplied `special` option) when scan() is called directly.  The
documents built here have

  * one element whose opening tag carries an attribute whose value (quoted, or a {..} / [..] expression,
    or an expression in the place of the attribute name) is a piece of *markup*: a closing or opening tag
    (of the element itself or of another one), a lone `>` or `/>`, a comment opener, plain text;
  * every kind of element: always-special (style), special depending on its `type` (script with / without
    a JavaScript type, script with a template type = not special), special by a user-supplied option,
    ordinary (b) and empty (br);
  * a body (empty, text, an unclosed tag, ...) and a closing tag that is present, missing or mismatched;
  * a context before / after (nothing, an enclosing element, a sibling).

Nothing about the expected outcome is generated: the oracle is c16.check_html_special, i.e. the
universally quantified sentences of the property (well-formed ranges, `<`..`>`, name after the bracket,
increasing non-overlapping order, match == outward[0], nesting of outward / inward entries).
"""
import random

# the documented default of the `special` option, written out (scan() takes the table itself)
DEFAULT_SPECIAL = {'style': None,
                   'script': ['', 'text/javascript', 'application/x-javascript', 'javascript', 'typescript',
                              'ts', 'coffee', 'coffeescript']}

# (tag name, fixed `type` attribute or '', special table in force)
KINDS_QUICK = [
    ('style', '', DEFAULT_SPECIAL),
    ('script', '', DEFAULT_SPECIAL),
    ('script', ' type="text/javascript"', DEFAULT_SPECIAL),
    ('script', ' type="text/x-tpl"', DEFAULT_SPECIAL),      # not special: contents are markup
    ('a', '', {'a': None}),                                   # special by user-supplied option
    ('b', '', DEFAULT_SPECIAL),                               # ordinary element
    ('br', '', DEFAULT_SPECIAL),                              # empty element (html mode), ordinary in xml mode
]
KINDS_MORE = [
    ('a', ' type="x"', {'a': ['x'], 'style': None}),
    ('a', ' type="y"', {'a': ['x'], 'style': None}),
    ('style', " type='text/css'", None),                      # scan() without special, matchers with defaults
    ('script', '', None),
]

# how the markup value is attached to the opening tag; %s = the value
WRAPS_QUICK = [' t="%s"', " t='%s'", ' t={%s}', ' {%s}']
WRAPS_MORE = [' t=[%s]', ' [%s]="v"', ' t = "%s" u']

# the markup values; N = the name of the element itself
VALUES_QUICK = ['</N>', '<N>', '</b>', '<b>', '>', '/>', '<!--']
VALUES_MORE = ['x', '', '</N></N>', '-->', '<N/>', '</ N>', '<?']

BODIES_QUICK = ['', 'a{}', '<b>']
BODIES_MORE = ['<!--', 'x</b>', '"</N>"']

CLOSES = ['</N>', '', '</b>']

PREFIXES = ['', '<p>', '<b>x</b>']
SUFFIXES = ['', '</p>', '<i>x</i>']


def special_docs(tier):
    """yields (document, special table); exhaustive product of kind x wrap x value x body x closing tag,
    the context (prefix, suffix; 1 of the 9 per case) and the side of the fixed
    `type` attribute rotate with the case number; coinciding documents are yielded once"""
    kinds = KINDS_QUICK + (KINDS_MORE if tier != 'quick' else [])
    wraps = WRAPS_QUICK + (WRAPS_MORE if tier != 'quick' else [])
    values = VALUES_QUICK + (VALUES_MORE if tier != 'quick' else [])
    bodies = BODIES_QUICK + (BODIES_MORE if tier != 'quick' else [])
    i = 0
    seen = set()
    for name, typ, special in kinds:
        for w in wraps:
            for v in values:
                for b in bodies:
                    for c in CLOSES:
                        attr = w % v.replace('N', name)
                        attrs = (typ + attr) if i % 2 == 0 else (attr + typ)
                        ctxs = [(i // 2) % 9]
                        for k in ctxs:
                            doc = (PREFIXES[k % 3] + '<' + name + attrs + '>' + b.replace('N', name)
                                   + c.replace('N', name) + SUFFIXES[k // 3])
                            key = (doc, id(special))
                            if key not in seen:     # e.g. kind b: the values </N> and </b> coincide
                                seen.add(key)
                                yield (doc, special)
                        i += 1


# ---- seeded random documents with attributes, then mutated ------------------------------------------

R_NAMES = ['style', 'script', 'a', 'b', 'p', 'br']
R_SPECIALS = [None, DEFAULT_SPECIAL, DEFAULT_SPECIAL, {'a': None}, {'p': ['x'], 'b': None, 'style': None}]
R_TYPES = ['', 'x', 'text/javascript', 'text/x-tpl']
R_TEXT = ['', 'x', 'a{}', ' ', 'if (a<b) {}', 'a > b']
MUT_ALPHA = '<>/a "=!-?s[\'{}'


def _fragment(r, depth=0):
    k = r.randrange(8)
    n = r.choice(R_NAMES)
    if k == 0:
        return '</%s>' % n
    if k == 1:
        return '<%s>' % n
    if k == 2:
        return r.choice(['>', '/>', '<', '</', '<!--', '-->', '<![CDATA[', ']]>', '<?', '?>'])
    if k == 3 and depth < 1:
        return _element(r, depth + 1)
    if k == 4:
        return _fragment(r, depth + 1) + _fragment(r, depth + 1)
    return r.choice(R_TEXT)


def _attr(r, depth):
    v = _fragment(r, depth)
    k = r.randrange(7)
    if k == 0 and '"' not in v:
        return ' t="%s"' % v
    if k == 1 and "'" not in v:
        return " u='%s'" % v
    if k == 2:
        return ' v={%s}' % v
    if k == 3:
        return ' {%s}' % v
    if k == 4:
        return ' w=[%s]' % v
    if k == 5:
        return ' type="%s"' % r.choice(R_TYPES)
    return ' c'


def _element(r, depth=0):
    n = r.choice(R_NAMES)
    attrs = ''.join(_attr(r, depth + 1) for _ in range(r.choice([0, 1, 1, 1, 2])))
    k = r.randrange(10)
    if k == 0:
        return '<%s%s/>' % (n, attrs)
    body = ''.join(_fragment(r, depth) for _ in range(r.randrange(3)))
    close = '</%s>' % n if k < 8 else ('' if k == 8 else '</%s>' % r.choice(R_NAMES))
    return '<%s%s>%s%s' % (n, attrs, body, close)


def random_docs(seed, count, maxlen=64):
    """yields (document, special table): 1-3 random elements (nested through bodies / attribute values),
    then 0-2 single-character mutations (delete / insert / replace)"""
    r = random.Random(seed * 7919 + 16)
    made = 0
    while made < count:
        doc = ''.join(_element(r) for _ in range(r.choice([1, 1, 2, 3])))
        for _ in range(r.choice([0, 0, 1, 2])):
            if not doc:
                break
            p = r.randrange(len(doc) + 1)
            m = r.randrange(3)
            if m == 0:
                doc = doc[:p] + doc[p + 1:]
            elif m == 1:
                doc = doc[:p] + r.choice(MUT_ALPHA) + doc[p:]
            else:
                doc = doc[:p] + r.choice(MUT_ALPHA) + doc[p + 1:]
        if len(doc) > maxlen:
            continue
        made += 1
        yield (doc, r.choice(R_SPECIALS))
