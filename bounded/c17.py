"""C17 bounded stand-in: action_utils (get_open_tag, select_item_html, get_css_section, select_item_css)
against the ground truth recorded by the C09 / C10 document generators (bounded/c09_gen.py, c10_gen.py).

Every position 0..len(doc) of every generated document is checked against the generator's record of tags,
attribute names / values, class tokens, rules, declarations and value tokens -- never against the code.
Where the statement does not say which of two items is meant (a position strictly inside a tag / selector /
declaration for "next" and "previous", a position exactly on a rule boundary for "containing"), both are
accepted, but the returned model must be exact for the item it denotes.
"""
import json

from .common import Clause, run_parallel
from . import c09_gen as H
from . import c10_gen as S
from .c09 import check_attributes
from . import c17_gen as L


PROBE_SEED = 424242      # the probe family does not depend on the run seed or the tier: its violation keys are stable
PROBE_COUNT = 30
PROBE_SIZE = 10


# ------------------------------------------------------------------------------------------------
# HTML

def _tag_ranges(t):
    """tag name, each attribute, its unquoted value, each class token (non-empty ranges, as a set)"""
    out = {(t['start'] + 1, t['start'] + 1 + len(t['name']))}
    for a in t['attrs']:
        if a['raw'] is None:
            out.add(tuple(a['name_range']))
        else:
            out.add((a['name_range'][0], a['value'][1]))
            out.add(tuple(a['inner']))
            if a['name'] == 'class':
                out.update(tuple(x) for x in a['tokens'])
    return {r for r in out if r[0] != r[1]}


def _check_tag_model(doc, call, model, allowed):
    """allowed: list of tag records / None (None: no tag -> the model must be None)"""
    if model is None:
        if None in allowed:
            return None
        return '%s = None, expected the tag %s' % (call, ' or '.join('%r [%d:%d]' % (doc[t['start']:t['end']], t['start'], t['end']) for t in allowed if t))
    for t in allowed:
        if t is not None and (model.start, model.end) == (t['start'], t['end']):
            got = {tuple(r) for r in model.ranges}
            exp = _tag_ranges(t)
            if got != exp:
                return '%s: tag %r [%d:%d] ranges %r, expected name / attribute / unquoted value / class token ranges %r (unexpected %r, missing %r)' % (
                    call, doc[t['start']:t['end']], t['start'], t['end'], sorted(got), sorted(exp), sorted(got - exp), sorted(exp - got))
            for r in model.ranges:
                if not (t['start'] <= r[0] <= r[1] <= t['end']):
                    return '%s: range %r is not inside the tag [%d:%d]' % (call, tuple(r), t['start'], t['end'])
            return None
    return '%s = [%d:%d] %r, expected %s' % (call, model.start, model.end, model.ranges, ' or '.join(
        'None' if t is None else 'the tag %r [%d:%d]' % (doc[t['start']:t['end']], t['start'], t['end']) for t in allowed))


def check_html_doc(d):
    from emmet.action_utils import get_open_tag, select_item_html
    doc = d.doc
    n = len(doc)
    tags = d.tags
    opens = [t for t in tags if t['type'] != 'close']
    inside = [None] * (n + 1)          # tag (any type) strictly containing the position
    for t in tags:
        for p in range(t['start'] + 1, t['end']):
            inside[p] = t
    for pos in range(0, n + 1):
        t = inside[pos]
        r = get_open_tag(doc, pos)
        call = 'get_open_tag(%r, %d)' % (doc, pos)
        if t is None:
            if r is not None:
                return '%s = %r but no tag strictly contains the position' % (call, r.to_json())
        elif t['type'] != 'close':
            if r is None:
                return '%s = None, expected the tag %r [%d:%d]' % (call, doc[t['start']:t['end']], t['start'], t['end'])
            exp_type = 3 if t['type'] == 'self' else 1
            if (r.name, r.start, r.end, r.type) != (t['name'], t['start'], t['end'], exp_type):
                return '%s = %r, expected name %r, range [%d:%d], type %d' % (call, r.to_json(), t['name'], t['start'], t['end'], exp_type)
            bad = check_attributes(doc, r.attributes or [], t['attrs'], call)
            if bad:
                return bad
        # (a position inside a close tag: the statement speaks of open and self-closing tags only; not checked)
        tin = t if t is not None and t['type'] != 'close' else None
        nxt = None
        for o in opens:
            if o['start'] >= pos:
                nxt = o
                break
        prv = None
        for o in opens:
            if o['end'] <= pos:
                prv = o
            else:
                break
        bad = _check_tag_model(doc, 'select_item_html(%r, %d) [next]' % (doc, pos), select_item_html(doc, pos),
                               [nxt] + ([tin] if tin else []))
        if bad:
            return bad
        bad = _check_tag_model(doc, 'select_item_html(%r, %d, True) [previous]' % (doc, pos), select_item_html(doc, pos, True),
                               [prv] + ([tin] if tin else []))
        if bad:
            return bad
    return None


def check_html_random(seed, index, max_nodes, xml):
    return check_html_doc(H.generate(seed, index, max_nodes, bool(xml)))


def check_html_tiny(tree_json):
    return check_html_doc(H.render(json.loads(tree_json)))


def check_html_shapes(seed, index, max_nodes):
    """token-list attributes (class and others) in every value shape: bool / dq / sq / unq / expr"""
    return check_html_doc(L.generate(seed, index, max_nodes))


def check_html_shapes_small(tree_json):
    return check_html_doc(H.render(json.loads(tree_json)))


# ------------------------------------------------------------------------------------------------
# CSS

def _item_model(sheet, it):
    """(start, end, set of ranges) of a selector or declaration item"""
    if it['type'] == 'rule':
        s, e = it['sel']
        return s, e, {(s, e)}
    rs = {(it['start'], it['end']), tuple(it['value'])}
    rs.update(tuple(t) for t in it['tokens'])
    return it['start'], it['end'], {r for r in rs if r[0] != r[1]}


def _span(it):
    return tuple(it['sel']) if it['type'] == 'rule' else (it['start'], it['end'])


def _check_item_model(sheet, call, model, allowed):
    doc = sheet.doc

    def show(it):
        if it is None:
            return 'None'
        s, e = _span(it)
        return 'the %s %r [%d:%d]' % ('selector' if it['type'] == 'rule' else 'declaration', doc[s:e], s, e)
    if model is None:
        if None in allowed:
            return None
        return '%s = None, expected %s' % (call, ' or '.join(show(i) for i in allowed))
    for it in allowed:
        if it is None:
            continue
        s, e, exp = _item_model(sheet, it)
        if (model.start, model.end) == (s, e):
            got = {tuple(r) for r in model.ranges}
            if got != exp:
                return '%s: %s ranges %r, expected full / value / value-token ranges %r' % (call, show(it), sorted(got), sorted(exp))
            return None
    return '%s = [%d:%d] %r, expected %s' % (call, model.start, model.end, model.ranges, ' or '.join(show(i) for i in allowed))


def check_css_sheet(sheet, what):
    """what: 'all' -> get_css_section (+properties) and select_item_css; 'section' -> get_css_section only"""
    from emmet.action_utils import get_css_section, select_item_css
    doc = sheet.doc
    n = len(doc)
    rules = [it for it in sheet.items if it['type'] == 'rule']
    inner = [None] * (n + 1)           # innermost rule strictly containing the position
    for it in rules:
        for p in range(it['start'] + 1, it['end']):
            inner[p] = it
    starts = {it['start']: it for it in rules}
    ends = {it['end']: it for it in rules}
    items = sheet.items                 # document order == order of start offsets
    inside = [None] * (n + 1)          # selector / declaration strictly containing the position
    ambiguous_next = [False] * (n + 1)
    for it in items:
        s, e = _span(it)
        for p in range(s + 1, e):
            inside[p] = it
        if it['type'] == 'decl':
            for p in range(it['name'][0] + 1, it['value'][0] + 1):
                ambiguous_next[p] = True
    for pos in range(0, n + 1):
        x = inner[pos]
        cands = [x] + [m[pos] for m in (starts, ends) if pos in m]
        for props in (False, True):
            call = 'get_css_section(%r, %d, %r)' % (doc, pos, props)
            sec = get_css_section(doc, pos, props)
            if sec is None:
                if x is not None:
                    return '%s = None but the position is strictly inside the rule [%d:%d]' % (call, x['start'], x['end'])
                continue
            rule = None
            for c in cands:
                if c is not None and (sec.start, sec.end) == (c['start'], c['end']):
                    rule = c
            if rule is None:
                return '%s = [%d:%d], expected the innermost rule containing the position: %s' % (
                    call, sec.start, sec.end, ' or '.join('None' if c is None else '[%d:%d]' % (c['start'], c['end']) for c in cands))
            if (sec.body_start, sec.body_end) != tuple(rule['body']):
                return '%s: body [%d:%d], expected the text between the braces [%d:%d]' % (call, sec.body_start, sec.body_end, rule['body'][0], rule['body'][1])
            if not props:
                continue
            decls = [sheet.items[i] for i in rule['children'] if sheet.items[i]['type'] == 'decl']
            got = sec.properties or []
            if len(got) != len(decls):
                return '%s: %d properties %r, the rule has %d direct declarations %r' % (
                    call, len(got), [p.to_json() for p in got], len(decls), [doc[q['start']:q['end']] for q in decls])
            for p, q in zip(got, decls):
                where = '%s: declaration %r' % (call, doc[q['start']:q['end']])
                if tuple(p.name) != tuple(q['name']):
                    return '%s name %r, expected %r' % (where, tuple(p.name), tuple(q['name']))
                if tuple(p.value) != tuple(q['value']):
                    return '%s value %r, expected %r' % (where, tuple(p.value), tuple(q['value']))
                if [tuple(t) for t in p.value_tokens] != [tuple(t) for t in q['tokens']]:
                    return '%s value tokens %r, expected %r' % (where, p.value_tokens, q['tokens'])
                if p.before != q['before']:
                    return '%s before %r, expected %r (end of the previous sibling / start of the body)' % (where, p.before, q['before'])
                if q['semi'] is not None:
                    if p.after != q['after']:
                        return '%s after %r, expected %r (just past the terminating `;`)' % (where, p.after, q['after'])
                elif not (q['value'][1] <= p.after <= rule['body'][1]):
                    return '%s (terminated by the end of the body) after %r, expected an offset between the end of the value %d and the end of the body %d' % (
                        where, p.after, q['value'][1], rule['body'][1])
        if what != 'all':
            continue
        tin = inside[pos]
        nxt = None
        for it in items:
            if _span(it)[0] >= pos:
                nxt = it
                break
        prv = None
        for it in items:
            if _span(it)[1] <= pos and _span(it)[0] < pos:
                prv = it
        # previous: the last item that starts before the position and does not contain it
        if not ambiguous_next[pos]:
            bad = _check_item_model(sheet, 'select_item_css(%r, %d) [next]' % (doc, pos), select_item_css(doc, pos),
                                    [nxt] + ([tin] if tin else []))
            if bad:
                return bad
        bad = _check_item_model(sheet, 'select_item_css(%r, %d, True) [previous]' % (doc, pos), select_item_css(doc, pos, True),
                                [prv] + ([tin] if tin else []))
        if bad:
            return bad
    return None


def check_css_random(seed, index, max_nodes, feats, what):
    return check_css_sheet(S.generate(seed, index, max_nodes, feats), what)


def check_css_tiny(tree_json):
    return check_css_sheet(S.render(json.loads(tree_json)), 'all')


def _tiny_html(nmax):
    for xml in (False, True):
        for n in range(1, nmax + 1):
            for f in H.tiny_forests(n, xml):
                yield (json.dumps(f),)


def _tiny_css(nmax):
    for n in range(1, nmax + 1):
        for f in S.tiny_forests(n):
            yield (json.dumps(f),)


def run(tier, seed):
    quick = tier == 'quick'
    ntrees, size = (300, 12) if quick else (3000, 40)
    ncss = 300 if quick else 1500
    out = []

    c = Clause('html-actions', 'B',
               generator='bounded/c09_gen.py documents (seed %d; HTML-mode and XML-mode trees alternately) with recorded tags, attribute '
                         'name / value ranges and class tokens' % seed,
               bound='%d trees of <= %d nodes; every position 0..len(doc); get_open_tag, select_item_html next and previous' % (ntrees, size),
               rule='a case is one generated document; distinct by (seed, index, size, mode)', exhaustive=False)
    run_parallel(c, 'bounded.c17', 'check_html_random', ((seed, i, size, i % 2) for i in range(ntrees)), chunk=max(1, ntrees // 56))
    c.done()
    out.append(c)

    nshapes, shsize = (200, 8) if quick else (1500, 24)
    c = Clause('html-actions-value-shapes', 'B',
               generator='bounded/c17_gen.py documents (seed %d): token-list attributes (`class`, and `className` / `rel` / `id` ... '
                         'which get no token ranges) as boolean, double-quoted, single-quoted, unquoted and expression `{...}` '
                         'values; 0..4 atoms separated / surrounded by blank, tab, new-line, CR LF; expression atoms with nested '
                         'brackets, braces and quoted pieces' % seed,
               bound='%d trees of <= %d nodes; every position 0..len(doc); get_open_tag, select_item_html next and previous' % (nshapes, shsize),
               rule='a case is one generated document; distinct by (seed, index, size)', exhaustive=False)
    run_parallel(c, 'bounded.c17', 'check_html_shapes', ((seed, i, shsize) for i in range(nshapes)), chunk=max(1, nshapes // 56))
    c.done()
    out.append(c)

    c = Clause('html-actions-value-shapes-small-exhaustive', 'B',
               generator='bounded/c17_gen.py small_trees(): one tag (open with text; self-closing after text in two of the neighbourhoods) with one list attribute '
                         '(`class`: dq, sq, expr, unq, bool; `rel`: dq, expr, bool) x every value of <= 3 atoms from {a, bb} with '
                         'separators blank / two blanks / new-line and optional leading / trailing blank x 4 neighbourhoods of other '
                         'attributes', bound='the complete family (same in both tiers); every position',
               rule='a case is one document; distinct by tree', exhaustive=True)
    run_parallel(c, 'bounded.c17', 'check_html_shapes_small', ((json.dumps(t),) for t in L.small_trees()), chunk=150)
    c.done()
    out.append(c)

    c = Clause('css-actions', 'B',
               generator='bounded/c10_gen.py stylesheets (seed %d, features "V": no comments inside values / selectors) with recorded '
                         'rules, declarations, names, values, value tokens, before / after offsets' % seed,
               bound='%d trees of <= %d nodes; every position 0..len(doc); get_css_section without and with properties, '
                     'select_item_css next and previous' % (ncss, size),
               rule='a case is one generated stylesheet; distinct by (seed, index, size)', exhaustive=False)
    run_parallel(c, 'bounded.c17', 'check_css_random', ((seed, i, size, 'V', 'all') for i in range(ncss)), chunk=max(1, ncss // 56))
    c.done()
    out.append(c)

    # Declarations terminated by the end of the body: the unchanged tree is known to contradict the statement here
    # (notes/C17.md, defect U).  A small probe family with a fixed seed first (same cases in every tier and for every
    # run seed, all violations recorded); the large random family only if the probe passes.
    def unterminated(name, count, sz, sd, extra):
        c = Clause(name, 'B',
                   generator='as css-actions, but the last declaration of a rule body may be terminated by the end of the body instead '
                             'of `;` (features "UV"), seed %d%s' % (sd, extra),
                   bound='%d trees of <= %d nodes; every position; get_css_section without and with properties' % (count, sz),
                   rule='a case is one generated stylesheet; distinct by (seed, index, size)', exhaustive=False)
        run_parallel(c, 'bounded.c17', 'check_css_random', ((sd, i, sz, 'UV', 'section') for i in range(count)), chunk=max(1, count // 56))
        c.done()
        out.append(c)
        return c

    probe = unterminated('css-section-unterminated-probe', PROBE_COUNT, PROBE_SIZE, PROBE_SEED, ' [fixed probe family]')
    if not probe.violations:
        unterminated('css-section-unterminated', ncss // 2, size, seed, '')

    nh, nc = (3, 3) if quick else (4, 4)
    c = Clause('html-actions-tiny-exhaustive', 'B', generator='the tiny document family of C09 (bounded/c09_gen.py: tiny_forests), both leaf sets',
               bound='all forests with 1..%d nodes; every position' % nh, rule='a case is one document; distinct by tree', exhaustive=True)
    run_parallel(c, 'bounded.c17', 'check_html_tiny', _tiny_html(nh), chunk=300)
    c.done()
    out.append(c)
    c = Clause('css-actions-tiny-exhaustive', 'B', generator='the tiny stylesheet family of C10 (bounded/c10_gen.py: tiny_forests)',
               bound='all forests with 1..%d nodes; every position' % nc, rule='a case is one stylesheet; distinct by tree', exhaustive=True)
    run_parallel(c, 'bounded.c17', 'check_css_tiny', _tiny_css(nc), chunk=300)
    c.done()
    out.append(c)
    return out
