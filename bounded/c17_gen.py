"""C17: documents whose tags carry token-list attributes in EVERY value shape the attribute grammar has.

The C09 generator (c09_gen.py) writes `class` only as a quoted or a one-token unquoted value and writes
expression values (`{...}`) only for other attributes.  The statement of C17 speaks of "each attribute, its
unquoted value and each class token" without restricting the shape of the value, so this family varies, for
`class` and for a few other attribute names (which must NOT get token ranges):

    value shape   bool | dq "..." | sq '...' | unq | expr {...}
    content       0..4 atoms, joined / led / trailed by blank, blanks, tab, new-line, CR LF
    atoms         plain class names, utility-class names with punctuation, and (inside `{}` only) expression-like
                  atoms with nested brackets / braces / quoted pieces -- never containing white space

The trees are rendered by c09_gen.render(), which records the tag, attribute, inner-value and token offsets while
the text is written (tokens = maximal runs of non-white-space of the text between the quotes / braces).
"""
import random

from . import c09_gen as H

NAMES = ['div', 'span', 'p', 'a', 'li', 'i', 'my-el', 'Foo', 'svg', 'x_y']
VOID = ['img', 'br', 'input', 'hr']

# attribute names that carry a token list; only `class` gets token ranges
LIST_NAMES = ['class', 'class', 'class', 'class', 'className', 'rel', 'data-class', 'classes', 'id']
OTHER_NAMES = ['id', 'title', 'href', 'data-x', 'disabled', 'v-on:click']

PLAIN_ATOMS = ['a', 'bb', 'btn', 'btn-primary', 'x_1', 'is:on', 'w-1/2', 'c', 'md:p-4', 'a.b', 'x=y', '#k', '100%']
QUOTED_ONLY_ATOMS = ['{x}', '{{y}}', 'a>b', '[&>p]:m-0', '}', '{', '/>']
EXPR_ATOMS = ['styles.a', 'x&&y', 'cx("a","b")', "cls('k')", '{on:1}', '[a,b]', 'a>b', '"}"', "'{'", 'a?b:c', '`t`',
              'fn(a)(b)', 'a/b', '"/>"', '!x', 'props.cls||""']
UNQ_ATOMS = ['a', 'bb', 'btn-primary', 'x_1', 'is:on', 'a.b', '#k', '100%', 'c', 'x}', 'a}b']

SEPS = [' ', ' ', ' ', '  ', '\t', '\n', '\n  ', '\r\n', ' \t ']
EDGES = ['', '', '', ' ', '  ', '\n', '\t']


def _list_value(rng, atoms):
    n = rng.choice([0, 1, 1, 2, 2, 3, 4])
    s = rng.choice(EDGES)
    for i in range(n):
        if i:
            s += rng.choice(SEPS)
        s += rng.choice(atoms)
    if n:
        s += rng.choice(EDGES)
    return s


def list_attr(rng, name=None):
    """[name, style, value] of an attribute holding a white-space separated list"""
    name = name or rng.choice(LIST_NAMES)
    st = rng.choice(['dq', 'sq', 'unq', 'expr', 'expr', 'expr', 'bool'])
    if st == 'bool':
        return [name, 'bool', None]
    if st == 'unq':
        return [name, 'unq', rng.choice(UNQ_ATOMS)]
    if st == 'expr':
        return [name, 'expr', '{' + _list_value(rng, PLAIN_ATOMS + EXPR_ATOMS) + '}']
    atoms = PLAIN_ATOMS + QUOTED_ONLY_ATOMS + (["'"] if st == 'dq' else ['"'])
    return [name, st, _list_value(rng, atoms)]


def other_attr(rng):
    name = rng.choice(OTHER_NAMES)
    st = rng.choice(['dq', 'sq', 'unq', 'expr', 'bool'])
    if st == 'bool':
        return [name, 'bool', None]
    if st == 'unq':
        return [name, 'unq', rng.choice(H.UNQUOTED_VALUES)]
    if st == 'expr':
        return [name, 'expr', rng.choice(H.EXPR_VALUES)]
    return [name, st, rng.choice(H.QUOTED_VALUES)]


def _attrs(rng):
    n = rng.choice([0, 1, 1, 1, 2, 2, 3])
    out = []
    for _ in range(n):
        out.append(list_attr(rng) if rng.random() < 0.7 else other_attr(rng))
    return out


def _forest(rng, n, depth):
    out = []
    while n > 0:
        r = rng.random()
        if r < 0.4 and depth < 5:
            k = rng.randint(0, n - 1)
            out.append(['pair', rng.choice(NAMES), _attrs(rng), _forest(rng, k, depth + 1)])
            n -= 1 + k
            continue
        n -= 1
        if r < 0.6:
            out.append(['self', rng.choice(NAMES + VOID), _attrs(rng)])
        elif r < 0.75:
            out.append(['void', rng.choice(VOID), _attrs(rng)])
        elif r < 0.9:
            out.append(['text', rng.choice(H.TEXTS)])
        else:
            out.append(['comment', '<!--' + rng.choice(H.COMMENTS) + '-->'])
    return out


def generate(seed, index, max_nodes):
    rng = random.Random((seed * 1000003 + index) * 2 + 771)
    tree = _forest(rng, rng.randint(1, max_nodes), 0)
    return H.render(tree, rng)


# ------------------------------------------------------------------------------------------------
# exhaustive small family: one tag, one list attribute in every shape, in every neighbourhood

SMALL_ATOMS = ['a', 'bb']
SMALL_SEPS = [' ', '  ', '\n']
SMALL_EDGES = ['', ' ']
CONTEXTS = [([], []),
            ([['id', 'dq', 's']], []),
            ([], [['title', 'expr', '{x y}']]),
            ([['hidden', 'bool', None]], [['rel', 'sq', 'p q']])]


def _small_values(style):
    if style == 'unq':
        for a in SMALL_ATOMS:
            yield a
        return
    wrap = (lambda s: '{' + s + '}') if style == 'expr' else (lambda s: s)
    for lead in SMALL_EDGES:
        yield wrap(lead)                    # no token: empty or white space only
        for trail in SMALL_EDGES:
            for a in SMALL_ATOMS:
                yield wrap(lead + a + trail)
            for sep in SMALL_SEPS:
                for a in SMALL_ATOMS:
                    for b in SMALL_ATOMS:
                        yield wrap(lead + a + sep + b + trail)
                for c in SMALL_ATOMS:
                    yield wrap(lead + 'a' + sep + 'bb' + sep + c + trail)


def small_trees():
    """forests `<x A>t</x>` / `u<x A/>` where A = before-attributes, the list attribute, after-attributes"""
    for name in ('class', 'rel'):
        # `rel` (no token ranges expected) only in the two shapes whose tokens could be confused with class tokens
        for style in (('dq', 'sq', 'expr', 'unq') if name == 'class' else ('dq', 'expr')):
            for value in _small_values(style):
                for k, (before, after) in enumerate(CONTEXTS):
                    attrs = before + [[name, style, value]] + after
                    yield [['pair', 'x', attrs, [['text', 't']]]]
                    if k in (0, 3):
                        yield [['text', 'u'], ['self', 'x', attrs]]
        for before, after in CONTEXTS:
            yield [['pair', 'x', before + [[name, 'bool', None]] + after, []]]
