"""C18 bounded stand-in / cross-check: both tokenizers are lossless (token spans tile the input).

Statement (properties.jsonl C18): tokenizing a markup or stylesheet abbreviation either raises the
scanner error with a position inside the input, or returns tokens whose [start, end) spans are all
defined, non-empty, contiguous and cover the input from 0 to its length.

Cases: every string up to a small length over one alphabet per language (exhaustive), plus seeded
random longer strings (same alphabets, and an alphabet-with-snippets variant that reaches the deep
consumers: fields with nested placeholders, function names merged by merge_tokens, colours with
alpha, custom properties).  The stylesheet tokenizer is run in property mode and in value mode.

The tokens looked at are exactly the elements of the list `tokenize()` returns (both tokenizers
return a flat list of Token objects; nothing is nested, nothing is flattened here).
"""
import itertools
import random

from .common import Clause, run_parallel

# one representative per character class the markup tokenizer distinguishes
#   a 1        element-name / number characters       (space) white space
#   > ^        operators (^ also a `$@^` modifier)    *  repeater        ( ) [ ] { }  the three bracket kinds
#   # $ @ -    `$#` placeholder, `$@-1` numbering     /  `1/2` special case   =  only operator allowed in [..]
#   "          quote context                           \  escape           :  `${1:placeholder}`
MARKUP_ALPHA = 'a1 >^*()[]{}#$@-/="\\:'
# stylesheet tokenizer
#   a x        hex and non-hex letters                 1 .  numbers / colour alpha / `.5`
#   - --       value delimiter, negative number, custom property
#   + ! , :    operators        # colour      $ @  identifier prefixes, `${1}` field    { } field body
#   ( )        function call brackets (merge_tokens)   %  unit     "  string     /  literal char    (space)
CSS_ALPHA = 'ax1 -+#.!$@(),:%"/{}'

# fragments for the random tier: chosen from the tokenizer's grammar (not from its behaviour)
MARKUP_FRAGS = ['${1}', '${1:a}', '${a}', '${1:{a}}', '${1:{', '$#', '$$@-', '$@^^3', '$@-1', '*3', '*', '1/2', '\\',
                '[a=', '="', "='", "'", '{{', '}}', 'a-b', 'a:b', '!', '.', '+', '(', ')', '_', '%', '?', '<', 'é',
                '\n', '\t', ' ']
CSS_FRAGS = ['--', '--a-b', '${1}', '${1:a}', '${a}', '${1:{a}}', '${1:{', '#f', '#fff.5', '#t', '#.', '#x', '-1', '1.', '.5',
             '1.5e', '10px', '10%', 'scale3d(', 'a2(', '1a(', 'rgb(', '@k', '$v', '@', '"a b"', "'", '_', '\\', '?', '[', ']',
             '*', '=', '>', '\n', '\t', ' ', 'é', 't', 'f', 'e']


def _tiles(toks, src, who):
    """None if the token list tiles src, else a description of the first defect"""
    n = len(src)
    if not isinstance(toks, (list, tuple)):
        return '%s(%r) returned %r, not a token list' % (who, src, type(toks).__name__)
    pos = 0
    for i, t in enumerate(toks):
        s = getattr(t, 'start', None)
        e = getattr(t, 'end', None)
        name = type(t).__name__
        if not (isinstance(s, int) and not isinstance(s, bool)) or not (isinstance(e, int) and not isinstance(e, bool)):
            return '%s(%r): token #%d %s has an undefined span start=%r end=%r' % (who, src, i, name, s, e)
        if not s < e:
            return '%s(%r): token #%d %s has an empty or inverted span [%d, %d)' % (who, src, i, name, s, e)
        if s != pos:
            return '%s(%r): token #%d %s starts at %d but the previous token (or the input start) ended at %d' % (
                who, src, i, name, s, pos)
        if e > n:
            return '%s(%r): token #%d %s ends at %d beyond the input length %d' % (who, src, i, name, e, n)
        pos = e
    if pos != n:
        return '%s(%r): tokens cover [0, %d) but the input has length %d' % (who, src, pos, n)
    return None


def _error_pos(exc, src, who):
    p = getattr(exc, 'pos', None)
    if not (isinstance(p, int) and not isinstance(p, bool)) or not 0 <= p <= len(src):
        return '%s(%r) raised ScannerException with pos=%r outside 0..%d' % (who, src, p, len(src))
    return None


def check_markup(src):
    from emmet.abbreviation import tokenize
    from emmet.scanner import ScannerException
    try:
        toks = tokenize(src)
    except ScannerException as e:
        return _error_pos(e, src, 'abbreviation.tokenize')
    return _tiles(toks, src, 'abbreviation.tokenize')


def check_css(src, is_value):
    from emmet.css_abbreviation import tokenize
    from emmet.scanner import ScannerException
    who = 'css_abbreviation.tokenize[%s]' % ('value' if is_value else 'property')
    try:
        toks = tokenize(src, bool(is_value))
    except ScannerException as e:
        return _error_pos(e, src, who)
    return _tiles(toks, src, who)


def strings(alpha, maxlen):
    for n in range(0, maxlen + 1):
        for t in itertools.product(alpha, repeat=n):
            yield ''.join(t)


def random_strings(rng, alpha, frags, count, lo, hi):
    """strings of lo..hi pieces; a piece is an alphabet character (3/4) or a grammar fragment (1/4)"""
    for _ in range(count):
        k = rng.randint(lo, hi)
        yield ''.join(rng.choice(alpha) if rng.random() < 0.75 else rng.choice(frags) for _ in range(k))


def run(tier, seed):
    ml, cl, nrand = (4, 4, 150000) if tier == 'quick' else (5, 5, 1500000)
    rng = random.Random(seed)
    out = []

    c = Clause('markup-exhaustive', 'B', 'all strings over %r' % MARKUP_ALPHA, 'length <= %d' % ml,
               'a case is one input string to abbreviation.tokenize; distinct by string', exhaustive=True)
    run_parallel(c, 'bounded.c18', 'check_markup', ((s,) for s in strings(MARKUP_ALPHA, ml)), chunk=4000)
    out.append(c.done())

    c = Clause('stylesheet-exhaustive', 'B', 'all strings over %r, property mode and value mode' % CSS_ALPHA,
               'length <= %d, is_value in {False, True}' % cl,
               'a case is one (input string, is_value) pair for css_abbreviation.tokenize; distinct by pair', exhaustive=True)
    run_parallel(c, 'bounded.c18', 'check_css',
                 ((s, v) for s in strings(CSS_ALPHA, cl) for v in (False, True)), chunk=4000)
    out.append(c.done())

    c = Clause('markup-random', 'B', 'seeded random concatenations of alphabet characters and tokenizer-grammar fragments',
               '%d strings of %d..14 pieces, seed %d' % (nrand, ml + 1, seed),
               'a case is one input string; distinct by string', exhaustive=False)
    run_parallel(c, 'bounded.c18', 'check_markup',
                 ((s,) for s in random_strings(rng, MARKUP_ALPHA, MARKUP_FRAGS, nrand, ml + 1, 14)), chunk=4000)
    out.append(c.done())

    c = Clause('stylesheet-random', 'B', 'seeded random concatenations of alphabet characters and tokenizer-grammar fragments, both modes',
               '%d strings of %d..14 pieces x 2 modes, seed %d' % (nrand, cl + 1, seed),
               'a case is one (input string, is_value) pair; distinct by pair', exhaustive=False)
    run_parallel(c, 'bounded.c18', 'check_css',
                 ((s, v) for s in random_strings(rng, CSS_ALPHA, CSS_FRAGS, nrand, cl + 1, 14) for v in (False, True)), chunk=4000)
    out.append(c.done())
    return out
