"""C19 bounded stand-in: math expressions evaluate to their arithmetic value; extract() returns sane ranges.

Oracle = an independent recursive-descent recogniser / exact-rational evaluator (bounded/c19_spec.py)
written from the property statement: parentheses first, unary signs binding tightest, `*` `/` `\\`
before `+` `-`, equal precedence left to right; chains mixing `\\` with `*` or `/` without parentheses
are outside the statement.  Malformed input must raise MathExpressionException, division by zero
ZeroDivisionError, and evaluate() may raise nothing else.
"""
import itertools
import random
from fractions import Fraction

from .common import Clause, run_parallel
from . import c19_spec
from . import c19_foreign

TOKENS = ['2', '3.5', '.5', '+', '-', '*', '/', '\\', '(', ')', ' ']
NARROW_TOKENS = ['2', '-', '/', '(', ')']       # longer sequences over the tokens that drive the parser's state machine
EVAL_ALPHA = '012.+-*/\\() \ta'         # 14 characters; `a` stands for "any character outside the expression alphabet"
EXTRACT_ALPHA = '12.+-*/\\() a\n='       # 14 characters
EXPR_CHARS = '0123456789.+-*/\\()'


def _tag(tags):
    return ''.join('[%s] ' % t for t in tags)


_MODES = None


def _int_division_modes():
    """The statement does not say whether `\\` floors or truncates a negative quotient, but an expression has *one* value:
    the convention the implementation shows on a fixed probe is the one demanded everywhere (so that `-3.5\\2` cannot pass
    as "truncating" while `(0-3.5)\\2` passes as "flooring").  If the probe itself misbehaves both are accepted."""
    global _MODES
    if _MODES is None:
        from emmet.math_expression import evaluate
        try:
            v = evaluate('(0-7)\\2')
        except Exception:
            v = None
        _MODES = ('floor',) if v == -4 else ('trunc',) if v == -3 else ('floor', 'trunc')
    return _MODES


def check_eval(src):
    from emmet.math_expression import evaluate, MathExpressionException
    cls = c19_spec.classify(src, _int_division_modes())
    tags = cls[2] if cls[0] in ('ok', 'malformed') else []
    try:
        got = evaluate(src)
        kind = 'value'
    except MathExpressionException:
        kind = 'parse-error'
    except ZeroDivisionError:
        kind = 'zde'
    except Exception as e:
        return '%sevaluate(%r) raised %s: %s; only MathExpressionException and ZeroDivisionError are allowed (spec: %s)' % (
            _tag(tags), src, type(e).__name__, e, cls[0])
    if kind == 'value':
        if isinstance(got, bool) or not isinstance(got, (int, float)) or got != got or got in (float('inf'), float('-inf')):
            return '%sevaluate(%r) returned %r, not a finite number' % (_tag(tags), src, got)
    if cls[0] == 'unspecified':
        return None
    if cls[0] == 'malformed':
        if kind == 'parse-error':
            return None
        return '%smalformed input (%s): evaluate(%r) %s instead of raising MathExpressionException' % (
            _tag(tags), cls[1], src, 'returned %r' % (got,) if kind == 'value' else 'raised ZeroDivisionError')
    outcomes = cls[1]
    want = ' or '.join('ZeroDivisionError' if o == 'zde' else str(float(o)) for o in outcomes)
    if kind == 'parse-error':
        return '%swell-formed expression: evaluate(%r) raised MathExpressionException, expected %s' % (_tag(tags), src, want)
    if kind == 'zde':
        if 'zde' in outcomes:
            return None
        return '%sevaluate(%r) raised ZeroDivisionError, expected %s' % (_tag(tags), src, want)
    g = Fraction(got)
    for o in outcomes:
        if o != 'zde' and abs(g - o) <= Fraction(1, 10 ** 9) * max(1, abs(o)):
            return None
    return '%sevaluate(%r) = %r, expected %s' % (_tag(tags), src, got, want)


def check_eval_foreign(src):
    """src contains a character outside the expression alphabet (digits . + - * / \\ ( ) blank TAB NBSP): whatever other
    number reader would accept the string, evaluate() must raise the module's parse error"""
    foreign = [ch for ch in src if ch not in c19_foreign.ALPHABET]
    cls = c19_spec.classify(src, _int_division_modes())
    if not foreign or cls[0] != 'malformed':
        return 'generator defect: %r was generated as a foreign-notation string but is classified %s' % (src, cls[0])
    return check_eval(src)


def check_extract(text):
    from emmet.math_expression import extract
    n = len(text)
    configs = [None, {'lookAhead': True}, {'lookAhead': False}, {'lookAhead': True, 'whitespace': False},
               {'lookAhead': False, 'whitespace': False}]
    for pos in [None] + list(range(0, n + 1)):
        p = n if pos is None else pos
        for opt in configs:
            r = extract(text, pos, opt) if opt is not None else extract(text, pos)
            if r is None:
                continue
            who = 'extract(%r, %r, %r)' % (text, pos, opt)
            if not isinstance(r, (tuple, list)) or len(r) != 2 or not all(isinstance(x, int) and not isinstance(x, bool) for x in r):
                return '%s returned %r, neither None nor a (start, end) pair' % (who, r)
            s, e = r
            if not 0 <= s <= e <= n:
                return '%s = %r violates 0 <= start <= end <= %d' % (who, (s, e), n)
            look_ahead = opt is None or opt.get('lookAhead', True)
            if not look_ahead:
                if e != p:
                    return '%s = %r: without look-ahead the range must end at the position %d' % (who, (s, e), p)
            else:
                if e < p or any(not (ch == ')' or ch.isspace()) for ch in text[p:e]):
                    return '%s = %r: look-ahead may move the end from %d only across ")" and spaces, crossed %r' % (
                        who, (s, e), p, text[p:e])
            depth = 0
            for ch in text[s:e]:
                if not (ch in EXPR_CHARS or ch.isdecimal() or ch.isspace()):
                    return '%s = %r: range text %r contains %r' % (who, (s, e), text[s:e], ch)
                if ch == '(':
                    depth += 1
                elif ch == ')':
                    depth -= 1
                    if depth < 0:
                        break
            if depth != 0:
                return '%s = %r: range text %r has unbalanced parentheses' % (who, (s, e), text[s:e])
    return None


def token_strings(maxlen, tokens=TOKENS, minlen=0):
    for n in range(minlen, maxlen + 1):
        for t in itertools.product(tokens, repeat=n):
            yield (''.join(t),)


def strings(alpha, maxlen):
    for n in range(0, maxlen + 1):
        for t in itertools.product(alpha, repeat=n):
            yield (''.join(t),)


def deeper_wellformed(lo, hi):
    for k in range(lo, hi + 1):
        for t in c19_spec.wellformed(k):
            yield (''.join(t),)


# decimal literals that binary floating point cannot hold exactly, next to ones it can
INTDIV_LITERALS = ['.1', '.2', '.3', '.4', '.5', '.6', '.7', '.8', '.9', '1', '2', '3', '4', '5', '8', '10', '100',
                   '1.1', '1.2', '2.4', '.25', '.05', '.01', '0.1', '12.5', '99.9']
INTDIV_FORMS = ['%s\\%s', '-%s\\%s', '%s\\-%s', '-%s\\-%s', '(%s)\\(%s)', '(-%s)\\+%s', ' %s \\ %s', '2+%s\\%s', '%s\\%s-1',
                '2*(%s\\%s)', '%s\\%s\\2', '(%s\\%s)/4']


def intdiv_cases():
    for a in INTDIV_LITERALS:
        for b in INTDIV_LITERALS:
            for f in INTDIV_FORMS:
                yield (f % (a, b),)


def random_cases(rng, count):
    for i in range(count):
        e = c19_spec.random_expr(rng, rng.choice([1, 2, 2, 3]))
        if i % 3 == 2:
            e = c19_spec.mutate(rng, e)
        yield (e,)


def run(tier, seed):
    quick = tier == 'quick'
    tl, nl, wl, sl, xl, nrand = (6, 8, 8, 4, 4, 100000) if quick else (7, 10, 9, 5, 5, 1500000)
    rng = random.Random(seed)
    out = []

    c = Clause('evaluate-token-sequences', 'B', 'all sequences of the tokens %r, concatenated' % TOKENS, '<= %d tokens' % tl,
               'a case is one input string for evaluate(); classified well-formed / malformed / outside the statement by '
               'bounded.c19_spec; distinct by string', exhaustive=True)
    run_parallel(c, 'bounded.c19', 'check_eval', token_strings(tl), chunk=4000)
    out.append(c.done())

    c = Clause('evaluate-token-sequences-narrow', 'B', 'all sequences of the tokens %r, concatenated' % NARROW_TOKENS,
               '%d..%d tokens' % (tl + 1, nl),
               'a case is one input string for evaluate(), classified as above; distinct by string', exhaustive=True)
    run_parallel(c, 'bounded.c19', 'check_eval', token_strings(nl, NARROW_TOKENS, tl + 1), chunk=4000)
    out.append(c.done())

    c = Clause('evaluate-wellformed-deeper', 'B',
               'all well-formed token sequences (grammar of c19_spec, numbers 2 / 3.5 / .5, no spaces)',
               '%d..%d tokens' % (tl + 1, wl),
               'a case is one well-formed expression; distinct by string', exhaustive=True)
    run_parallel(c, 'bounded.c19', 'check_eval', deeper_wellformed(tl + 1, wl), chunk=4000)
    out.append(c.done())

    c = Clause('evaluate-intdiv-literals', 'B',
               'integer division of two decimal literals a, b from %r in the forms %r' % (INTDIV_LITERALS, INTDIV_FORMS),
               '%d x %d literal pairs x %d forms' % (len(INTDIV_LITERALS), len(INTDIV_LITERALS), len(INTDIV_FORMS)),
               'a case is one expression; the decimal value is demanded when the operands of `\\` are literals and one '
               'correctly rounded IEEE division reproduces the decimal quotient (decided by c19_spec, not by the repo); '
               'otherwise only the exception clause applies; distinct by string', exhaustive=True)
    run_parallel(c, 'bounded.c19', 'check_eval', intdiv_cases(), chunk=500)
    out.append(c.done())

    c = Clause('evaluate-random', 'B',
               'seeded random grammar-generated expressions (nesting depth <= 3, multi-digit numbers, zeros, spaces); '
               'every third one damaged by a one-character edit',
               '%d expressions, seed %d' % (nrand, seed), 'a case is one input string; distinct by string', exhaustive=False)
    run_parallel(c, 'bounded.c19', 'check_eval', random_cases(rng, nrand), chunk=2000)
    out.append(c.done())

    c = Clause('evaluate-strings', 'B', 'all strings over %r' % EVAL_ALPHA, 'length <= %d' % sl,
               'a case is one arbitrary input string for evaluate() (error clause; value checked too when the string is '
               'in the language); distinct by string', exhaustive=True)
    run_parallel(c, 'bounded.c19', 'check_eval', strings(EVAL_ALPHA, sl), chunk=4000)
    out.append(c.done())

    c = Clause('evaluate-foreign-notation', 'B',
               'strings with a character outside the expression alphabet that other number readers accept or skip: one '
               'foreign character (%d of them: printable ASCII outside the alphabet, control / line-break / Unicode space '
               'characters, non-decimal numerics, operator look-alikes) at every position of %d carriers; exponent, '
               'digit-separator, radix-prefix, suffix and number-word (inf, nan, ...) notations; non-blank white space '
               'around numbers' % (len(c19_foreign.FOREIGN_CHARS), len(c19_foreign.CARRIERS)),
               'enumerated class of bounded.c19_foreign (same in both tiers)',
               'a case is one input string for evaluate(); it is malformed (c19_spec) and must raise '
               'MathExpressionException; distinct by string', exhaustive=True)
    run_parallel(c, 'bounded.c19', 'check_eval_foreign', c19_foreign.cases(), chunk=2000)
    out.append(c.done())

    c = Clause('extract-exhaustive', 'B', 'all strings over %r' % EXTRACT_ALPHA,
               'length <= %d; positions None and 0..len; options default, lookAhead on/off x whitespace on/off' % xl,
               'a case is one text (all positions and option sets checked inside); distinct by text', exhaustive=True)
    run_parallel(c, 'bounded.c19', 'check_extract', strings(EXTRACT_ALPHA, xl), chunk=1000)
    out.append(c.done())
    return out
