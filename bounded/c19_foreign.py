"""C19 generator: number-like and expression-like strings written in a *foreign* notation.

The statement's expression alphabet is: digits, the decimal point, `+ - * / \\`, parentheses and blanks.  Every string
that contains a character outside that alphabet is malformed and must raise the module's parse error -- also when the
string as a whole is what some *other* number reader (Python's float()/int()/complex(), Decimal, a C or JavaScript
number literal, a CSS value, a locale-formatted number) would happily accept.  The exhaustive `evaluate-strings` clause
has one stand-in character (`a`) for "outside the alphabet", which an implementation that hands the string to such a
reader first never trips over.  This module enumerates the class broadly:

  1. one foreign character (every printable ASCII character outside the alphabet, control / line-break / Unicode
     space characters, non-decimal Unicode numerics, look-alike operator signs) at every position of a set of small
     carriers (empty string, plain numbers, signed numbers, small expressions);
  2. foreign number notations, built combinatorially: exponent notation (mantissa x marker x sign x exponent), digit
     group separators, radix prefixes, type/unit suffixes, number words (inf, infinity, nan, ... in several casings,
     optionally signed);
  3. the above and plain numbers wrapped in white space that is not a blank of the expression grammar (line breaks,
     form feed, vertical tab, Unicode spaces).

Non-ASCII *decimal* digits (Arabic-Indic, full-width, ...) are deliberately not in the foreign set: the statement says
"digits" without restricting them to ASCII, so such inputs are left to nobody (they are not generated anywhere).

No import from the package under test; the expectation (parse error) is decided by c19_spec.classify == 'malformed',
which the check function re-asserts for every generated string.
"""
import itertools

ALPHABET = set('0123456789.+-*/\\() \t\xa0')

ASCII_FOREIGN = [chr(c) for c in range(33, 127) if chr(c) not in ALPHABET]          # letters, _ , ' % $ # = ^ ...
SPACE_FOREIGN = ['\n', '\r', '\x0b', '\x0c', '\x1c', '\x1d', '\x1e', '\x1f', '\x00', '\x85', '\u1680',
                 '\u2000', '\u2003', '\u2009', '\u200a', '\u200b', '\u2028', '\u2029', '\u202f', '\u205f',
                 '\u3000', '\ufeff']
# numerics that are not decimal digits, and look-alikes of the operators / the decimal point
UNICODE_FOREIGN = ['\xb2', '\xb9', '\xbd', '\u2155', '\u2167', '\u2460', '\u3007', '\u4e09', '\u2212',
                   '\uff0b', '\uff0d', '\xd7', '\xf7', '\u2215', '\u2217', '\uff0f', '\uff3c', '\uff08',
                   '\uff09', '\uff0e', '\u066b', '\xb7', '\xe9', '\u03c0', '\u221e']
FOREIGN_CHARS = ASCII_FOREIGN + SPACE_FOREIGN + UNICODE_FOREIGN

CARRIERS = ['', '7', '0', '10', '12.5', '.5', '-3', '+4', ' 1', '1+2', '2*3', '(2)', '-(1)', '6/-2', '8\\3']

MANTISSAS = ['1', '0', '7', '12', '1.5', '.5', '2.', '-3', '+2', ' 1']
EXP_MARKERS = ['e', 'E', 'd', 'D', 'p', '^']
EXP_SIGNS = ['', '+', '-']
EXPONENTS = ['0', '1', '3', '10']

SEPARATORS = ['_', ',', "'", '\u2009', '\u202f']
PREFIXES = ['0x', '0X', '0b', '0B', '0o', '0O', '#', '$', '&H', 'x', '~', '!']
SUFFIXES = ['j', 'J', 'L', 'l', 'f', 'F', 'u', 'n', 'e', 'E', 'e+', 'E-', 'px', 'em', '%', 'k', 'M', '!',
            'h', '_', '\xb0']
WORDS = ['inf', 'infinity', 'nan', 'true', 'false', 'none', 'null', 'pi', 'e', 'x', 'one', 'nil', 'undefined']
WORD_SIGNS = ['', '+', '-', ' ', '(', '1+', '2*']
OUTER_SPACE = ['\n', '\r', '\r\n', '\x0b', '\x0c', '\x1c', '\x1f', '\x85', '\u2003', '\u2028', '\u3000',
               ' \n', '\n ', '\t\n']


def _casings(w):
    return sorted({w, w.upper(), w.capitalize(), w[0] + w[1:].upper()})


def _notations():
    """foreign number notations (every one contains a character outside ALPHABET)"""
    for m, k, s, x in itertools.product(MANTISSAS, EXP_MARKERS, EXP_SIGNS, EXPONENTS):
        yield m + k + s + x
    for sep in SEPARATORS:
        for a, b in [('1', '0'), ('1', '000'), ('12', '345'), ('1', '000.5'), ('0', '1'), ('-1', '0'), ('1.0', '1')]:
            yield a + sep + b
            yield a + sep + sep + b
        yield sep + '1'
        yield '1' + sep
    for p in PREFIXES:
        for d in ['1', '10', '7', '0', '1.5', 'ff', '1F']:
            yield p + d
            yield '-' + p + d
    for d in ['1', '10', '0', '1.5', '.5', '-3', '2.']:
        for suf in SUFFIXES:
            yield d + suf
            yield d + ' ' + suf
    for w in WORDS:
        for cw in _casings(w):
            for sg in WORD_SIGNS:
                yield sg + cw
            yield cw + '+1'
            yield '(' + cw + ')'
            yield cw + ' '


def cases():
    """-> 1-tuples (src,), each src malformed because of at least one character outside the expression alphabet"""
    seen = set()

    def emit(s):
        if s in seen or all(ch in ALPHABET for ch in s):
            return None
        seen.add(s)
        return (s,)

    # 1. one foreign character at every position of every carrier
    for carrier in CARRIERS:
        for ch in FOREIGN_CHARS:
            for i in range(len(carrier) + 1):
                r = emit(carrier[:i] + ch + carrier[i:])
                if r:
                    yield r
    # 2. foreign notations, bare
    notations = []
    for s in _notations():
        r = emit(s)
        if r:
            notations.append(s)
            yield r
    # 3. white space that is not a blank of the grammar around plain numbers, small expressions and a sample of notations
    inner = ['7', '12.5', '.5', '-3', '0', '1+2', '(2)', '2 * 3'] + notations[::23]
    for w in OUTER_SPACE:
        for s in inner:
            for t in (w + s, s + w, w + s + w, ' ' + s + w, w + s + ' '):
                r = emit(t)
                if r:
                    yield r
