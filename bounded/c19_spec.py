"""Independent specification of C19's expression language (no import from /repo).

Grammar (whitespace = ' ', TAB, NBSP may appear between tokens):

    expr    := term  (('+' | '-') term)*                 left to right
    term    := unary (('*' | '/' | '\\') unary)*          left to right
    unary   := ('+' | '-') unary | primary                unary signs bind tightest
    primary := NUMBER | '(' expr ')'
    NUMBER  := DIGITS | DIGITS '.' DIGITS | '.' DIGITS

`classify(s)` returns a tuple whose first element is

    'malformed'    s is not in the language                      -> the parse error is expected
    'unspecified'  the statement does not decide the case        -> only "no other exception" is checked
                   (a number with a trailing dot such as `2.`; trailing white space after a complete expression,
                   unless TRAILING_SPACE_IS_WELLFORMED; a term that mixes `\\` with `*` or `/` without
                   parentheses; an integer division whose exact quotient is so close to an integer that float
                   rounding decides the result -- unless both operands are literals and the natural float
                   evaluation reproduces the decimal result, see _ev)
    'ok'           (.., outcomes, tags)  outcomes is a list of acceptable results, each the string 'zde'
                   (ZeroDivisionError) or a Fraction; one per rounding convention in `modes`: integer division of a
                   negative quotient may floor or truncate, the statement does not say which (the caller fixes the
                   convention by probing the implementation once, see c19._int_division_modes)
"""
from fractions import Fraction

WS = ' \t\xa0'
# The statement lists the building blocks of an expression as numbers, operators, signs and parentheses; the
# quantifier adds spaces.  White space between tokens (and leading) is treated as insignificant, as in ordinary
# arithmetic notation.  Whether *trailing* white space after a complete expression is still "an expression" is
# not said anywhere in the statement, so by default such inputs are 'unspecified' (value or parse error are both
# accepted).  Flip this to demand the value.
TRAILING_SPACE_IS_WELLFORMED = False


class _Malformed(Exception):
    pass


class _Unspecified(Exception):
    pass


class _ZDE(Exception):
    pass


def lex(s):
    """-> list of (kind, text) with kind in 'n', 'o', '(', ')'; raises _Malformed / _Unspecified"""
    toks = []
    i, n = 0, len(s)
    unspecified = None
    while i < n:
        ch = s[i]
        if ch in WS:
            i += 1
            continue
        if ch in '0123456789.':
            j = i
            while j < n and s[j] in '0123456789':
                j += 1
            if j < n and s[j] == '.':
                k = j + 1
                while k < n and s[k] in '0123456789':
                    k += 1
                if k == j + 1:
                    if j == i:
                        raise _Malformed('lone dot at %d' % i)
                    # `2.`: digits, a dot, no fraction digits -- the statement does not say whether this is a number
                    unspecified = 'number with trailing dot at %d' % i
                j = k
            toks.append(('n', s[i:j]))
            i = j
            continue
        if ch in '+-*/\\':
            toks.append(('o', ch))
        elif ch in '()':
            toks.append((ch, ch))
        else:
            raise _Malformed('character %r at %d is not part of the expression alphabet' % (ch, i))
        i += 1
    if unspecified:
        raise _Unspecified(unspecified)
    return toks


class _P:
    def __init__(self, toks):
        self.t = toks
        self.i = 0

    def peek(self):
        return self.t[self.i] if self.i < len(self.t) else (None, None)

    def expr(self):
        node = self.term()
        while True:
            k, v = self.peek()
            if k == 'o' and v in '+-':
                self.i += 1
                node = ('bin', v, node, self.term())
            else:
                return node

    def term(self):
        first = self.unary()
        rest = []
        while True:
            k, v = self.peek()
            if k == 'o' and v in '*/\\':
                self.i += 1
                rest.append((v, self.unary()))
            else:
                break
        if not rest:
            return first
        return ('chain', first, rest)

    def unary(self):
        k, v = self.peek()
        if k == 'o' and v in '+-':
            self.i += 1
            return ('un', v, self.unary())
        return self.primary()

    def primary(self):
        k, v = self.peek()
        if k == 'n':
            self.i += 1
            return ('num', v)
        if k == '(':
            self.i += 1
            node = self.expr()
            if self.peek()[0] != ')':
                raise _Malformed('expected ")" at token %d' % self.i)
            self.i += 1
            return ('par', node)
        raise _Malformed('expected a number, sign or "(" at token %d' % self.i)


def parse(s):
    toks = lex(s)
    p = _P(toks)
    node = p.expr()
    if p.i != len(toks):
        raise _Malformed('unexpected token %r at token %d' % (p.peek()[1], p.i))
    return node, toks


def _has_mixed(node):
    k = node[0]
    if k == 'num':
        return False
    if k == 'chain':
        ops = set(op for op, _ in node[2])
        if '\\' in ops and len(ops) > 1:
            return True
        return _has_mixed(node[1]) or any(_has_mixed(x) for _, x in node[2])
    if k == 'par':
        return _has_mixed(node[1])
    if k == 'un':
        return _has_mixed(node[2])
    return _has_mixed(node[2]) or _has_mixed(node[3])


def _pow2(fr):
    n, d = abs(fr.numerator), fr.denominator
    return n != 0 and n & (n - 1) == 0 and d & (d - 1) == 0


def _representable(fr):
    """fr is exactly a (normal, small) binary float"""
    d = fr.denominator
    return d & (d - 1) == 0 and fr.numerator.bit_length() <= 53 and d.bit_length() <= 900


def _ev(node, mode):
    """-> (exact value as a Fraction, flag: every grouping/ordering of the float computation is exact)"""
    k = node[0]
    if k == 'num':
        v = Fraction(node[1] if not node[1].startswith('.') else '0' + node[1])
        return v, _representable(v)
    if k == 'par':
        return _ev(node[1], mode)
    if k == 'un':
        v, ex = _ev(node[2], mode)
        return (-v if node[1] == '-' else v), ex
    if k == 'bin':          # + or -
        a, ea = _ev(node[2], mode)
        b, eb = _ev(node[3], mode)
        r = a + b if node[1] == '+' else a - b
        return r, ea and eb and _representable(r)
    # chain of * / or of \ (mixtures were excluded before), evaluated left to right
    acc, ex = _ev(node[1], mode)
    acc_lit = _is_literal(node[1])
    ops = [op for op, _ in node[2]]
    # `a*b/c` may legitimately be computed as a*(b/c): with more than one operator and a division in the chain
    # the float result is only grouping-independent when every divisor is a power of two
    regroupable = len(ops) > 1 and '/' in ops
    for op, operand in node[2]:
        b, eb = _ev(operand, mode)
        if op == '*':
            acc = acc * b
            ex = ex and eb and _representable(acc)
            acc_lit = False
            continue
        if b == 0:
            if not eb:
                raise _Unspecified('divisor is exactly zero but was computed with rounding')
            raise _ZDE()
        q = acc / b
        if op == '/':
            ex = ex and eb and _representable(q) and (not regroupable or _pow2(b))
            acc = q
        else:
            fl = _to_int(q, mode)
            if not (ex and eb) and abs(q - round(q)) < Fraction(1, 10 ** 6):
                # The quotient is (next to) an integer and an operand is not exact in binary floating point.
                # Decidable only when both operands are number *literals* (possibly signed / parenthesised) or exact:
                # then the float each operand holds is the correctly rounded literal, and the natural evaluation
                # "one correctly rounded division, then round down" is fully determined by IEEE 754.  If that natural
                # evaluation reproduces the decimal result (1\.1 = 10, 2\.4 = 5) the decimal result is demanded -- an
                # implementation that rounds down the *unrounded* quotient of the two floats (Python's `a // b`: 9 and
                # 4) contradicts ordinary arithmetic although binary floating point can deliver it.  If even the
                # natural evaluation cannot (.3\.1: .3/.1 == 2.9999999999999996), the case stays undecided.
                if not ((ex or acc_lit) and (eb or _is_literal(operand))):
                    raise _Unspecified('integer division of a rounded quotient next to an integer')
                qf = Fraction(float(Fraction(float(acc)) / Fraction(float(b))))     # both conversions round correctly
                if _to_int(qf, mode) != fl:
                    raise _Unspecified('integer division of literals whose decimal quotient binary floating point cannot reproduce')
            acc = Fraction(fl)
            ex = _representable(acc)
        acc_lit = False
    return acc, ex


def _to_int(q, mode):
    fl = q.numerator // q.denominator
    if mode == 'trunc' and q < 0 and q.denominator != 1:
        fl += 1
    return fl


def _is_literal(node):
    """a number literal, possibly signed and/or parenthesised: its float is the correctly rounded decimal value"""
    while node[0] in ('par', 'un'):
        node = node[1] if node[0] == 'par' else node[2]
    return node[0] == 'num'


def _tags(toks):
    """syntactic labels used only in messages (they map violations to the known candidate defects)"""
    tags = []
    prev = None          # previous significant token: None | 'n' | '(' | ')' | 'b'+op (binary operator) | 'u-' (unary minus)
    for k, v in toks:
        if k == 'o' and v in '+-' and (prev is None or prev == '(' or prev == 'u-' or prev.startswith('b')):
            if v == '-':     # (a unary plus is transparent)
                if prev in ('u-', 'b/', 'b\\') and not tags:
                    tags.append('unary-minus-after-division-or-unary-minus')
                prev = 'u-'
            continue
        prev = ('b' + v) if k == 'o' else k
    return tags


def classify(s, modes=('floor', 'trunc')):
    try:
        node, toks = parse(s)
    except _Malformed as e:
        depth = 0
        tags = []
        for ch in s:
            if ch == '(':
                depth += 1
            elif ch == ')':
                depth -= 1
                if depth < 0:
                    tags.append('unmatched-closing-parenthesis')
                    break
        return ('malformed', str(e), tags)
    except _Unspecified as e:
        return ('unspecified', str(e))
    if s and s[-1] in WS and not TRAILING_SPACE_IS_WELLFORMED:
        return ('unspecified', 'trailing white space after a complete expression')
    if _has_mixed(node):
        return ('unspecified', 'unparenthesised chain mixing \\ with * or /')
    outcomes = []
    for mode in modes:
        try:
            v, _ = _ev(node, mode)
        except _ZDE:
            v = 'zde'
        except _Unspecified as e:
            return ('unspecified', str(e))
        if v not in outcomes:
            outcomes.append(v)
    return ('ok', outcomes, _tags(toks))


# ------------------------------------------------------------------ generators (grammar-directed)

NUMS = ['2', '3.5', '.5']


def wellformed(k, _memo={}):
    """all well-formed token tuples with exactly k tokens (no spaces) over NUMS, the five operators, signs, ( )"""
    def P(k):
        key = ('P', k)
        if key not in _memo:
            out = [(x,) for x in NUMS] if k == 1 else []
            if k >= 3:
                out += [('(',) + e + (')',) for e in E(k - 2)]
            _memo[key] = out
        return _memo[key]

    def U(k):
        key = ('U', k)
        if key not in _memo:
            out = list(P(k))
            if k >= 2:
                out += [(s,) + u for s in '+-' for u in U(k - 1)]
            _memo[key] = out
        return _memo[key]

    def T(k):
        key = ('T', k)
        if key not in _memo:
            out = list(U(k))
            for i in range(1, k - 1):
                for t in T(i):
                    for op in '*/\\':
                        for u in U(k - 1 - i):
                            out.append(t + (op,) + u)
            _memo[key] = out
        return _memo[key]

    def E(k):
        key = ('E', k)
        if key not in _memo:
            out = list(T(k))
            for i in range(1, k - 1):
                for e in E(i):
                    for op in '+-':
                        for t in T(k - 1 - i):
                            out.append(e + (op,) + t)
            _memo[key] = out
        return _memo[key]

    return E(k)


def random_expr(rng, depth):
    """a random well-formed expression string (multi-digit numbers, zeros, spaces, nested parentheses)"""
    def num():
        r = rng.random()
        if r < 0.06:
            return '0'
        if r < 0.5:
            return str(rng.randint(1, 12))
        if r < 0.7:
            return '%d.%d' % (rng.randint(0, 20), rng.choice([5, 25, 125, 75, 0, 1, 3]))
        return '.%d' % rng.choice([5, 25, 75, 125, 1])

    def sp():
        return ' ' * (rng.random() < 0.15)

    def primary(d):
        if d <= 0 or rng.random() < 0.7:
            return num()
        return '(' + sp() + expr(d - 1) + sp() + ')'

    def unary(d):
        r = rng.random()
        if r < 0.15:
            return '-' + sp() + unary(d)
        if r < 0.18:
            return '+' + sp() + unary(d)
        return primary(d)

    def term(d):
        s = unary(d)
        # one operator family per chain so that most cases stay inside the covered part of the statement
        fam = rng.choice(['*/', '*/', '\\', '*', '/'])
        for _ in range(rng.choice([0, 0, 0, 1, 1, 2])):
            s += sp() + rng.choice(fam) + sp() + unary(d)
        return s

    def expr(d):
        s = term(d)
        for _ in range(rng.choice([0, 0, 1, 1, 2])):
            s += sp() + rng.choice('+-') + sp() + term(d)
        return s

    return sp() + expr(depth)


def mutate(rng, s):
    """break (or not) an expression by one small edit: drop / duplicate / replace / insert a character"""
    alpha = '0123456789.+-*/\\() '
    if not s:
        return rng.choice(alpha)
    i = rng.randrange(len(s))
    r = rng.random()
    if r < 0.3:
        return s[:i] + s[i + 1:]
    if r < 0.5:
        return s[:i] + s[i] + s[i:]
    if r < 0.75:
        return s[:i] + rng.choice(alpha) + s[i + 1:]
    return s[:i] + rng.choice(alpha) + s[i:]
