"""C20 -- configuration layers override each other in the documented order.

Layers, least to most specific (statement):
    0 built-in defaults                (emmet.config.DEFAULT_CONFIG)
    1 defaults of the abbreviation type (SYNTAX_CONFIG[type])
    2 defaults of the syntax            (SYNTAX_CONFIG[syntax])
    3 global config for the type        (global_config[type])
    4 global config for the syntax      (global_config[syntax])
    5 the call's own config             (user config)

Clauses (see notes/C20.md):

  config-layers     F  every known syntax of both types (+ default syntax, + no type) x every subset of the five
                       overriding layers giving marker values to an option, a snippet and a variable (a new key and
                       a key the built-in tables already define): the resolved Config equals `spec_layers` key by
                       key; built-in tables and the caller's dictionaries are deep-equal before/after
  unknown-syntax    F  unknown syntax names x every subset of the four layers that exist for them
  expand-layers     B  the same grid observed through emmet.expand(abbr, config, global_config) output
  documented-defaults F the built-in per-syntax layers say what README / tests document (xhtml ` /`, stylus, jsx ...)
  random-layers     B  seeded random layer contents (several keys per layer, random overlap)

Layers 1 and 2 are built-in tables.  To give them marker values the check function replaces the
*top-level entry* `SYNTAX_CONFIG[name]` by an extended copy for the duration of one case (the original
objects are never written to) and puts the original entry back in a `finally`.
"""
import copy
import random
import re

from .common import Clause, run_parallel

SECTIONS = ('options', 'snippets', 'variables')
MARKUP_SYNTAXES = ['html', 'xml', 'xsl', 'jsx', 'js', 'pug', 'slim', 'haml', 'vue', 'svelte', 'xhtml']
STYLESHEET_SYNTAXES = ['css', 'sass', 'scss', 'less', 'sss', 'stylus']
DEFAULT_SYNTAX = {'markup': 'html', 'stylesheet': 'css'}
LAYER_NAMES = ['built-in defaults', 'type defaults', 'syntax defaults', 'global[type]', 'global[syntax]', 'call config']
_MISSING = object()

# keys that receive markers: a new key and a key already defined by a built-in table
OPTION_NEW, OPTION_OLD = 'verif.marker', 'output.indent'
OPTION_OLD_CSS = 'stylesheet.after'
VAR_NEW, VAR_OLD = 'zzvar', 'lang'
SNIP_NEW = 'zzmark'
SNIP_OLD = {'markup': 'bq', 'stylesheet': 'm'}


def marker(family, layer):
    """family O (option) / V (variable): a string that cannot occur otherwise"""
    return '%sL%d%s' % (family, layer, family)


def snippet_marker(stype, which, layer):
    letter = 'abcdef'[layer]
    if stype == 'stylesheet':
        return 'zz-%s-%s:val' % (which, letter)          # a property snippet `zz-new-d: val`
    return 'section.S%s%s' % (which, letter)             # an element with a marker class


# --------------------------------------------------------------------------------------------
# specification
# --------------------------------------------------------------------------------------------


def spec_layers(section, layers):
    """layers: the six tables for `section` (None when the layer does not mention the section), least specific first.
    -> {key: (value, index of the most specific layer defining it)}"""
    result = {}
    for i, table in enumerate(layers):
        if not table:
            continue
        for k, v in table.items():
            result[k] = (v, i)
    return result


def layer_tables(section, stype, syntax, user, glob):
    import emmet.config as C
    return [
        C.DEFAULT_CONFIG.get(section),
        C.SYNTAX_CONFIG.get(stype, {}).get(section),
        C.SYNTAX_CONFIG.get(syntax, {}).get(section),
        glob.get(stype, {}).get(section),
        glob.get(syntax, {}).get(section),
        user.get(section),
    ]


# --------------------------------------------------------------------------------------------
# building a case
# --------------------------------------------------------------------------------------------


def section_masks(mo, ms, mv):
    """one subset of the five overriding layers per section (bit i-1 = layer i)"""
    return {'options': mo, 'snippets': ms, 'variables': mv}


def derived(mask):
    """quick tier: a different subset per section, each running through all 32 subsets as `mask` does"""
    return (mask, (mask * 7 + 3) % 32, (mask * 11 + 5) % 32)


def build_layers(stype, masks, skip_syntax_defaults=False):
    """-> {layer index 1..5: {section: {key: marker}}} for the bits set in masks[section]"""
    content = {}
    for section in SECTIONS:
        m = masks[section]
        for layer in range(1, 6):
            if not (m >> (layer - 1)) & 1:
                continue
            if layer == 2 and skip_syntax_defaults:
                continue
            if section == 'options':
                kv = {OPTION_NEW: marker('N', layer), OPTION_OLD: marker('O', layer)}
                if stype == 'stylesheet':
                    kv[OPTION_OLD_CSS] = ';' + marker('A', layer)
            elif section == 'variables':
                kv = {VAR_NEW: marker('W', layer), VAR_OLD: marker('V', layer)}
            else:
                kv = {SNIP_NEW: snippet_marker(stype, 'new', layer), SNIP_OLD[stype]: snippet_marker(stype, 'old', layer)}
            content.setdefault(layer, {})[section] = kv
    return content


class patched_tables:
    """temporarily extend SYNTAX_CONFIG[stype] / SYNTAX_CONFIG[syntax] (layers 1 and 2) by copies"""

    def __init__(self, stype, syntax, content):
        self.todo = []
        if 1 in content:
            self.todo.append((stype, content[1]))
        if 2 in content:
            self.todo.append((syntax, content[2]))
        self.saved = []

    def __enter__(self):
        import emmet.config as C
        for name, extra in self.todo:
            orig = C.SYNTAX_CONFIG.get(name, _MISSING)
            self.saved.append((name, orig))
            new = dict(orig) if orig is not _MISSING else {}
            for section, kv in extra.items():
                d = dict(new.get(section, {}))
                d.update(kv)
                new[section] = d
            C.SYNTAX_CONFIG[name] = new
        return self

    def __exit__(self, *a):
        import emmet.config as C
        for name, orig in reversed(self.saved):
            if orig is _MISSING:
                C.SYNTAX_CONFIG.pop(name, None)
            else:
                C.SYNTAX_CONFIG[name] = orig
        return False


def caller_configs(stype, syntax, eff_type, eff_syntax, content):
    user = {}
    if stype is not None:
        user['type'] = stype
    if syntax is not None:
        user['syntax'] = syntax
    if 5 in content:
        for section, kv in content[5].items():
            user[section] = dict(kv)
    glob = {}
    if 3 in content:
        glob[eff_type] = {s: dict(kv) for s, kv in content[3].items()}
    if 4 in content:
        g = glob.setdefault(eff_syntax, {})
        for s, kv in content[4].items():
            g.setdefault(s, {}).update(kv)       # (eff_type == eff_syntax never happens in the generated cases)
    return user, glob


def snapshot_tables():
    import emmet.config as C
    import emmet.snippets as S
    import emmet.snippets.css as Scss
    import emmet.snippets.html as Shtml
    import emmet.snippets.xsl as Sxsl
    import emmet.snippets.pug as Spug
    tabs = {
        'DEFAULT_CONFIG': C.DEFAULT_CONFIG, 'DEFAULT_OPTIONS': C.DEFAULT_OPTIONS, 'SYNTAX_CONFIG': C.SYNTAX_CONFIG,
        'DEFAULT_SYNTAXES': C.DEFAULT_SYNTAXES, 'SYNTAXES': C.SYNTAXES,
        'markup_snippets': S.markup_snippets, 'stylesheet_snippets': S.stylesheet_snippets, 'xsl_snippets': S.xsl_snippets,
        'pug_snippets': S.pug_snippets, 'variables': S.variables,
        'raw css': Scss.snippets, 'raw html': Shtml.snippets, 'raw xsl': Sxsl.snippets, 'raw pug': Spug.snippets,
    }
    return tabs, {k: copy.deepcopy(v) for k, v in tabs.items()}


def changed_tables(tabs, snap):
    return [k for k in tabs if tabs[k] != snap[k]]


def describe(v):
    s = repr(v)
    return s if len(s) < 80 else s[:77] + '...'


def compare_section(section, got, layers):
    exp = spec_layers(section, layers)
    if not isinstance(got, dict):
        return '%s is %r, not a dict' % (section, got)
    for k, (v, i) in exp.items():
        if k not in got:
            return '%s[%r] is missing; the %s layer defines it as %s' % (section, k, LAYER_NAMES[i], describe(v))
        if got[k] != v and got[k] is not v:
            origin = [LAYER_NAMES[j] for j, t in enumerate(layers) if t and k in t and (t[k] == got[k] or t[k] is got[k])]
            return '%s[%r] = %s%s, but the most specific layer defining it is %s with %s' % (
                section, k, describe(got[k]), ' (the value of: %s)' % ', '.join(origin) if origin else '', LAYER_NAMES[i], describe(v))
    extra = [k for k in got if k not in exp]
    if extra:
        return '%s has keys no layer defines: %r' % (section, extra[:5])
    return None


# --------------------------------------------------------------------------------------------
# checks
# --------------------------------------------------------------------------------------------


def _effective(stype, syntax):
    eff_type = stype if stype is not None else 'markup'
    eff_syntax = syntax if syntax is not None else DEFAULT_SYNTAX.get(eff_type, 'html')
    return eff_type, eff_syntax


def run_config_case(stype, syntax, content, tag):
    from emmet.config import Config
    eff_type, eff_syntax = _effective(stype, syntax)
    user, glob = caller_configs(stype, syntax, eff_type, eff_syntax, content)
    with patched_tables(eff_type, eff_syntax, content):
        tabs, snap = snapshot_tables()
        user0, glob0 = copy.deepcopy(user), copy.deepcopy(glob)
        cfg = Config(user, glob)
        if cfg.type != eff_type or cfg.syntax != eff_syntax:
            return '%s: Config resolved type/syntax %r/%r, expected %r/%r' % (tag, cfg.type, cfg.syntax, eff_type, eff_syntax)
        for section in SECTIONS:
            err = compare_section(section, getattr(cfg, section), layer_tables(section, eff_type, eff_syntax, user0, glob0))
            if err:
                return '%s: Config(%r, %r): %s' % (tag, user0, glob0, err)
        # a second resolution sees the same layers (nothing accumulated anywhere)
        cfg2 = Config(user, glob)
        for section in SECTIONS:
            if getattr(cfg2, section) != getattr(cfg, section):
                return '%s: resolving the same configuration twice gives different %s' % (tag, section)
        ch = changed_tables(tabs, snap)
        if ch:
            return '%s: Config(%r, %r) modified built-in table(s) %r' % (tag, user0, glob0, ch)
        if user != user0:
            return '%s: Config() modified the caller\'s config: %r -> %r' % (tag, user0, user)
        if glob != glob0:
            return '%s: Config() modified the caller\'s global config: %r -> %r' % (tag, glob0, glob)
    return None


def check_layers(stype, syntax, mo, ms, mv):
    """known syntax (or default syntax when None): all five overriding layers exist"""
    eff_type, _ = _effective(stype, syntax)
    masks = section_masks(mo, ms, mv)
    return run_config_case(stype, syntax, build_layers(eff_type, masks), 'layers %r' % (masks,))


def check_unknown(stype, syntax, mo, ms, mv):
    """unknown syntax name: there is no syntax-defaults layer; the result must be built from the remaining ones"""
    import emmet.config as C
    if syntax in C.SYNTAX_CONFIG:
        return 'generator error: %r is a known syntax' % syntax
    masks = section_masks(mo, ms, mv)
    err = run_config_case(stype, syntax, build_layers(stype, masks, skip_syntax_defaults=True), 'unknown syntax, layers %r' % (masks,))
    if err:
        return err
    if (mo, ms, mv) == (0, 0, 0):
        # falls back to the type's defaults: same as naming no syntax at all
        a, b = C.Config({'type': stype, 'syntax': syntax}), C.Config({'type': stype})
        for section in SECTIONS:
            if getattr(a, section) != getattr(b, section):
                return 'Config(type=%s, syntax=%r).%s differs from the type\'s defaults' % (stype, syntax, section)
    return None


MARK_RE = re.compile(r'[NOAWV]L\d[NOAWV]|zz-(?:new|old)-[a-f]|S(?:new|old)[a-f]')


def expected_markers(eff, stype, used):
    """marker strings that must be visible in the output: those inside the effective values of the keys the abbreviation uses"""
    want = set()
    for section, key in used:
        v = eff[section].get(key, (None, 0))[0]
        if isinstance(v, str):
            want.update(MARK_RE.findall(v))
    return want


def check_expand(stype, syntax, mo, ms, mv, unknown=False):
    from emmet import expand
    eff_type, eff_syntax = _effective(stype, syntax)
    masks = section_masks(mo, ms, mv)
    content = build_layers(eff_type, masks, skip_syntax_defaults=unknown)
    user, glob = caller_configs(stype, syntax, eff_type, eff_syntax, content)
    tag = 'layers %r' % (masks,)
    with patched_tables(eff_type, eff_syntax, content):
        tabs, snap = snapshot_tables()
        user0, glob0 = copy.deepcopy(user), copy.deepcopy(glob)
        eff = {s: spec_layers(s, layer_tables(s, eff_type, eff_syntax, user0, glob0)) for s in SECTIONS}
        new_snip = SNIP_NEW in eff['snippets']
        new_var = VAR_NEW in eff['variables']
        if eff_type == 'stylesheet':
            parts = ([SNIP_NEW] if new_snip else []) + [SNIP_OLD['stylesheet'] + '10']
            abbr = '+'.join(parts)
            used = [('snippets', SNIP_OLD['stylesheet']), ('options', OPTION_OLD_CSS)] + ([('snippets', SNIP_NEW)] if new_snip else [])
        else:
            abbr = 'div>%s>%s>p{%s${%s}}' % (SNIP_NEW if new_snip else 'nav', SNIP_OLD['markup'], '${%s} ' % VAR_NEW if new_var else '', VAR_OLD)
            used = [('snippets', SNIP_OLD['markup']), ('options', OPTION_OLD), ('variables', VAR_OLD)] + \
                ([('snippets', SNIP_NEW)] if new_snip else []) + ([('variables', VAR_NEW)] if new_var else [])
        out = expand(abbr, user, glob)
        where = '%s: expand(%r, %r, %r)' % (tag, abbr, user0, glob0)
        if not isinstance(out, str):
            return '%s returned %r' % (where, out)
        want = expected_markers(eff, eff_type, used)
        got = set(MARK_RE.findall(out))
        if got != want:
            return '%s = %r shows layer markers %r, but the most specific layers defining the keys give %r' % (where, out, sorted(got), sorted(want))
        # untouched keys keep their built-in meaning
        if eff_type == 'stylesheet':
            opt = {k: v[0] for k, v in eff['options'].items()}
            lines = []
            for key, value in ([(SNIP_NEW, 'val')] if new_snip else []) + [(SNIP_OLD['stylesheet'], '10' + opt['stylesheet.intUnit'])]:
                body = eff['snippets'][key][0]
                prop = body.split(':')[0]
                lines.append(prop + opt['stylesheet.between'] + value + opt['stylesheet.after'])
            exp = opt['output.newline'].join(lines)
            if out != exp:
                return '%s = %r, expected %r' % (where, out, exp)
        else:
            for section, key, builtin_token in (('snippets', SNIP_OLD['markup'], 'blockquote'), ('variables', VAR_OLD, 'en'), ('options', OPTION_OLD, '\n\t')):
                if eff[section][key][1] <= 2 and not MARK_RE.search(str(eff[section][key][0])) and builtin_token not in out:
                    return '%s = %r: no layer overrides %s[%r], yet its built-in effect %r is not visible' % (where, out, section, key, builtin_token)
        ch = changed_tables(tabs, snap)
        if ch:
            return '%s modified built-in table(s) %r' % (where, ch)
        if glob != glob0:
            return '%s modified the caller\'s global config: now %r' % (where, glob)
        for k in ('type', 'syntax') + SECTIONS:
            if user.get(k, _MISSING) != user0.get(k, _MISSING):
                return '%s modified the caller\'s config entry %r: now %r' % (where, k, user.get(k))
        flat = {'type': eff_type, 'syntax': eff_syntax}
        for s in SECTIONS:
            flat[s] = {k: v[0] for k, v in eff[s].items()}
    # the layered call must behave like a call that states every effective value itself (tables restored here)
    out2 = expand(abbr, flat)
    if out2 != out:
        return '%s = %r, but the same effective values given directly in the call config produce %r' % (where, out, out2)
    return None


DOCUMENTED = [
    # (abbr, config, expected, source)
    ['br', {}, '<br>', 'html default'],
    ['br', {'syntax': 'html'}, '<br>', 'html'],
    ['br', {'syntax': 'xhtml'}, '<br />', 'tests: xhtml slash'],
    ['br', {'syntax': 'xml'}, '<br/>', 'xml self-closing'],
    ['br', {'syntax': 'xsl'}, '<br/>', 'xsl is xml'],
    ['div.a', {'syntax': 'jsx'}, '<div className="a"></div>', 'tests: jsx className'],
    ['label[for=a]', {'syntax': 'jsx'}, '<label htmlFor="a"></label>', 'jsx htmlFor'],
    ['div.a', {'syntax': 'html'}, '<div class="a"></div>', 'html class'],
    ['div.a', {'syntax': 'my-custom-syntax'}, '<div class="a"></div>', 'unknown markup syntax -> type defaults'],
    ['p10', {'type': 'stylesheet'}, 'padding: 10px;', 'README'],
    ['p10', {'type': 'stylesheet', 'syntax': 'css'}, 'padding: 10px;', 'README'],
    ['p10', {'type': 'stylesheet', 'syntax': 'scss'}, 'padding: 10px;', 'scss = css conventions'],
    ['p10', {'type': 'stylesheet', 'syntax': 'less'}, 'padding: 10px;', 'less = css conventions'],
    ['p10', {'type': 'stylesheet', 'syntax': 'sass'}, 'padding: 10px', 'sass: no semicolon'],
    ['p10', {'type': 'stylesheet', 'syntax': 'stylus'}, 'padding 10px', 'README'],
    ['p10', {'type': 'stylesheet', 'syntax': 'my-custom-syntax'}, 'padding: 10px;', 'unknown stylesheet syntax -> type defaults'],
    ['p10', {'type': 'stylesheet', 'syntax': 'my-custom-syntax', 'options': {'stylesheet.between': '__', 'stylesheet.after': ''}},
     'padding__10px', 'README'],
]


def check_documented(abbr, config, expected, source):
    from emmet import expand
    out = expand(abbr, copy.deepcopy(config))
    if out != expected:
        return 'expand(%r, %r) = %r, documented (%s): %r' % (abbr, config, out, source, expected)
    return None


# ---- random layer contents -----------------------------------------------------------------

RANDOM_KEYS = {
    'options': ['output.indent', 'output.newline', 'output.tagCase', 'output.selfClosingStyle', 'stylesheet.after', 'stylesheet.between',
                'stylesheet.intUnit', 'bem.element', 'jsx.enabled', 'markup.attributes', 'verif.a', 'verif.b'],
    'snippets': ['a', 'bq', 'm', 'p', 'zza', 'zzb', 'tm', 'doc'],
    'variables': ['lang', 'charset', 'zzv', 'zzw'],
}


def check_random(stype, syntax, seed):
    rnd = random.Random(seed)
    content = {}
    for layer in range(1, 6):
        if rnd.random() < 0.35:
            continue
        for section in SECTIONS:
            if rnd.random() < 0.4:
                continue
            keys = rnd.sample(RANDOM_KEYS[section], rnd.randint(0, 4))
            kv = {}
            for k in keys:
                r = rnd.random()
                kv[k] = '%s@%d' % (k, layer) if r < 0.8 else ({'class': 'L%d' % layer} if r < 0.9 else (None if r < 0.95 else layer))
            content.setdefault(layer, {})[section] = kv
    return run_config_case(stype, syntax, content, 'random layers (seed %d)' % seed)


# --------------------------------------------------------------------------------------------


def known_cases():
    for s in MARKUP_SYNTAXES:
        yield ('markup', s)
    for s in STYLESHEET_SYNTAXES:
        yield ('stylesheet', s)
    yield ('markup', None)          # default syntax of the type
    yield ('stylesheet', None)
    yield (None, None)              # no type: markup / html
    yield (None, 'xhtml')           # syntax without type: markup


UNKNOWN = [('markup', 'my-custom-syntax'), ('stylesheet', 'my-custom-syntax'), ('markup', 'HTML'), ('stylesheet', 'postcss')]


def mask_triples(quick):
    if quick:
        got = [derived(m) for m in range(32)]
        got += [(m, m, m) for m in range(32) if (m, m, m) not in got]
        return got
    return [(mo, ms, (mo * 11 + ms * 7 + 5) % 32) for mo in range(32) for ms in range(32)]


def run(tier, seed):
    quick = tier == 'quick'
    out = []
    known = list(known_cases())
    triples = mask_triples(quick)
    grid = ('64 subset triples (options, snippets, variables): 32 with a different subset per section and the 32 with the same subset in all sections'
            if quick else 'all 32 x 32 subset pairs for (options, snippets), the subset for variables derived from them (all 32 occur)')

    c = Clause('config-layers', 'F', 'every known syntax of both types, the default syntax of each type, no type at all',
               '%d (type, syntax) pairs x subsets of the five overriding layers (type defaults, syntax defaults, global[type], '
               'global[syntax], call config): %s' % (len(known), grid),
               'a case is (type, syntax, subset per section): every layer in the subset gives its own marker value to a new option / snippet / '
               'variable key and to one the built-in tables define; Config(user, global).options/snippets/variables must equal, key by '
               'key, the value of the most specific layer defining the key (whole dictionaries compared, so untouched keys are covered); '
               'built-in tables and caller dictionaries deep-equal before/after', exhaustive=True)
    run_parallel(c, 'bounded.c20', 'check_layers', ((t, s) + m for (t, s) in known for m in triples), chunk=8 if quick else 100)
    out.append(c.done())

    c = Clause('unknown-syntax', 'F', 'unknown syntax names %r' % (UNKNOWN,), 'x the same subset triples (the syntax-defaults bit is void for an '
               'unknown name: 2^4 distinct layerings per section)', 'a case is (type, unknown syntax, subsets): as config-layers with the four '
               'layers that exist; with no layer at all the result equals the type\'s defaults', exhaustive=True)
    run_parallel(c, 'bounded.c20', 'check_unknown', ((t, s) + m for (t, s) in UNKNOWN for m in triples), chunk=8 if quick else 100)
    out.append(c.done())

    c = Clause('expand-layers', 'B', 'the config-layers / unknown-syntax grid observed through emmet.expand(abbr, config, global_config)',
               '%d known + %d unknown (type, syntax) pairs x the same subset triples; one abbreviation per case using the marker snippet(s), marker '
               'variable(s) and a marker option (output.indent for markup, stylesheet.after for stylesheets)' % (len(known), len(UNKNOWN)),
               'a case is (type, syntax, subsets): the output shows exactly the markers of the most specific defining layers (stylesheets: '
               'the exact expected lines), untouched keys keep their built-in effect, tables / caller dictionaries unchanged, and the '
               'output equals that of a call stating every effective value directly', exhaustive=True)
    cases = [(t, s) + m + (False,) for (t, s) in known for m in triples] + [(t, s) + m + (True,) for (t, s) in UNKNOWN for m in triples]
    run_parallel(c, 'bounded.c20', 'check_expand', cases, chunk=8 if quick else 60)
    out.append(c.done())

    c = Clause('documented-defaults', 'F', 'the documented effects of the built-in per-syntax layers (README, tests)', '%d fixed expansions' % len(DOCUMENTED),
               'a case is (abbreviation, config, documented output)', exhaustive=True)
    run_parallel(c, 'bounded.c20', 'check_documented', DOCUMENTED, chunk=4)
    out.append(c.done())

    n = 6000 if quick else 300000
    rnd = random.Random(seed)
    pairs = known + UNKNOWN
    c = Clause('random-layers', 'B', 'random.Random(seed): each of the five overriding layers present with p=0.65, each section with p=0.6, 0..4 keys '
               'per section from a pool of built-in and new keys, values strings / dicts / None / ints', '%d cases, seed %d' % (n, seed),
               'a case is (type, syntax, case seed); same oracle as config-layers', exhaustive=False)
    run_parallel(c, 'bounded.c20', 'check_random', ((p[0], p[1], rnd.randrange(10 ** 9)) for p in (pairs[i % len(pairs)] for i in range(n))), chunk=50)
    out.append(c.done())
    return out
