"""bounded.common -- bookkeeping for the bounded stand-in (B) and finite-domain (F) clauses.

Runs under /venv/bin/python (stdlib only) against the real code in $PYVC_REPO (default /repo).
A clause explores generated cases with a *check function* `f(*args) -> None | str`; a string is
a description of what failed.  Every violation carries a replay record (check function + JSON
arguments) so that `bounded.run <ID> --replay file` re-runs exactly that case.
"""
import json
import os
import sys
import time

REPO = os.environ.get('PYVC_REPO', '/repo')
if REPO not in sys.path:
    sys.path.insert(0, REPO)
if '/verif' not in sys.path:
    sys.path.insert(0, '/verif')

NPROC = int(os.environ.get('VERIF_NPROC', '14'))


class Clause:
    def __init__(self, name, kind, generator, bound, rule, exhaustive=False):
        assert kind in ('B', 'F')
        self.name = name
        self.kind = kind            # 'B' bounded stand-in, 'F' complete finite-domain enumeration
        self.generator = generator
        self.bound = bound
        self.rule = rule
        self.exhaustive = exhaustive
        self.evaluations = 0
        self.distinct = set()
        self.samples = []
        self.violations = []
        self.t0 = time.time()
        self.secs = 0.0

    def case(self, key, nontrivial=True):
        self.evaluations += 1
        if nontrivial:
            self.distinct.add(hash(key))
        if len(self.samples) < 4 and nontrivial and (self.evaluations % 7 == 1 or self.evaluations < 3):
            self.samples.append(key if isinstance(key, (str, int, list, dict)) else repr(key))

    def add_counts(self, evaluations, distinct_hashes, samples=()):
        self.evaluations += evaluations
        self.distinct.update(distinct_hashes)
        for s in samples:
            if len(self.samples) < 4:
                self.samples.append(s)

    def violation(self, key, what, func, args):
        """key: stable identification of the failing input (used by known_findings.json)"""
        if len(self.violations) < 50:
            self.violations.append({'key': key, 'what': what, 'replay': {'func': func, 'args': args}})

    def done(self):
        self.secs = time.time() - self.t0
        return self

    def to_json(self):
        return {'clause': self.name, 'kind': self.kind, 'generator': self.generator, 'bound': self.bound,
                'rule': self.rule, 'exhaustive': self.exhaustive, 'evaluations': self.evaluations,
                'distinct_nontrivial': len(self.distinct), 'samples': self.samples,
                'violations': self.violations, 'secs': round(self.secs or (time.time() - self.t0), 2)}


def run_cases(clause, func_name, func, cases, key_of=None, nontrivial=None, pool=None):
    """drive `func(*args)` over an iterable of argument tuples (JSON-serialisable)"""
    for args in cases:
        key = key_of(args) if key_of else json.dumps(args, ensure_ascii=True, default=repr)
        clause.case(key, True if nontrivial is None else nontrivial(args))
        try:
            what = func(*args)
        except Exception as e:  # an oracle crash must be visible, not silent
            what = 'oracle or code raised %s: %s' % (type(e).__name__, e)
        if what:
            clause.violation(key, what, func_name, list(args))


def chunked(seq, n):
    buf = []
    for x in seq:
        buf.append(x)
        if len(buf) >= n:
            yield buf
            buf = []
    if buf:
        yield buf


_STOP_EVENT = None      # set by run_parallel before the pool forks; workers skip their chunk once it is set


def _worker(job):
    modname, fname, chunk = job
    if _STOP_EVENT is not None and _STOP_EVENT.is_set():
        return 0, [], []
    import importlib
    f = getattr(importlib.import_module(modname), fname)
    out = []
    hashes = []
    for args in chunk:
        key = json.dumps(args, ensure_ascii=True, default=repr)
        hashes.append(hash(key))
        try:
            what = f(*args)
        except Exception as e:
            what = 'oracle or code raised %s: %s' % (type(e).__name__, e)
        if what:
            out.append((key, what, list(args)))
    return len(chunk), hashes, out


def run_parallel(clause, modname, fname, cases, chunk=2000, max_violations=50):
    """same as run_cases but on a process pool; func is addressed by module/function name"""
    import multiprocessing as mp
    func_name = '%s:%s' % (modname, fname)
    global _STOP_EVENT
    _STOP_EVENT = mp.Event()
    with mp.Pool(NPROC) as pool:
        jobs = ((modname, fname, c) for c in chunked(cases, chunk))
        for n, hashes, out in pool.imap_unordered(_worker, jobs):
            clause.evaluations += n
            clause.distinct.update(hashes)
            for key, what, args in out:
                if len(clause.samples) < 4:
                    pass
                clause.violation(key, what, func_name, args)
            if len(clause.violations) >= max_violations:
                # the clause is decided (the check exits 1 with these replay records): the remaining cases are not
                # run -- on a tree where every failing case costs a time-out this keeps the check within minutes.
                # Never taken on a tree that holds the property (no violation is recorded there).
                # (no pool.terminate(): it can dead-lock while results are in flight; the workers see the event and
                # return at once, the loop drains what is queued)
                clause.stopped_early = True
                _STOP_EVENT.set()
    return clause
