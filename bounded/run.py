"""bounded.run -- /venv/bin/python -m bounded.run <ID> --tier quick|thorough --seed N --out file
                  /venv/bin/python -m bounded.run <ID> --replay file"""
import argparse
import importlib
import json
import sys

from . import common  # noqa  (sets sys.path)


def main():
    ap = argparse.ArgumentParser()
    ap.add_argument('pid')
    ap.add_argument('--tier', default='quick')
    ap.add_argument('--seed', type=int, default=0)
    ap.add_argument('--out')
    ap.add_argument('--replay')
    a = ap.parse_args()
    if a.replay:
        rec = json.load(open(a.replay))
        rp = rec['violation']['replay']
        modname, fname = rp['func'].split(':')
        f = getattr(importlib.import_module(modname), fname)
        try:
            what = f(*rp['args'])
        except Exception as e:
            what = 'raised %s: %s' % (type(e).__name__, e)
        if what:
            print('REPLAY property=%s clause=%s still fails: %s' % (rec['property'], rec['clause'], what))
            return 1
        print('REPLAY property=%s clause=%s passes now' % (rec['property'], rec['clause']))
        return 0
    mod = importlib.import_module('bounded.' + a.pid.lower())
    clauses = mod.run(a.tier, a.seed)
    res = {'property': a.pid, 'tier': a.tier, 'seed': a.seed, 'clauses': [c.done().to_json() if c.secs == 0 else c.to_json() for c in clauses]}
    if a.out:
        json.dump(res, open(a.out, 'w'), default=repr)
    else:
        json.dump(res, sys.stdout, indent=1, default=repr)
    return 0


if __name__ == '__main__':
    sys.exit(main())
