#!/opt/veriftools/pyvenv/bin/python
"""check.py -- one property, one tier.

  python3-vt check.py <ID> [--tier quick|thorough] [--seed N]
  python3-vt check.py <ID> --replay <file>
  python3-vt check.py --selfcheck

exit 0  every obligation discharged, every finite domain enumerated, every bounded
        exploration finished without a contract failure
exit 1  VIOLATION property=<id> replay=<path> [obligation=<name> no-failing-input-found]
exit 0  also when some obligation is only UNDECIDED (solver unknown, unsupported construct, stale contract):
        UNDECIDED lines are printed, the evidence shows discharged < obligations; never a VIOLATION
exit 3  checker crash
"""
import argparse
import hashlib
import json
import multiprocessing as mp
import os
import re
import subprocess
import sys
import time

HERE = os.path.dirname(os.path.abspath(__file__))
sys.path.insert(0, HERE)
REPO = os.environ.get('PYVC_REPO', '/repo')
VENV_PY = '/venv/bin/python'
NPROC = int(os.environ.get('VERIF_NPROC', '14'))
# developer switch (seeded-change evaluation): write evidence and replays somewhere else so that a run
# against a scratch copy of the repository does not overwrite the evidence of /repo itself
EVID = os.environ.get('VERIF_EVIDENCE_DIR', os.path.join(HERE, 'evidence'))
REPLAYS = os.environ.get('VERIF_REPLAY_DIR', os.path.join(HERE, 'replays'))


def load_registry():
    from pyvc.contracts import REG
    import contracts  # noqa
    return REG


def verify_one(key):
    from pyvc.run import Verifier
    from pyvc import smt
    load_registry()
    before = {k: list(v) for k, v in smt.STATS.items()}
    v = Verifier()
    r = v.verify(key)
    obs = []
    for o in r['obligations']:
        obs.append({'fn': o.fn, 'kind': o.kind, 'line': o.line, 'text': o.text, 'verdict': o.verdict,
                    'backend': o.backend, 'secs': round(o.secs, 4), 'model': o.model,
                    'trace': o.trace if o.verdict != 'unsat' else None, 'name': o.name})
    stats = {k: [smt.STATS[k][0] - before.get(k, [0, 0.0])[0], smt.STATS[k][1] - before.get(k, [0, 0.0])[1]]
             for k in smt.STATS}
    return {'key': key, 'status': r['status'], 'reason': r['reason'], 'binding': r['binding'],
            'sha256': r.get('sha256'), 'file': r.get('file'), 'secs': round(r['secs'], 3),
            'paths': r['paths'], 'exits': r['exits'], 'unmodelled': r['unmodelled'],
            'obligations': obs, 'assumptions': sorted(v.assumptions), 'solver': stats}


def stable_ob_id(o):
    "identity of an obligation that survives line shifts: function, kind, clause text"
    return '%s#%s "%s"' % (o['fn'], o['kind'].split('[')[0] + ('[' + o['kind'].split('[')[1] if '[' in o['kind'] else ''), o['text'])


def replay_obligation(o, budget, search=False):
    """replay the solver's counter-model on the real code; with search=True (solver said `unknown`, there is
    no model) only the contract-directed bounded search of the real function is made"""
    if not o.get('model') and not search:
        return None
    try:
        p = subprocess.run([VENV_PY, '-m', 'monitor.replay', '--key', o['fn'], '--model', json.dumps(o.get('model') or {}, default=repr),
                            '--budget', str(budget)], cwd=HERE, capture_output=True, text=True, timeout=budget + 60,
                           env=dict(os.environ, PYVC_REPO=REPO))
        line = p.stdout.strip().splitlines()[-1] if p.stdout.strip() else ''
        return json.loads(line)
    except Exception as e:
        return {'confirmed': False, 'error': repr(e)}


def run_bounded(pid, tier, seed):
    mod = os.path.join(HERE, 'bounded', pid.lower() + '.py')
    if not os.path.exists(mod):
        return None
    out = os.path.join(EVID, '.%s.bounded.json' % pid)
    os.makedirs(os.path.dirname(out), exist_ok=True)
    if os.path.exists(out):
        os.unlink(out)
    p = subprocess.run([VENV_PY, '-m', 'bounded.run', pid, '--tier', tier, '--seed', str(seed), '--out', out],
                       cwd=HERE, capture_output=True, text=True, env=dict(os.environ, PYVC_REPO=REPO))
    if not os.path.exists(out):
        return {'crash': True, 'stderr': p.stderr[-4000:], 'stdout': p.stdout[-2000:]}
    r = json.load(open(out))
    os.unlink(out)
    return r


def load_known():
    p = os.path.join(HERE, 'known_findings.json')
    if not os.path.exists(p):
        return {'findings': [], 'fixed': []}
    return json.load(open(p))


def scan_assumption_markers():
    "mechanical scan of /verif/contracts for trusted / except_known markers"
    hits = []
    d = os.path.join(HERE, 'contracts')
    for fn in sorted(os.listdir(d)):
        if not fn.endswith('.py'):
            continue
        for i, line in enumerate(open(os.path.join(d, fn), encoding='utf-8'), 1):
            s = line.strip()
            if s.startswith('#'):
                continue
            if 'trusted=True' in s or 'except_known' in s or 'assume(' in s:
                hits.append('%s:%d: %s' % (fn, i, s[:160]))
    return hits


def main():
    ap = argparse.ArgumentParser()
    ap.add_argument('pid', nargs='?')
    ap.add_argument('--tier', default=os.environ.get('VERIF_TIER', 'quick'))
    ap.add_argument('--seed', type=int, default=int(os.environ.get('VERIF_SEED', '0')))
    ap.add_argument('--replay')
    ap.add_argument('--selfcheck', action='store_true')
    ap.add_argument('--no-bounded', action='store_true')
    ap.add_argument('--only', help='comma separated function keys (developer use)')
    a = ap.parse_args()
    if a.selfcheck:
        return selfcheck()
    if a.replay:
        return do_replay(a.pid, a.replay)
    pid = a.pid
    t0 = time.time()
    # solver budgets: a changed function whose obligations all go `unknown` must not stall the check
    os.environ.setdefault('PYVC_FN_BUDGET_S', '150' if a.tier == 'quick' else '900')
    os.environ.setdefault('PYVC_EXT_S', '10' if a.tier == 'quick' else '30')
    REG = load_registry()
    keys = [k for k, c in REG.fns.items() if pid in c.props and not c.inline and not c.trusted]
    if a.only:
        keys = a.only.split(',')
    inline_keys = [k for k, c in REG.fns.items() if pid in c.props and c.inline]
    trusted_keys = [k for k, c in REG.fns.items() if pid in c.props and c.trusted]
    known = load_known()
    results = []
    if keys:
        with mp.Pool(min(NPROC, len(keys))) as pool:
            results = pool.map(verify_one, keys, chunksize=1)
    violations = []      # (text for VIOLATION line, replay path)
    undecided = []
    crashes = []
    known_lines = []
    n_ob = n_dis = 0
    kinds = {}
    backends = {}
    solver_secs = 0.0
    fn_records = []
    samples = []
    assumptions = set()
    unmodelled = []
    replay_dir = os.path.join(REPLAYS, pid)
    if os.path.isdir(replay_dir):
        for f in os.listdir(replay_dir):
            os.unlink(os.path.join(replay_dir, f))
    budget = 20 if a.tier == 'quick' else 90
    for r in results:
        assumptions.update(r['assumptions'])
        unmodelled.extend('%s: %s' % (r['key'], u) for u in r['unmodelled'])
        per_kind = {}
        for o in r['obligations']:
            n_ob += 1
            k0 = o['kind'].split('[')[0]
            per_kind[k0] = per_kind.get(k0, 0) + 1
            kinds[k0] = kinds.get(k0, 0) + 1
            if o['verdict'] == 'unsat':
                n_dis += 1
                backends[o['backend']] = backends.get(o['backend'], 0) + 1
            solver_secs += o['secs']
        fn_records.append({'function': r['key'], 'file': r['file'], 'sha256': r['sha256'], 'binding': r['binding'],
                           'status': r['status'], 'obligations': len(r['obligations']),
                           'discharged': sum(1 for o in r['obligations'] if o['verdict'] == 'unsat'),
                           'by_kind': per_kind, 'paths': r['paths'], 'exits': r['exits'], 'secs': r['secs']})
        if r['obligations'] and len(samples) < 6:
            o = r['obligations'][len(r['obligations']) // 2]
            samples.append({'obligation': o['name'], 'verdict': o['verdict'], 'backend': o['backend']})
        if r['status'] == 'crash':
            crashes.append('%s: %s' % (r['key'], r['reason']))
            continue
        if r['status'] == 'undecided' and not any(o['verdict'] == 'sat' for o in r['obligations']):
            undecided.append('%s reason=%s' % (r['key'], r['reason']))
        if r['status'] == 'ok' and not r['obligations']:
            crashes.append('%s: zero obligations generated' % r['key'])
        # failed obligations: group by stable id, replay the first of each group
        seen = set()
        unknown = [o for o in r['obligations'] if o['verdict'] == 'unknown']
        if unknown and not any(o['verdict'] == 'sat' for o in r['obligations']):
            # The solver neither proved nor refuted these obligations, so there is no counter-model.  The real
            # function (for a closure: the function that defines it) is searched under the same contract at
            # run time; only an input that breaks it on the real code turns `undecided` into a violation.
            # prefer an obligation for which the quantifier-free facts alone have a model: that candidate entry
            # state is replayed first (it decides nothing unless the real code fails on it)
            o = next((u for u in unknown if u.get('model')), unknown[0])
            sid = stable_ob_id(o)
            kf = [f for f in known['findings'] if f.get('status') == 'known' and f.get('property') == pid
                  and f.get('layer') == 'deductive' and f.get('obligation') == sid]
            rp = None if kf else replay_obligation(o, budget, search=True)
            if rp and rp.get('confirmed') and o['kind'] not in ('raises', 'aorte') and \
                    'raises' in str((rp.get('outcome') or {}).get('kind', '')):
                # The searched / candidate input made the real function raise, but the undecided obligation is not
                # about exceptions: inputs outside the (unstated) typing discipline of the callers do that (a bare
                # `Token` in a name list).  Not the failure this obligation describes: it decides nothing.
                rp = None
            if rp and rp.get('confirmed'):
                os.makedirs(replay_dir, exist_ok=True)
                path = os.path.join(replay_dir, 'ob-%s.json' % hashlib.sha1(sid.encode()).hexdigest()[:10])
                json.dump({'property': pid, 'layer': 'deductive', 'obligation': o['name'], 'obligation_id': sid,
                           'function': o['fn'], 'kind': o['kind'], 'clause': o['text'], 'path_trace': o['trace'],
                           'solver': {'verdict': 'unknown', 'backend': o['backend'],
                                      'output': 'no model: every back end returned unknown on this obligation'},
                           'undecided_obligations': [u['name'] for u in unknown],
                           'replay': rp}, open(path, 'w'), indent=1, default=repr)
                violations.append('VIOLATION property=%s replay=%s obligation=%s' % (pid, path, json.dumps(sid)))
                unknown = []
            elif kf:
                known_lines.append('KNOWN-FINDING: property=%s %s' % (pid, kf[0]['what']))
        for o in r['obligations']:
            if o['verdict'] == 'unknown':
                if unknown:
                    undecided.append('%s reason=solver-unknown' % o['name'])
                continue
            if o['verdict'] != 'sat':
                continue
            sid = stable_ob_id(o)
            if sid in seen:
                continue
            seen.add(sid)
            kf = [f for f in known['findings'] if f.get('status') == 'known' and f.get('property') == pid
                  and f.get('layer') == 'deductive' and f.get('obligation') == sid]
            if kf:
                known_lines.append('KNOWN-FINDING: property=%s %s' % (pid, kf[0]['what']))
                continue
            rp = replay_obligation(o, budget)
            os.makedirs(replay_dir, exist_ok=True)
            path = os.path.join(replay_dir, 'ob-%s.json' % hashlib.sha1(sid.encode()).hexdigest()[:10])
            rec = {'property': pid, 'layer': 'deductive', 'obligation': o['name'], 'obligation_id': sid,
                   'function': o['fn'], 'kind': o['kind'], 'clause': o['text'], 'path_trace': o['trace'],
                   'solver': {'verdict': 'sat', 'backend': o['backend'], 'model_entry_values': o['model']},
                   'replay': rp}
            json.dump(rec, open(path, 'w'), indent=1, default=repr)
            if rp and rp.get('confirmed'):
                violations.append('VIOLATION property=%s replay=%s obligation=%s' % (pid, path, json.dumps(sid)))
            else:
                violations.append('VIOLATION property=%s replay=%s obligation=%s no-failing-input-found' % (pid, path, json.dumps(sid)))
    # bounded / finite-domain layer
    bres = None if a.no_bounded else run_bounded(pid, a.tier, a.seed)
    bounded_records = []
    finite_records = []
    b_eval = b_distinct = 0
    if bres is not None:
        if bres.get('crash'):
            crashes.append('bounded layer crashed: %s' % bres.get('stderr', '')[-1500:])
        else:
            for cl in bres['clauses']:
                rec = {k: cl[k] for k in ('clause', 'kind', 'generator', 'bound', 'evaluations', 'distinct_nontrivial',
                                          'rule', 'samples', 'exhaustive', 'secs') if k in cl}
                rec['violations'] = len(cl.get('violations', []))
                (finite_records if cl.get('kind') == 'F' else bounded_records).append(rec)
                b_eval += cl.get('evaluations', 0)
                b_distinct += cl.get('distinct_nontrivial', 0)
                if cl.get('kind') == 'F':
                    n_ob += 1
                    kinds['finite-domain'] = kinds.get('finite-domain', 0) + 1
                    if not cl.get('violations'):
                        n_dis += 1
                        backends['cpython-enum'] = backends.get('cpython-enum', 0) + 1
                if cl.get('evaluations', 0) == 0:
                    crashes.append('bounded clause %s made zero evaluations' % cl['clause'])
                for vio in cl.get('violations', []):
                    kf = [f for f in known['findings'] if f.get('status') == 'known' and f.get('property') == pid
                          and f.get('layer') == 'bounded' and f.get('clause') in (cl['clause'], '*')
                          and (vio.get('key') in f.get('keys', []) or
                               (f.get('what_regex') and re.search(f['what_regex'], str(vio.get('what', '')))))]
                    if kf:
                        line = 'KNOWN-FINDING: property=%s %s' % (pid, kf[0]['what'])
                        if line not in known_lines:
                            known_lines.append(line)
                        continue
                    os.makedirs(replay_dir, exist_ok=True)
                    path = os.path.join(replay_dir, 'b-%s-%s.json' % (cl['clause'], hashlib.sha1(str(vio.get('key')).encode()).hexdigest()[:10]))
                    json.dump({'property': pid, 'layer': 'bounded', 'clause': cl['clause'], 'violation': vio},
                              open(path, 'w'), indent=1, default=repr)
                    if len([v for v in violations if '/b-%s-' % cl['clause'] in v]) < 5:
                        violations.append('VIOLATION property=%s replay=%s' % (pid, path))
    # ---------------------------------------------------------------- evidence
    from manifest_data import LEVELS
    level = LEVELS.get(pid, {}).get('category', 'other')
    wall = time.time() - t0
    proved_fns = [f for f in fn_records if f['status'] == 'ok']
    explanation = ('Deductive layer: %d functions of the real source under contract, %d obligations generated, %d discharged '
                   '(unbounded: every input, every iteration). Finite-domain clauses (complete enumeration on the real code): %d. '
                   'Bounded stand-in clauses (NOT counted as proved): %d, with %d evaluations. %s'
                   % (len(fn_records), n_ob, n_dis, len(finite_records), len(bounded_records), b_eval,
                      LEVELS.get(pid, {}).get('clauses', '')))
    ev = {
        'property_id': pid, 'tier': a.tier if a.tier in ('quick', 'thorough') else 'quick', 'seed': a.seed, 'level': level,
        'wall_s': round(wall, 2),
        'violations': len(violations),
        'coverage': {
            'obligations': n_ob, 'discharged': n_dis,
            'checker_cmd': 'python3-vt check.py %s --tier %s' % (pid, a.tier),
            'trusted_base': ['pyvc VC generator (/verif/pyvc)', 'z3 5.1 python API; /usr/bin/z3 4.8.12 and cvc5 1.0.3 on unknown',
                             'CPython 3.12 for finite-domain enumeration, bounded stand-in and replay',
                             'callee contracts at call sites (each proved in the same run unless listed as trusted)'],
            'explanation': explanation,
            'evaluations': max(b_eval, 0), 'distinct_nontrivial': b_distinct,
            'rule': 'see bounded[*].rule; deductive obligations are not counted here',
            'samples': samples + [s for b in bounded_records + finite_records for s in b.get('samples', [])[:2]],
            'obligations_by_kind': kinds, 'discharged_by_backend': backends, 'solver_seconds': round(solver_secs, 2),
            'functions_under_contract': fn_records,
            'inlined_functions': inline_keys, 'trusted_contracts': trusted_keys,
            'unmodelled_calls': unmodelled,
            'finite_domain': finite_records, 'bounded': bounded_records,
            'undecided': undecided, 'known_findings_reported': known_lines,
        },
        'assumptions': sorted(assumptions) + ['marker-scan: ' + h for h in scan_assumption_markers()] + [
            'termination is proved only for loops with a decreases clause',
            'Python semantics of the encoded subset is validated by cross-checks, not proved (DESIGN.md 1.3)'],
    }
    if ev['coverage']['evaluations'] < 1:
        ev['coverage'].pop('evaluations')
        ev['coverage'].pop('distinct_nontrivial')
    os.makedirs(EVID, exist_ok=True)
    json.dump(ev, open(os.path.join(EVID, pid + '.json'), 'w'), indent=1, default=repr)
    # ---------------------------------------------------------------- verdict
    for l in known_lines:
        print(l)
    print('%s tier=%s: %d functions, %d/%d obligations discharged, %d bounded evaluations, %.1fs' % (
        pid, a.tier, len(fn_records), n_dis, n_ob, b_eval, wall))
    if crashes:
        for c in crashes:
            print('CRASH property=%s %s' % (pid, c))
    if violations:
        # a violation found by one layer stands even if the checker crashed on some other function
        for v in violations:
            print(v)
        return 1
    if crashes:
        return 3
    if undecided:
        # undecided (solver unknown, construct outside the subset, contract no longer bound to the edited code)
        # is NOT a violation and not an alarm: nothing explored contradicted the property.  The evidence records
        # discharged < obligations, so a proof-level claim is visibly not met by this run.
        for u in undecided:
            print('UNDECIDED property=%s obligation=%s' % (pid, u))
        return 0
    if n_ob == 0 and b_eval == 0:
        print('CRASH property=%s zero obligations and zero evaluations' % pid)
        return 3
    return 0


def do_replay(pid, path):
    rec = json.load(open(path))
    if rec.get('layer') == 'deductive':
        rp = rec.get('replay') or {}
        call = rp.get('call')
        if not call:
            # no concrete input was found: re-run the proof of that function
            r = verify_one(rec['function'])
            bad = [o for o in r['obligations'] if o['verdict'] == 'sat' and stable_ob_id(o) == rec['obligation_id']]
            print('obligation %s: %s' % (rec['obligation_id'], 'still fails' if bad else 'discharged'))
            return 1 if bad else 0
        p = subprocess.run([VENV_PY, '-m', 'monitor.replay', '--key', call['key'], '--model', json.dumps(call['args']),
                            '--budget', '0'], cwd=HERE, capture_output=True, text=True, env=dict(os.environ, PYVC_REPO=REPO))
        out = json.loads(p.stdout.strip().splitlines()[-1])
        print(json.dumps(out))
        return 1 if out.get('confirmed') else 0
    p = subprocess.run([VENV_PY, '-m', 'bounded.run', rec['property'], '--replay', path], cwd=HERE,
                       env=dict(os.environ, PYVC_REPO=REPO))
    return p.returncode


def selfcheck():
    import z3
    x = z3.Int('x')
    s = z3.Solver()
    s.add(x > 0, x < 0)
    assert s.check() == z3.unsat
    s = z3.Solver()
    s.add(x > 0)
    assert s.check() == z3.sat
    REG = load_registry()
    assert REG.fns
    p = subprocess.run([VENV_PY, '-c', 'import sys; sys.path.insert(0, "%s"); import emmet; print(emmet.__file__)' % REPO],
                       capture_output=True, text=True)
    assert p.returncode == 0, p.stderr
    print('selfcheck ok: z3 %s, %d function contracts, repo %s' % (z3.get_version_string(), len(REG.fns), p.stdout.strip()))
    return 0


if __name__ == '__main__':
    try:
        rc = main()
    except SystemExit:
        raise
    except BaseException:
        # an internal error of the checker is never a verdict about the code: exit 3, no VIOLATION line
        import traceback
        traceback.print_exc()
        print('CRASH checker internal error (exit 3; not a verdict)')
        sys.exit(3)
    sys.exit(rc)
