"""Sidecar contracts for emmetio/py-emmet.  Importing this package registers every
contract in pyvc.contracts.REG."""
from . import scanner, css_matcher, html_matcher, tokenizers, extract, config, output, markup, math, stylesheet, action_utils, parser, convert  # noqa
