"""Contracts: emmet/action_utils/{utils,html}.py  (C17)."""
from pyvc.contracts import fn, cls, define, rec

P = ['C17']
U = 'emmet.action_utils.utils'
H = 'emmet.action_utils.html'

cls(U + ':SelectItemModel', fields={'start': 'int', 'end': 'int', 'ranges': 'list[tuple[int,int]]|None'})
fn(U + ':SelectItemModel.__init__', inline=True, props=P)

# a reported range is non-empty and lies inside [lo, hi]
define('sel_in', ['r', 'lo', 'hi'], 'lo <= r[0] and r[0] < r[1] and r[1] <= hi')

fn(U + ':push_range', props=P,
   params={'ranges': 'list[tuple[int,int]]', 'rng': 'tuple[int,int]'}, returns='none',
   requires=[],
   ensures=[# nothing already listed is touched; at most `rng` itself is appended, and only when it is non-empty
            'len(ranges) == old(len(ranges)) or len(ranges) == old(len(ranges)) + 1',
            'forall(0, old(len(ranges)), lambda i: ranges[i][0] == old(ranges[i][0]) and ranges[i][1] == old(ranges[i][1]))',
            'implies(len(ranges) == old(len(ranges)) + 1, rng[0] != rng[1] and '
            '        ranges[len(ranges) - 1][0] == rng[0] and ranges[len(ranges) - 1][1] == rng[1])'],
   modifies=['ranges[*]'])

fn(U + ':token_list', props=P,
   params={'value': 'str', 'offset': 'int'}, returns='list[tuple[int,int]]',
   requires=[],
   ensures=['fresh(result)',
            # every token is a non-empty range of `value` (shifted by offset) ...
            'forall(0, len(result), lambda i: sel_in(result[i], offset, offset + len(value)))',
            # ... that contains no white space and is bounded by white space or the ends: a maximal word
            'forall(0, len(result), lambda i: chars_hold(value, result[i][0] - offset, result[i][1] - offset, lambda c: not is_space(c)))',
            'forall(0, len(result), lambda i: (result[i][0] == offset or is_space(value[result[i][0] - offset - 1])) and (result[i][1] == offset + len(value) or is_space(value[result[i][1] - offset])))'],
   modifies=[],
   locals={'ranges': 'list[tuple[int,int]]'},
   loops={0: {'anchor': 'while pos < l',
              'invariant': ['l == len(value)', '0 <= start', 'start <= pos', 'pos <= l', 'fresh(ranges)',
                            'start == 0 or is_space(value[start - 1])',
                            'forall(0, len(ranges), lambda i: (ranges[i][0] == offset or is_space(value[ranges[i][0] - offset - 1])) and (ranges[i][1] == offset + len(value) or is_space(value[ranges[i][1] - offset])))',
                            'chars_hold(value, start, pos, lambda c: not is_space(c))',
                            'forall(0, len(ranges), lambda i: sel_in(ranges[i], offset, offset + len(value)))',
                            'forall(0, len(ranges), lambda i: chars_hold(value, ranges[i][0] - offset, ranges[i][1] - offset, lambda c: not is_space(c)))'],
              'decreases': 'l - pos'},
          1: {'anchor': 'while pos < l and is_space(value[pos])',
              'invariant': ['l == len(value)', '0 <= end', 'end < pos', 'pos <= l', 'fresh(ranges)', 'is_space(value[pos - 1])',
                            'forall(0, len(ranges), lambda i: (ranges[i][0] == offset or is_space(value[ranges[i][0] - offset - 1])) and (ranges[i][1] == offset + len(value) or is_space(value[ranges[i][1] - offset])))',
                            'forall(0, len(ranges), lambda i: sel_in(ranges[i], offset, offset + len(value)))',
                            'forall(0, len(ranges), lambda i: chars_hold(value, ranges[i][0] - offset, ranges[i][1] - offset, lambda c: not is_space(c)))'],
              'decreases': 'l - pos'}})

# ---------------------------------------------------------------------------------------
# html.py
# ---------------------------------------------------------------------------------------
cls(H + ':ContextTag', fields={'name': 'str', 'type': 'int', 'start': 'int', 'end': 'int',
                               'attributes': 'list[AttributeToken]|None'})
fn(H + ':ContextTag.__init__', inline=True, props=P)

# what attributes() guarantees about the value of one token (attr_ok without the window)
define('attr_val_ok', ['a'],
       'a.value is not None and a.value_start is not None and a.value_end is not None and '
       'len(a.value) == a.value_end - a.value_start and len(a.value) >= 1 and '
       '(len(a.value) >= 2 or not is_quote(a.value[0]))')

fn(H + ':value_range', props=P,
   params={'attr': 'AttributeToken'}, returns='tuple[int,int]',
   requires=['attr_val_ok(attr)'],
   ensures=[# inside the raw value ...
            'attr.value_start <= result[0] and result[0] <= result[1] and result[1] <= attr.value_end',
            # ... with exactly the quotes / braces dropped ("its unquoted value")
            'result[0] == attr.value_start + (1 if (is_quote(attr.value[0]) or '
            "   (attr.value[0] == '{' and attr.value[len(attr.value) - 1] == '}')) else 0)",
            'result[1] == attr.value_end - (1 if ((is_quote(attr.value[0]) and attr.value[len(attr.value) - 1] == attr.value[0]) or '
            "   (attr.value[0] == '{' and attr.value[len(attr.value) - 1] == '}')) else 0)"],
   modifies=[])

DISTINCT = 'forall(0, len(attrs), lambda i: forall(0, i, lambda j: attrs[i] is not attrs[j]))'
def _shifted(lo, hi, by):
    "range fields of attrs[lo:hi] equal their entry values plus `by` (one clause per field: small queries)"
    q = 'forall(%s, %s, lambda i: ' % (lo, hi)
    plus = (' + ' + by) if by else ''
    return [q + 'attrs[i].name_start == old(attrs[i].name_start)%s)' % plus,
            q + 'attrs[i].name_end == old(attrs[i].name_end)%s)' % plus,
            q + 'implies(attrs[i].value is None, same(attrs[i].value_start, old(attrs[i].value_start)) and '
                '        same(attrs[i].value_end, old(attrs[i].value_end))))',
            q + 'implies(attrs[i].value is not None, attrs[i].value_start == old(attrs[i].value_start)%s))' % plus,
            q + 'implies(attrs[i].value is not None, attrs[i].value_end == old(attrs[i].value_end)%s))' % plus]


HAS_RANGE = ('forall(0, len(attrs), lambda i: implies(attrs[i].value is not None, '
             ' attrs[i].value_start is not None and attrs[i].value_end is not None))')

fn(H + ':shift_attribute_ranges', props=P,
   params={'attrs': 'list[AttributeToken]', 'offset': 'int'}, returns='list[AttributeToken]',
   # each token is shifted exactly once only if it occurs once
   requires=[DISTINCT, HAS_RANGE],
   ensures=['result is attrs', 'len(attrs) == old(len(attrs))',
            'forall(0, len(attrs), lambda i: attrs[i] is old(attrs[i]))',
            ] + _shifted('0', 'len(attrs)', 'offset'),
   modifies=['attrs[*].name_start', 'attrs[*].name_end', 'attrs[*].value_start', 'attrs[*].value_end'],
   loops={0: {'anchor': 'for attr in attrs', 'writes': 'elements:attrs',
              'invariant': ['_i0 <= len(attrs)', 'attrs is _seq0', DISTINCT, HAS_RANGE]
                           + _shifted('0', '_i0', 'offset') + _shifted('_i0', 'len(attrs)', '')}})

RANGES_IN = 'forall(0, len(ranges), lambda i: sel_in(ranges[i], start, end))'

fn(H + ':get_tag_selection_model', props=P,
   params={'code': 'str', 'name': 'str', 'start': 'int', 'end': 'int'}, returns='SelectItemModel',
   # what scan() guarantees about an open / self-closing tag it reports
   requires=['0 <= start', 'len(name) >= 1', 'start + 1 + len(name) < end', 'end <= len(code)'],
   ensures=['fresh(result)', 'result.start == start', 'result.end == end', 'result.ranges is not None',
            # the tag name comes first ...
            'len(result.ranges) >= 1 and result.ranges[0][0] == start + 1 and result.ranges[0][1] == start + 1 + len(name)',
            # ... and every range is non-empty and inside the tag
            'forall(0, len(result.ranges), lambda i: sel_in(result.ranges[i], start, end))'],
   modifies=[], allocates=True,
   locals={'ranges': 'list[tuple[int,int]]'},
   loops={0: {'anchor': 'for attr in',
              'invariant': ['_i0 <= len(_seq0)', 'fresh(ranges)', 'fresh(_seq0)', 'len(ranges) >= 1',
                            'ranges[0][0] == start + 1 and ranges[0][1] == start + 1 + len(name)',
                            'len(tag_src) == end - start',
                            'forall(0, len(_seq0), lambda i: attr_ok(_seq0[i], 0, end - start))',
                            RANGES_IN]},
          1: {'anchor': 'for token in',
              'invariant': ['_i1 <= len(_seq1)', '_i0 <= len(_seq0)', 'fresh(ranges)', 'fresh(_seq0)', 'fresh(_seq1)',
                            'len(ranges) >= 1', '_seq1 is not ranges',
                            'ranges[0][0] == start + 1 and ranges[0][1] == start + 1 + len(name)',
                            'len(tag_src) == end - start',
                            'forall(0, len(_seq0), lambda i: attr_ok(_seq0[i], 0, end - start))',
                            'forall(0, len(_seq1), lambda i: sel_in(_seq1[i], start, end))',
                            RANGES_IN]}})

# ---------------------------------------------------------------------------------------
# closures handed to html_matcher.scan() (its callback contract is what they may rely on)
# ---------------------------------------------------------------------------------------
ACB_PARAMS = {'name': 'str', 'elem_type': 'int', 'start': 'int', 'end': 'int'}
ACB_REQ = ['0 <= start', 'start < end', 'end <= len(code)', 'len(name) >= 1',
           'elem_type == 1 or elem_type == 2 or elem_type == 3',
           'start + (2 if elem_type == 2 else 1) + len(name) < end',
           "code[start] == '<'", "code[end - 1] == '>'",
           'occurs_at(code, start + (2 if elem_type == 2 else 1), name)',
           'g_last_end <= start']

# the tag strictly contains the position, is a tag of `code`, carries its name, and every attribute
# range lies inside the tag, in coordinates of `code` (shifted by the tag start exactly once)
define('ctx_pos', ['t', 'code', 'pos'],
       '0 <= t.start and t.start < pos and pos < t.end and t.end <= len(code) and '
       "code[t.start] == '<' and code[t.end - 1] == '>' and "
       '(t.type == 1 or t.type == 2 or t.type == 3) and (t.type == 2 or t.attributes is not None)')
define('ctx_name', ['t', 'code'],
       't.start + (2 if t.type == 2 else 1) + len(t.name) < t.end and '
       'occurs_at(code, t.start + (2 if t.type == 2 else 1), t.name)')
define('ctx_attrs', ['t'],
       't.attributes is None or forall(0, len(t.attributes), lambda i: attr_ok(t.attributes[i], t.start, t.end))')
CTX_OK = ['%s is None or ctx_pos(%s, code, pos)', '%s is None or ctx_name(%s, code)', '%s is None or ctx_attrs(%s)']

GOT_CAP = {'tag': 'list[ContextTag|None]', 'pos': 'int', 'code': 'str', 'g_last_end': 'int'}
GOT_INV = ['len(tag) == 1', 'owned(tag)', 'tag[0] is None or owned(tag[0])',
           ] + [c % ('tag[0]', 'tag[0]') for c in CTX_OK]

fn(H + ':get_open_tag.<locals>.scan_callback', props=P,
   params=ACB_PARAMS, returns='bool|None', captures=GOT_CAP,
   requires=ACB_REQ, closure_invariant=GOT_INV, modifies=['owned'],
   ghost_update=[('g_last_end', 'end')])

fn(H + ':get_open_tag', props=P,
   params={'code': 'str', 'pos': 'int'}, returns='ContextTag|None',
   requires=[],
   ensures=[c % ('result', 'result') for c in CTX_OK],
   modifies=[], allocates=True,
   locals={'tag': 'list[ContextTag|None]'})

# a selection model of one tag of `code`: non-empty tag range, tag-name range first, every range inside
define('sel_tag_ok', ['m', 'code'],
       '0 <= m.start and m.start < m.end and m.end <= len(code) and m.ranges is not None and '
       'len(m.ranges) >= 1 and m.ranges[0][0] == m.start + 1')
define('sel_ranges_ok', ['m'],
       'm.ranges is not None and forall(0, len(m.ranges), lambda i: sel_in(m.ranges[i], m.start, m.end))')

SN_CAP = {'result': 'list[SelectItemModel|None]', 'pos': 'int', 'code': 'str', 'g_last_end': 'int'}
SN_INV = ['len(result) == 1', 'owned(result)', 'result[0] is None or owned(result[0])',
          'result[0] is None or (sel_tag_ok(result[0], code) and result[0].end > pos)',
          'result[0] is None or sel_ranges_ok(result[0])']

fn(H + ':select_next_item.<locals>.scan_callback', props=P,
   params=ACB_PARAMS, returns='bool|None', captures=SN_CAP,
   requires=ACB_REQ, closure_invariant=SN_INV, modifies=['owned'],
   ghost_update=[('g_last_end', 'end')])

fn(H + ':select_next_item', props=P,
   params={'code': 'str', 'pos': 'int', 'options': 'any'}, returns='SelectItemModel|None',
   requires=[],
   ensures=['result is None or (sel_tag_ok(result, code) and result.end > pos)',
            'result is None or sel_ranges_ok(result)'],
   modifies=[], allocates=True,
   locals={'result': 'list[SelectItemModel|None]'})

rec('LastTag', {'name': 'str', 'type': 'int|None', 'start': 'int', 'end': 'int'})
SP_CAP = {'last': 'rec:LastTag', 'pos': 'int', 'code': 'str', 'g_last_end': 'int'}
SP_INV = ['owned(last)',
          "last['type'] is None or (0 <= last['start'] and last['start'] < pos and len(last['name']) >= 1 and "
          " last['start'] + 1 + len(last['name']) < last['end'] and last['end'] <= len(code))"]

fn(H + ':select_previous_item.<locals>.scan_callback', props=P,
   params=ACB_PARAMS, returns='bool|None', captures=SP_CAP,
   requires=ACB_REQ, closure_invariant=SP_INV, modifies=['owned'],
   ghost_update=[('g_last_end', 'end')])

fn(H + ':select_previous_item', props=P,
   params={'code': 'str', 'pos': 'int', 'options': 'any'}, returns='SelectItemModel|None',
   requires=[],
   ensures=['result is None or (sel_tag_ok(result, code) and result.start < pos)',
            'result is None or sel_ranges_ok(result)'],
   modifies=[], allocates=True,
   locals={'last': 'rec:LastTag'})

fn(H + ':select_item_html', props=P,
   params={'code': 'str', 'pos': 'int', 'is_prev': 'bool', 'options': 'any'}, returns='SelectItemModel|None',
   requires=[],
   ensures=['result is None or sel_tag_ok(result, code)',
            'result is None or sel_ranges_ok(result)',
            'result is None or (result.start < pos if is_prev else result.end > pos)'],
   modifies=[], allocates=True)

# ---------------------------------------------------------------------------------------
# css.py: sections, properties, next / previous item -- closures handed to css_matcher.scan()
# ---------------------------------------------------------------------------------------
C = 'emmet.action_utils.css'
cls(C + ':CSSProperty', fields={'name': 'tuple[int,int]', 'value': 'tuple[int,int]',
                                'value_tokens': 'list[tuple[int,int]]', 'before': 'int', 'after': 'int'})
cls(C + ':CSSSection', fields={'start': 'int', 'end': 'int', 'body_start': 'int', 'body_end': 'int',
                               'properties': 'list[CSSProperty]|None'})
cls(C + ':ParseState', fields={'type': 'str|None', 'start': 'int', 'end': 'int', 'value_start': 'int',
                               'value_end': 'int', 'value_delimiter': 'int'})
cls(C + ':ParsePropertiesState', fields={'pending_name': 'list[int]|None', 'nested': 'int', 'before': 'int'})
for _k in ('CSSSection', 'ParseState', 'ParsePropertiesState'):
    fn(C + ':%s.__init__' % _k, inline=True, props=P)
fn(C + ':alloc_range', inline=True, props=P)
fn(C + ':release_range', inline=True, props=P)

fn(C + ':CSSProperty.__init__', props=P,
   params={'self': 'CSSProperty', 'code': 'str', 'name': 'list[int]', 'before': 'int', 'start': 'int', 'end': 'int',
           'delimiter': 'int', 'offset': 'int'}, returns='none',
   requires=['len(name) >= 2', '0 <= start', 'start <= end', 'end <= len(code)'],
   ensures=['self.name[0] == offset + name[0] and self.name[1] == offset + name[1]',
            'self.value[0] == offset + start and self.value[1] == offset + end',
            'self.before == before',
            # right after the terminating `;`, or the end of the value when nothing terminates it
            'self.after == offset + (delimiter + 1 if delimiter != -1 else end)',
            'fresh(self.value_tokens)',
            'forall(0, len(self.value_tokens), lambda i: range_in(self.value_tokens[i], offset + start, offset + end))'],
   modifies=['self.name', 'self.value', 'self.value_tokens', 'self.before', 'self.after'], allocates=True)

# what css_matcher.scan() promises about every token it reports (its callback contract, over `code`)
CCB_PARAMS = {'token_type': 'str', 'start': 'int', 'end': 'int', 'delimiter': 'int'}


def _ccb_req(src):
    return [r.replace('source', src) for r in [
        '0 <= start', 'start <= end', 'end <= len(source)',
        'delimiter == -1 or (0 <= delimiter and delimiter < len(source))',
        'delimiter == -1 or end <= delimiter + 1',
        "token_type == 'selector' or token_type == 'propertyName' or token_type == 'propertyValue' "
        "or token_type == 'blockEnd'",
        "implies(token_type == 'selector', delimiter != -1 and source[delimiter] == '{')",
        "implies(token_type == 'blockEnd', delimiter == start and end == start + 1 and source[start] == '}')",
        "implies(token_type == 'propertyName' or token_type == 'propertyValue', delimiter == -1 or end <= delimiter)",
        'g_last <= start', 'not g_final', "token_type == 'blockEnd' or g_delim < start",
        "implies(token_type == 'propertyValue', g_prev == 'propertyName')"]]


CCB_GHOST = [('g_last', 'max(end, delimiter)'), ('g_final', 'delimiter == -1'), ('g_delim', 'delimiter'),
             ('g_prev', 'token_type')]
GH = {'g_last': 'int', 'g_final': 'bool', 'g_delim': 'int', 'g_prev': 'str'}

# a selector token on the stack: [start, end, position of its `{`], reported before anything later
define('sel_tok', ['t', 'code', 'g_last'],
       'len(t) == 3 and 0 <= t[0] and t[0] <= t[1] and t[1] <= t[2] + 1 and 0 <= t[2] and t[2] < len(code) and '
       "code[t[2]] == '{' and t[2] <= g_last")
# the section is a rule of `code` around the position: `{` right before the body, `}` right after it
define('sec_ok', ['s', 'code', 'pos'],
       '0 <= s.start and s.start <= pos and pos <= s.end and s.end <= len(code) and '
       's.start <= s.body_start and s.body_start <= s.body_end and s.body_end + 1 == s.end and '
       "code[s.body_start - 1] == '{' and code[s.body_end] == '}'")

GS_CAP = {'stack': 'list[list[int]]', 'pool': 'list[list[int]]', 'result': 'list[CSSSection|None]',
          'pos': 'int', 'code': 'str', **GH}
GS_INV = ['len(result) == 1', 'pool is not stack', 'owned(pool) and owned(stack) and owned(result)',
          'forall(0, len(stack), lambda i: owned(stack[i]))', 'forall(0, len(pool), lambda i: owned(pool[i]))',
          'result[0] is None or owned(result[0])',
          'forall(0, len(stack), lambda i: sel_tok(stack[i], code, g_last))',
          'forall(0, len(pool), lambda i: len(pool[i]) == 3)',
          'result[0] is None or (sec_ok(result[0], code, pos) and result[0].properties is None)']

fn(C + ':get_css_section.<locals>.scan_callback', props=P,
   params=CCB_PARAMS, returns='bool|None', captures=GS_CAP,
   requires=_ccb_req('code'), closure_invariant=GS_INV, modifies=['owned'], ghost_update=CCB_GHOST)

# one parsed declaration, in coordinates of the whole source: name, value and value tokens in order, inside
# [lo, hi]; `before` is at or before the name, `after` at or after the value
define('prop_ranges_ok', ['p', 'lo', 'hi'],
       'lo <= p.name[0] and p.name[0] <= p.name[1] and p.name[1] <= p.value[0] and p.value[0] <= p.value[1] '
       'and p.value[1] <= hi and p.value[1] <= p.after and p.after <= hi and lo <= p.before and '
       # a name without a value (`@include x;`) is not a declaration in the sense of C17: it is listed with an
       # empty value when the next name arrives, and its `before` may by then have moved past a nested rule
       '(p.value[0] == p.value[1] or p.before <= p.name[0])')
define('prop_tokens_ok', ['p'],
       # (the length term outside the inner quantifier gives the solver a trigger for the enclosing one)
       'len(p.value_tokens) >= 0 and '
       'forall(0, len(p.value_tokens), lambda i: range_in(p.value_tokens[i], p.value[0], p.value[1]))')

# a pending property name [start, end, delimiter] in fragment coordinates
define('pend_ok', ['t', 'n', 'g_last', 'g_final'],
       'len(t) == 3 and 0 <= t[0] and t[0] <= t[1] and t[1] <= n and t[1] <= g_last and '
       '(t[2] == -1 or (0 <= t[2] and t[2] < n and t[1] <= t[2] and t[2] <= g_last)) and (t[2] != -1 or g_final)')

PP_CAP = {'state': 'ParsePropertiesState', 'pool': 'list[list[int]]', 'result': 'list[CSSProperty]',
          'fragment': 'str', 'parse_from': 'int', **GH}
PP_INV = ['owned(pool) and owned(result) and owned(state)',
          'forall(0, len(pool), lambda i: owned(pool[i]))', 'forall(0, len(result), lambda i: owned(result[i]))',
          'state.pending_name is None or owned(state.pending_name)',
          'forall(0, len(pool), lambda i: len(pool[i]) == 3)',
          'state.pending_name is None or pend_ok(state.pending_name, len(fragment), g_last, g_final)',
          # `before` never runs ahead of what has been reported
          'parse_from <= state.before and (state.before <= parse_from + g_delim + 1 or g_final)',
          # between a name and the value that follows it at once, `before` is still in front of the name
          "state.pending_name is None or g_prev != 'propertyName' or state.nested != 0 "
          'or state.before <= parse_from + state.pending_name[0]',
          'forall(0, len(result), lambda i: prop_ranges_ok(result[i], parse_from, parse_from + len(fragment)))',
          'forall(0, len(result), lambda i: owned(result[i].value_tokens))',
          'forall(0, len(result), lambda i: prop_tokens_ok(result[i]))']

fn(C + ':parse_properties.<locals>.scan_callback', props=P,
   params=CCB_PARAMS, returns='bool|None', captures=PP_CAP,
   requires=_ccb_req('fragment'), closure_invariant=PP_INV, modifies=['owned'], ghost_update=CCB_GHOST)

PROPS_OK = ['forall(0, len(%s), lambda i: prop_ranges_ok(%s[i], %s, %s))',
            'forall(0, len(%s), lambda i: prop_tokens_ok(%s[i]))']

fn(C + ':parse_properties', props=P,
   params={'code': 'str', 'parse_from': 'int', 'parse_to': 'int|None'}, returns='list[CSSProperty]',
   # a fragment of `code`: the body of a section, or everything
   requires=['0 <= parse_from', 'parse_to is None or (parse_from <= parse_to and parse_to <= len(code))',
             'parse_from <= len(code)'],
   ensures=['fresh(result)',
            PROPS_OK[0] % ('result', 'result', 'parse_from', '(len(code) if parse_to is None else parse_to)'),
            PROPS_OK[1] % ('result', 'result')],
   modifies=[], allocates=True,
   locals={'result': 'list[CSSProperty]', 'pool': 'list[list[int]]'})

fn(C + ':get_css_section', props=P,
   params={'code': 'str', 'pos': 'int', 'properties': 'bool'}, returns='CSSSection|None',
   requires=[],
   ensures=['result is None or sec_ok(result, code, pos)',
            # declarations are parsed on request only, and all lie inside the body
            'result is None or properties or result.properties is None',
            'result is None or result.properties is None or (' +
            PROPS_OK[0] % ('result.properties', 'result.properties', 'result.body_start', 'result.body_end') + ')',
            'result is None or result.properties is None or (' +
            PROPS_OK[1] % ('result.properties', 'result.properties') + ')'],
   modifies=[], allocates=True,
   locals={'stack': 'list[list[int]]', 'pool': 'list[list[int]]', 'result': 'list[CSSSection|None]'})

# a CSS selection model: the item and every range inside the source; ranges inside the item
define('csel_ok', ['m', 'code'],
       '0 <= m.start and m.start <= m.end and m.end <= len(code) and m.ranges is not None')
define('csel_ranges_ok', ['m'],
       'm.ranges is not None and len(m.ranges) >= 0 and '
       'forall(0, len(m.ranges), lambda i: range_in(m.ranges[i], m.start, m.end))')

CN_CAP = {'result': 'list[SelectItemModel|None]', 'pending_property': 'list[tuple[int,int,int]|None]',
          'pos': 'int', 'code': 'str', **GH}
CN_INV = ['len(result) == 1', 'len(pending_property) == 1', 'owned(result) and owned(pending_property)',
          'result[0] is None or (owned(result[0]) and result[0].ranges is not None and owned(result[0].ranges))',
          # a remembered property name starts at or after the position and was reported before anything later
          'pending_property[0] is None or (0 <= pending_property[0][0] and pos <= pending_property[0][0] and '
          ' pending_property[0][0] <= pending_property[0][1] and pending_property[0][1] <= g_last)',
          'result[0] is None or (csel_ok(result[0], code) and pos <= result[0].start)',
          'result[0] is None or csel_ranges_ok(result[0])']

fn(C + ':select_next_item.<locals>.scan_callback', props=P,
   params=CCB_PARAMS, returns='bool|None', captures=CN_CAP,
   requires=_ccb_req('code'), closure_invariant=CN_INV, modifies=['owned'], ghost_update=CCB_GHOST,
   locals={'section': 'SelectItemModel', 'prop': 'tuple[int,int,int]'}, list_literals='tuple[int,int]',
   loops={0: {'anchor': 'for r in',
              'invariant': ['_i0 <= len(_seq0)', 'owned(result)', 'len(result) == 1', 'result[0] is section',
                            'owned(section)', 'section.ranges is not None', 'owned(section.ranges)',
                            '_seq0 is not section.ranges',
                            'forall(0, len(_seq0), lambda i: range_in(_seq0[i], 0, end - start))',
                            '0 <= section.start and section.start <= start and end <= section.end '
                            'and section.end <= len(code) and pos <= section.start',
                            'forall(0, len(section.ranges), lambda i: range_in(section.ranges[i], section.start, section.end))']}})

fn(C + ':select_next_item', props=P,
   params={'code': 'str', 'pos': 'int'}, returns='SelectItemModel|None',
   requires=[],
   ensures=['result is None or (csel_ok(result, code) and pos <= result.start)',
            'result is None or csel_ranges_ok(result)'],
   modifies=[], allocates=True,
   locals={'result': 'list[SelectItemModel|None]', 'pending_property': 'list[tuple[int,int,int]|None]'})

CP_CAP = {'state': 'ParseState', 'pos': 'int', 'code': 'str', **GH}
CP_INV = ['owned(state)',
          "state.type is None or state.type == 'selector' or state.type == 'propertyName'",
          'state.type is None or (0 <= state.start and state.start < pos and state.start <= state.end and '
          ' state.end <= len(code) and state.end <= g_last)',
          'state.value_start == -1 or (0 <= state.value_start and state.value_start <= state.value_end and '
          ' state.value_end <= len(code) and (state.value_delimiter == -1 or '
          ' (state.value_end <= state.value_delimiter + 1 and state.value_delimiter < len(code))))',
          'state.value_start == -1 or state.type is None or state.end <= state.value_start']

fn(C + ':select_previous_item.<locals>.scan_callback', props=P,
   params=CCB_PARAMS, returns='bool|None', captures=CP_CAP,
   requires=_ccb_req('code'), closure_invariant=CP_INV, modifies=['owned'], ghost_update=CCB_GHOST)

fn(C + ':select_previous_item', props=P,
   params={'code': 'str', 'pos': 'int'}, returns='SelectItemModel|None',
   requires=[],
   ensures=['result is None or (csel_ok(result, code) and result.start < pos)',
            'result is None or csel_ranges_ok(result)'],
   modifies=[], allocates=True, list_literals='tuple[int,int]',
   loops={0: {'anchor': 'for r in',
              'invariant': ['_i0 <= len(_seq0)', 'fresh(result)', 'result.ranges is not None', 'fresh(result.ranges)',
                            '_seq0 is not result.ranges', 'fresh(state)',
                            'forall(0, len(_seq0), lambda i: range_in(_seq0[i], 0, state.value_end - state.value_start))',
                            '0 <= result.start and result.start < pos and result.start <= state.value_start and '
                            'state.value_start <= state.value_end and state.value_end <= result.end and result.end <= len(code)',
                            'forall(0, len(result.ranges), lambda i: range_in(result.ranges[i], result.start, result.end))']}})

fn(C + ':select_item_css', props=P,
   params={'code': 'str', 'pos': 'int', 'is_prev': 'bool'}, returns='SelectItemModel|None',
   requires=[],
   ensures=['result is None or csel_ok(result, code)', 'result is None or csel_ranges_ok(result)',
            'result is None or (result.start < pos if is_prev else pos <= result.start)'],
   modifies=[], allocates=True)
