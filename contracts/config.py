"""Contracts: emmet/config.py  (C20, C08)."""
from pyvc.contracts import fn, cls, define, glob

P = ['C20', 'C08']

# the built-in layer tables are kept abstract: arbitrary dictionaries, never written (frame obligations)
glob('emmet.config:SYNTAX_CONFIG', 'map')
glob('emmet.config:DEFAULT_CONFIG', 'map')

# the six layers, least specific first (taken from the property statement):
# built-in defaults, defaults of the type, defaults of the syntax, global[type], global[syntax], the call's own config
define('L0', ['key'], 'mget(DEFAULT_CONFIG, key)')
define('L1', ['t', 'key'], 'mget(mget(SYNTAX_CONFIG, t), key)')
define('L2', ['s', 'key'], 'mget(mget(SYNTAX_CONFIG, s), key)')
define('L3', ['g', 't', 'key'], 'mget(mget(g, t), key)')
define('L4', ['g', 's', 'key'], 'mget(mget(g, s), key)')
define('L5', ['u', 'key'], 'mget(u, key)')

# "the effective value is taken from the most specific layer that defines it; layers that do not mention a
#  key leave it untouched"
define('layered', ['r', 't', 's', 'key', 'u', 'g'],
       'forall_keys(lambda k: has(r, k) == (has(L0(key), k) or has(L1(t, key), k) or has(L2(s, key), k) or '
       '                                    has(L3(g, t, key), k) or has(L4(g, s, key), k) or has(L5(u, key), k))) and '
       'forall_keys(lambda k: implies(has(r, k), same(at(r, k), '
       '   ite(has(L5(u, key), k), at(L5(u, key), k), '
       '   ite(has(L4(g, s, key), k), at(L4(g, s, key), k), '
       '   ite(has(L3(g, t, key), k), at(L3(g, t, key), k), '
       '   ite(has(L2(s, key), k), at(L2(s, key), k), '
       '   ite(has(L1(t, key), k), at(L1(t, key), k), at(L0(key), k)))))))))')

fn('emmet.config:merged_data', props=P,
   params={'syntax_type': 'any', 'syntax': 'any', 'key': 'str', 'user_config': 'map', 'global_config': 'map'},
   returns='map',
   requires=[],
   ensures=['fresh(result)',
            'layered(result, syntax_type, syntax, key, user_config, global_config)',
            # an unknown syntax name falls back to the type's defaults
            'implies(not has(SYNTAX_CONFIG, syntax) and not has(global_config, syntax), '
            ' forall_keys(lambda k: has(result, k) == (has(L0(key), k) or has(L1(syntax_type, key), k) or '
            '                                           has(L3(global_config, syntax_type, key), k) or has(L5(user_config, key), k))))'],
   # merging never modifies the built-in tables or the caller's dictionaries: nothing but the fresh result is written
   modifies=[], allocates=True,
   locals={'result': 'map', 'empty': 'map'})

# Config.__init__: which type/syntax the layers are taken for, and that each section is the layered merge
# (the Config class itself is declared in contracts/markup.py)
fn('emmet.config:Config.__init__', props=P,
   params={'self': 'Config', 'user_config': 'map', 'global_config': 'map'}, returns='none',
   requires=[],
   ensures=["same(self.type, (at(user_config, 'type') if has(user_config, 'type') else 'markup'))",
            # an explicit syntax wins; otherwise the default syntax of the type ('html' for an unknown type)
            "implies(has(user_config, 'syntax'), same(self.syntax, at(user_config, 'syntax')))",
            "implies(not has(user_config, 'syntax') and not has(user_config, 'type'), self.syntax == 'html')",
            "layered(self.options, self.type, self.syntax, 'options', user_config, global_config)",
            "layered(self.snippets, self.type, self.syntax, 'snippets', user_config, global_config)",
            "layered(self.variables, self.type, self.syntax, 'variables', user_config, global_config)",
            'fresh(self.options) and fresh(self.snippets) and fresh(self.variables)',
            'self.user_config is user_config'],
   # only the new object is written: the caller's dictionaries and the built-in tables are untouched
   modifies=['self.type', 'self.syntax', 'self.user_config', 'self.context', 'self.variables', 'self.snippets',
             'self.options', 'self.cache'],
   allocates=True)
