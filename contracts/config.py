"""Contracts: emmet/config.py  (C20, C08)."""
from pyvc.contracts import fn, cls, define, glob

P = ['C20', 'C08']

# the built-in layer tables are kept abstract: arbitrary dictionaries, never written (frame obligations)
glob('emmet.config:SYNTAX_CONFIG', 'map')
glob('emmet.config:DEFAULT_CONFIG', 'map')

# the six layers, least specific first (taken from the property statement):
# built-in defaults, defaults of the type, defaults of the syntax, global[type], global[syntax], the call's own config
define('L0', ['key'], 'mget(DEFAULT_CONFIG, key)')
define('L1', ['t', 'key'], 'mget(mget(SYNTAX_CONFIG, t), key)')
define('L2', ['s', 'key'], 'mget(mget(SYNTAX_CONFIG, s), key)')
define('L3', ['g', 't', 'key'], 'mget(mget(g, t), key)')
define('L4', ['g', 's', 'key'], 'mget(mget(g, s), key)')
define('L5', ['u', 'key'], 'mget(u, key)')

# "the effective value is taken from the most specific layer that defines it; layers that do not mention a
#  key leave it untouched"
define('layered', ['r', 't', 's', 'key', 'u', 'g'],
       'forall_keys(lambda k: has(r, k) == (has(L0(key), k) or has(L1(t, key), k) or has(L2(s, key), k) or '
       '                                    has(L3(g, t, key), k) or has(L4(g, s, key), k) or has(L5(u, key), k))) and '
       'forall_keys(lambda k: implies(has(r, k), same(at(r, k), '
       '   ite(has(L5(u, key), k), at(L5(u, key), k), '
       '   ite(has(L4(g, s, key), k), at(L4(g, s, key), k), '
       '   ite(has(L3(g, t, key), k), at(L3(g, t, key), k), '
       '   ite(has(L2(s, key), k), at(L2(s, key), k), '
       '   ite(has(L1(t, key), k), at(L1(t, key), k), at(L0(key), k)))))))))')

fn('emmet.config:merged_data', props=P,
   params={'syntax_type': 'any', 'syntax': 'any', 'key': 'str', 'user_config': 'map', 'global_config': 'map'},
   returns='map',
   requires=[],
   ensures=['fresh(result)',
            'layered(result, syntax_type, syntax, key, user_config, global_config)',
            # an unknown syntax name falls back to the type's defaults
            'implies(not has(SYNTAX_CONFIG, syntax) and not has(global_config, syntax), '
            ' forall_keys(lambda k: has(result, k) == (has(L0(key), k) or has(L1(syntax_type, key), k) or '
            '                                           has(L3(global_config, syntax_type, key), k) or has(L5(user_config, key), k))))'],
   # merging never modifies the built-in tables or the caller's dictionaries: nothing but the fresh result is written
   modifies=[], allocates=True,
   locals={'result': 'map', 'empty': 'map'})
