"""Contracts: emmet/abbreviation/convert.py  (C02: the copy loop of convert_statement, its counter stack and the
maxRepeat guard; C01: unrolling keeps the repeater of every statement in place).

The three converters call each other (statement -> group/element -> statement).  They build and splice lists of
freshly allocated output nodes and temporarily re-point `node.repeat`; their frame is therefore `*` and every fact
a caller needs is an explicit two-state postcondition (counter stack back as found, `node.repeat` back, guard never
grows, the repeaters on the stack keep their fields).  What C02 says about one repeated statement is then proved of
convert_statement's own loop with a ghost counter of completed copies."""
from pyvc.contracts import fn, cls, define

P = ['C02', 'C01']
A = 'emmet.abbreviation'
CV = A + '.convert'
PR = A + '.parser'

# the parser's tree as the converter sees it: `.repeat` holds the Repeater token the parser stored there
# (assumption listed in evidence: the field is declared `Token|None` on the parser side)
cls(PR + ':TokenElement', alias='CvTokenElement',
    fields={'type': 'str', 'name': 'list[Token]|None', 'attributes': 'list[TokenAttribute]|None',
            'value': 'list[Token]|None', 'repeat': 'Repeater|None', 'self_close': 'bool',
            'elements': 'list[CvTokenElement|CvTokenGroup]'})
cls(PR + ':TokenGroup', alias='CvTokenGroup',
    fields={'type': 'str', 'elements': 'list[CvTokenElement|CvTokenGroup]', 'repeat': 'Repeater|None'})
VIEW = dict(class_alias={'TokenElement': 'CvTokenElement', 'TokenGroup': 'CvTokenGroup'})

fn(CV + ':is_group', inline=True, pure=True, props=P)

fn(CV + ':clone_repeater', props=P,
   params={'repeater': 'Repeater'}, returns='Repeater',
   requires=[],
   ensures=['fresh(result)', 'result.count == repeater.count', 'result.value == repeater.value',
            'result.implicit == repeater.implicit'],
   modifies=[], allocates=True)

# a group's repeater is handed to every produced node that has none of its own (each gets its own copy)
fn(CV + ':attach_repeater', props=P,
   params={'items': 'list[AbbreviationNode]', 'repeater': 'Repeater'}, returns='list[AbbreviationNode]',
   requires=[],
   ensures=['result is items', 'len(items) == old(len(items))',
            'forall(0, len(items), lambda k: items[k] is old(items[k]))',
            'forall(0, len(items), lambda k: items[k].repeat is not None)',
            'forall(0, len(items), lambda k: implies(old(items[k].repeat) is not None, items[k].repeat is old(items[k].repeat)))'],
   modifies=['items[*].repeat'], allocates=True,
   loops={0: {'anchor': 'for item in', 'writes': 'elements:items',
              'invariant': ['_i0 <= len(items)', 'len(items) == old(len(items))',
                            'forall(0, len(items), lambda k: items[k] is old(items[k]))',
                            'forall(0, _i0, lambda k: items[k].repeat is not None)',
                            'forall(0, len(items), lambda k: implies(old(items[k].repeat) is not None, items[k].repeat is old(items[k].repeat)))']}})

fn(CV + ':deepest_node', props=P,
   params={'node': 'AbbreviationNode'}, returns='AbbreviationNode',
   requires=[], ensures=[], modifies=[])

fn(CV + ':insert_text', props=P + ['C04'],
   params={'node': 'AbbreviationNode', 'text': 'str'}, returns='none',
   requires=[],
   # the text lands at the very end of the node's value: appended to a trailing string, else as a new last item
   ensures=['node.value is not None', 'len(node.value) >= 1',
            'implies(old(node.value) is None or old(len(node.value)) == 0, len(node.value) == 1)',
            'isinstance(node.value[len(node.value) - 1], str)'],
   modifies=['node.value', 'node.value[*]'], allocates=True, list_literals='str|Field')

fn(CV + ':ConvertState.get_text', props=P, trusted=True,
   params={'self': 'ConvertState', 'pos': 'int|None'}, returns='str',
   requires=[], ensures=[], modifies=['self._text_inserted'],
   note='text / clean_text are caller data (str, list of str or None): join/strip/indexing are not modelled')

fn(CV + ':AbbreviationNode.__init__', props=P, trusted=True,
   params={'self': 'AbbreviationNode', 'node': 'CvTokenElement', 'state': 'ConvertState'}, returns='none',
   requires=[],
   ensures=['fresh(self.children)', 'len(self.children) == 0', 'self.attributes is None',
            'implies(node.repeat is None, self.repeat is None)',
            'implies(node.repeat is not None, self.repeat is not None and fresh(self.repeat))',
            'implies(old(state.inserted), state.inserted)'],
   modifies=['self.type', 'self.name', 'self.value', 'self.attributes', 'self.children', 'self.repeat', 'self.self_closing',
             'state.inserted', 'state._text_inserted'],
   allocates=True, **VIEW,
   note='name and value are rendered through stringify() (globals()-based dispatch, out of subset); a `$#` '
        'placeholder inside them sets state.inserted / state._text_inserted')

fn(CV + ':convert_attribute', props=P, trusted=True,
   params={'node': 'TokenAttribute', 'state': 'ConvertState'}, returns='AbbreviationAttribute',
   requires=[], ensures=['fresh(result)', 'implies(old(state.inserted), state.inserted)'],
   modifies=['state.inserted', 'state._text_inserted'], allocates=True,
   stable=['implies(old(state.inserted), state.inserted)'],
   note='attribute values are rendered through stringify() (out of subset)')

fn(CV + ':some', props=P, trusted=True,
   params={'items': 'list[str|Field]', 'fn': 'fn'}, returns='bool',
   requires=[], ensures=[], modifies=[], note='applies an opaque predicate to every item')

# frame of the converters: the state's flags and guard, the counter stack (restored, see KEPT), and two fields of
# output nodes as class-wide entries (`AbbreviationNode::value` with `list[str|Field]::*`: wrapped text is inserted
# into the deepest node of a finished copy; `AbbreviationNode::repeat`: a group hands its repeater to the nodes it
# produced -- neither set of nodes can be named by this frame; every output node is created by convert()).
# Everything else older than the call is proved unchanged at exit: the parser's tree (TokenElement, TokenGroup,
# tokens, token lists; `node.repeat` is re-pointed while a statement runs and must be back), the repeaters on
# the stack, children lists and attributes of older output nodes.
CV_MOD = ['state.inserted', 'state._text_inserted', 'state.repeat_guard', 'state.repeaters[*]',
          'AbbreviationNode::value', 'AbbreviationNode::repeat', 'list[str|Field]::*']

# what every converter leaves behind: the counter stack exactly as found (same list, same length, same repeaters
# with the same fields), the guard never grows, the statement's own repeater is back in place
define('cv_stack_kept', ['state'],
       'state.repeaters is old(state.repeaters) and len(state.repeaters) == old(len(state.repeaters)) and '
       'forall(0, len(state.repeaters), lambda k: state.repeaters[k] is old(state.repeaters[k]) and '
       '       state.repeaters[k].count == old(state.repeaters[k].count) and '
       '       state.repeaters[k].value == old(state.repeaters[k].value) and '
       '       state.repeaters[k].implicit == old(state.repeaters[k].implicit))')
KEPT = ['state.repeaters is old(state.repeaters)', 'len(state.repeaters) == old(len(state.repeaters))',
        'forall(0, len(state.repeaters), lambda k: state.repeaters[k] is old(state.repeaters[k]))',
        'forall(0, len(state.repeaters), lambda k: state.repeaters[k].count == old(state.repeaters[k].count))',
        'forall(0, len(state.repeaters), lambda k: state.repeaters[k].value == old(state.repeaters[k].value))',
        'forall(0, len(state.repeaters), lambda k: state.repeaters[k].implicit == old(state.repeaters[k].implicit))',
        'state.repeat_guard <= old(state.repeat_guard)',
        # C04 ("at every `$#` placeholder if there are any, otherwise appended once"): once a placeholder has been
        # met the flag stays set -- nothing converted later may make the text be appended again
        'implies(old(state.inserted), state.inserted)',
        'node.repeat is old(node.repeat)',
        'same(state.text, old(state.text))', 'same(state.clean_text, old(state.clean_text))',
        'fresh(result)']

# C02: "the counter is that of the nearest repeated element or group containing the place (the element itself
# included)": whenever a repeated statement is converted, the top of the counter stack IS its running repeater and
# the 0-based copy number lies in [0, count)
OWN_COUNTER = ['node.repeat is None or (len(state.repeaters) >= 1 and '
               ' state.repeaters[len(state.repeaters) - 1] is node.repeat and '
               ' 0 <= node.repeat.value and node.repeat.value < node.repeat.count)']

fn(CV + ':convert_group', props=P + ['C04'],
   params={'node': 'CvTokenGroup|CvTokenElement', 'state': 'ConvertState'}, returns='list[AbbreviationNode]',
   requires=OWN_COUNTER, ensures=KEPT, modifies=CV_MOD, allocates=True, **VIEW,
   locals={'result': 'list[AbbreviationNode]'},
   loops={0: {'anchor': 'for child in',
              'invariant': ['_i0 <= len(node.elements)', 'fresh(result)'] + KEPT[:-1]}})

fn(CV + ':convert_element', props=P + ['C04'],
   params={'node': 'CvTokenElement', 'state': 'ConvertState'}, returns='list[AbbreviationNode]',
   requires=OWN_COUNTER, ensures=KEPT, modifies=CV_MOD, allocates=True, **VIEW,
   locals={'result': 'list[AbbreviationNode]'},
   loops={0: {'anchor': 'for child in',
              'invariant': ['_i0 <= len(node.elements)', 'fresh(result)', 'fresh(elem)', 'fresh(elem.children)',
                            'len(result) == 1', 'result[0] is elem'] + KEPT[:-1]}})

# N of the statement: the number of non-blank text lines for an implicit repeater over wrapped lines, else the
# written count (a written 0 counts as 1)
define('cv_count', ['rep', 'state'],
       '(len(state.clean_text) if (rep.implicit and isinstance(state.text, list)) else (rep.count if rep.count != 0 else 1))')

fn(CV + ':convert_statement', props=P + ['C04', 'C07'],
   params={'node': 'CvTokenElement|CvTokenGroup', 'state': 'ConvertState'}, returns='list[AbbreviationNode]',
   requires=[],
   ensures=KEPT,
   # proved of this function, not exported: they speak about its ghost counter of completed copies
   ensures_local=[
       # C02, first sentence: X*N produces exactly N copies ...
       # ... unless the maxRepeat guard runs out: copies are completed until the guard reaches 0, at least one is made,
       'implies(old(node.repeat) is not None, g_copies <= max(old(cv_count(node.repeat, state)), 0))',
       'implies(old(node.repeat) is not None, g_copies == max(old(cv_count(node.repeat, state)), 0) or '
       '        (state.repeat_guard <= 0 and g_copies >= 1))',
       # "from then on every repeater still running or met later yields just one copy"
       'implies(old(node.repeat) is not None and old(state.repeat_guard) <= 1 and old(cv_count(node.repeat, state)) >= 1, '
       '        g_copies == 1)',
       'implies(old(node.repeat) is None, g_copies == 1)',
       # every completed copy is charged to the guard
       'implies(old(node.repeat) is not None, state.repeat_guard <= old(state.repeat_guard) - g_copies)'],
   modifies=CV_MOD, allocates=True, **VIEW,
   locals={'result': 'list[AbbreviationNode]', 'items': 'list[AbbreviationNode]'},
   ghost={'g_copies': ('int', '0')},
   ghost_code={'items = convert_group(node, state) if is_group(node) else convert_element(node, state)':
               ['g_copies = g_copies + 1'],
               'result += convert_group(node, state) if is_group(node) else convert_element(node, state)':
               ['g_copies = g_copies + 1']},
   loops={0: {'anchor': 'while i < repeat.count',
              'invariant': ['0 <= i', 'i <= max(repeat.count, 0)', 'g_copies == i', 'fresh(result)', 'fresh(repeat)',
                            'original is old(node.repeat)', 'original is not None',
                            'repeat.count == old(cv_count(node.repeat, state))',
                            'repeat.implicit == old(node.repeat.implicit)', 'i == 0 or state.repeat_guard >= 1',
                            'state.repeaters is old(state.repeaters)',
                            'len(state.repeaters) == old(len(state.repeaters)) + 1',
                            'state.repeaters[len(state.repeaters) - 1] is repeat',
                            'forall(0, old(len(state.repeaters)), lambda k: state.repeaters[k] is old(state.repeaters[k]))',
                            'forall(0, old(len(state.repeaters)), lambda k: state.repeaters[k].count == old(state.repeaters[k].count))',
                            'forall(0, old(len(state.repeaters)), lambda k: state.repeaters[k].value == old(state.repeaters[k].value))',
                            'forall(0, old(len(state.repeaters)), lambda k: state.repeaters[k].implicit == old(state.repeaters[k].implicit))',
                            'state.repeat_guard <= old(state.repeat_guard) - i',
                            'implies(old(state.inserted), state.inserted)',
                            'same(state.text, old(state.text))', 'same(state.clean_text, old(state.clean_text))'],
              # C07 ("expand() terminates"): every iteration completes a copy and moves on to the next one
              'decreases': 'repeat.count - i'}})


# `$#`: the wrapped line of the closest implicit repeater (C04: "each containing that trimmed line verbatim - at
# every $# placeholder"; C02: the counter stack itself is only read -- the frame below has no `state.repeaters[*]`,
# so reversing or popping the live stack fails the frame obligation)
fn(A + '.stringify:RepeaterPlaceholder', props=['C02', 'C04'],
   params={'token': 'RepeaterPlaceholder', 'state': 'ConvertState'}, returns='str',
   requires=[],
   ensures=['state.inserted == True'],
   # the repeater whose line is taken is the LAST implicit one on the stack (None if there is none)
   lemmas=['implies(repeater is None, forall(0, len(state.repeaters), lambda k: not state.repeaters[k].implicit))',
           'implies(repeater is not None, exists(0, len(state.repeaters), lambda j: state.repeaters[j] is repeater and '
           '        repeater.implicit and forall(j + 1, len(state.repeaters), lambda k: not state.repeaters[k].implicit)))'],
   modifies=['state.inserted', 'state._text_inserted'], allocates=True,
   locals={'repeater': 'Repeater|None', 'repeater_list': 'list[Repeater]'},
   loops={0: {'anchor': 'for r in',
              'invariant': ['_i0 <= len(repeater_list)', 'fresh(repeater_list)', 'repeater is None',
                            'len(repeater_list) == len(state.repeaters)',
                            'forall(0, len(repeater_list), lambda k: repeater_list[k] is state.repeaters[len(state.repeaters) - 1 - k])',
                            'forall(0, _i0, lambda k: not repeater_list[k].implicit)']}})
