"""Contracts: emmet/css_matcher/{scan,parse,__init__}.py  (C16, C10)."""
from pyvc.contracts import fn, cls, define

P = ['C16', 'C10', 'C17']

cls('emmet.css_matcher.scan:ScanState',
    fields={'start': 'int', 'end': 'int', 'property_delimiter': 'int', 'property_start': 'int',
            'property_end': 'int', 'expression': 'int'})
fn('emmet.css_matcher.scan:ScanState.__init__', inline=True, props=P)
fn('emmet.css_matcher.scan:ScanState.reset', inline=True, props=P)

# consumer contract shared by the leaf consumers: they never move backwards, never end up
# beyond max(entry position, end), and report failure only without having consumed anything
CONSUMER = ['old(scanner.pos) <= scanner.pos',
            'scanner.pos <= max(old(scanner.pos), scanner.end)']

fn('emmet.css_matcher.scan:whitespace', props=P,
   params={'scanner': 'Scanner'}, returns='bool',
   requires=['wf(scanner)'],
   ensures=CONSUMER + ['result == (scanner.pos > old(scanner.pos))'],
   modifies=['scanner.pos'])

fn('emmet.css_matcher.scan:comment', props=P,
   params={'scanner': 'Scanner'}, returns='bool',
   requires=['wf(scanner)'],
   ensures=CONSUMER + ['implies(not result, scanner.pos == old(scanner.pos) and scanner.start == old(scanner.start))',
                       'implies(result, scanner.pos >= old(scanner.pos) + 2 and scanner.start == old(scanner.pos))'],
   modifies=['scanner.pos', 'scanner.start'],
   loops={0: {'anchor': 'while not scanner.eof()',
              'invariant': ['old(scanner.pos) + 2 <= scanner.pos', 'scanner.pos <= scanner.end',
                            'scanner.start == old(scanner.pos)'],
              'decreases': 'scanner.end - scanner.pos'}})

fn('emmet.css_matcher.scan:literal', props=P,
   params={'scanner': 'Scanner'}, returns='bool|None',
   requires=['wf(scanner)'],
   ensures=CONSUMER + ['implies(not result, scanner.pos == old(scanner.pos) and scanner.start == old(scanner.start))',
                       'implies(result, scanner.pos > old(scanner.pos) and scanner.start == old(scanner.pos))'],
   modifies=['scanner.pos', 'scanner.start'],
   loops={0: {'anchor': 'while not scanner.eof()',
              'invariant': ['old(scanner.pos) < scanner.pos', 'scanner.pos <= scanner.end',
                            'scanner.start == old(scanner.pos)'],
              'decreases': 'scanner.end - scanner.pos'}})

fn('emmet.css_matcher.scan:is_known_selector_colon', props=P,
   params={'scanner': 'Scanner', 'state': 'ScanState'}, returns='int|bool',
   requires=['wf(scanner)'],
   ensures=CONSUMER + ['implies(not result, scanner.pos == old(scanner.pos))'],
   modifies=['scanner.pos'])
