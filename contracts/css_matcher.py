"""Contracts: emmet/css_matcher/{scan,parse,__init__}.py  (C16, C10)."""
from pyvc.contracts import fn, cls, define

P = ['C16', 'C10', 'C17']

cls('emmet.css_matcher.scan:ScanState',
    fields={'start': 'int', 'end': 'int', 'property_delimiter': 'int', 'property_start': 'int',
            'property_end': 'int', 'expression': 'int'})
fn('emmet.css_matcher.scan:ScanState.__init__', inline=True, props=P)
fn('emmet.css_matcher.scan:ScanState.reset', inline=True, props=P)

# consumer contract shared by the leaf consumers: they never move backwards, never end up
# beyond max(entry position, end), and report failure only without having consumed anything
CONSUMER = ['old(scanner.pos) <= scanner.pos',
            'scanner.pos <= max(old(scanner.pos), scanner.end)']

fn('emmet.css_matcher.scan:whitespace', props=P,
   params={'scanner': 'Scanner'}, returns='bool',
   requires=['wf(scanner)'],
   ensures=CONSUMER + ['result == (scanner.pos > old(scanner.pos))'],
   modifies=['scanner.pos'])

fn('emmet.css_matcher.scan:comment', props=P,
   params={'scanner': 'Scanner'}, returns='bool',
   requires=['wf(scanner)'],
   ensures=CONSUMER + ['implies(not result, scanner.pos == old(scanner.pos) and scanner.start == old(scanner.start))',
                       'implies(result, scanner.pos >= old(scanner.pos) + 2 and scanner.start == old(scanner.pos))'],
   modifies=['scanner.pos', 'scanner.start'],
   loops={0: {'anchor': 'while not scanner.eof()',
              'invariant': ['old(scanner.pos) + 2 <= scanner.pos', 'scanner.pos <= scanner.end',
                            'scanner.start == old(scanner.pos)'],
              'decreases': 'scanner.end - scanner.pos'}})

fn('emmet.css_matcher.scan:literal', props=P,
   params={'scanner': 'Scanner'}, returns='bool|None',
   requires=['wf(scanner)'],
   ensures=CONSUMER + ['implies(not result, scanner.pos == old(scanner.pos) and scanner.start == old(scanner.start))',
                       'implies(result, scanner.pos > old(scanner.pos) and scanner.start == old(scanner.pos))',
                       # C10: a string is closed by the quote that opened it (the other kind of quote inside it does
                       # not end it), by a line break, or by the end of the input
                       'implies(result, is_quote(scanner.string[old(scanner.pos)]) and (scanner.pos == scanner.end or '
                       '        (scanner.pos >= old(scanner.pos) + 2 and scanner.string[scanner.pos - 1] == scanner.string[old(scanner.pos)]) or '
                       "        scanner.string[scanner.pos - 1] == '\\n' or scanner.string[scanner.pos - 1] == '\\r'))"],
   modifies=['scanner.pos', 'scanner.start'],
   loops={0: {'anchor': 'while not scanner.eof()',
              'invariant': ['old(scanner.pos) < scanner.pos', 'scanner.pos <= scanner.end',
                            'scanner.start == old(scanner.pos)'],
              'decreases': 'scanner.end - scanner.pos'}})

fn('emmet.css_matcher.scan:is_known_selector_colon', props=P,
   params={'scanner': 'Scanner', 'state': 'ScanState'}, returns='int|bool',
   requires=['wf(scanner)'],
   ensures=CONSUMER + ['implies(not result, scanner.pos == old(scanner.pos))'],
   modifies=['scanner.pos'])

# ---------------------------------------------------------------------------------------
# scan(): the callback contract is where C16's "every reported range is well-formed" lives
# ---------------------------------------------------------------------------------------
CSS_CALLBACK = {
    'param': 'callback',
    'args': ['token_type', 'start', 'end', 'delimiter'],
    'requires': ['0 <= start', 'start <= end', 'end <= len(source)',
                 'delimiter == -1 or (0 <= delimiter and delimiter < len(source))',
                 # a token ends at or before its delimiter character (an empty selector `{` and a block
                 # end `}` end right after it)
                 'delimiter == -1 or end <= delimiter + 1',
                 # what each token type stands for (action_utils builds sections and properties from it)
                 "token_type == 'selector' or token_type == 'propertyName' or token_type == 'propertyValue' "
                 "or token_type == 'blockEnd'",
                 # a selector is delimited by its `{`, a block end is the `}` itself
                 "implies(token_type == 'selector', delimiter != -1 and source[delimiter] == '{')",
                 "implies(token_type == 'blockEnd', delimiter == start and end == start + 1 and source[start] == '}')",
                 # a value ends at `;`, at the `}` that closes the block, or with the source
                 "implies(token_type == 'propertyValue' and delimiter != -1, source[delimiter] == ';' or source[delimiter] == '}')",
                 # names and values end before their delimiter character
                 "implies(token_type == 'propertyName' or token_type == 'propertyValue', delimiter == -1 or end <= delimiter)",
                 # tokens come in document order: nothing starts before the previous token (or its delimiter) ended
                 'g_last <= start',
                 # only the token that ends with the source has no delimiter: nothing is reported after it
                 'not g_final',
                 # ... and, except for the `}` that doubles as the delimiter of the value before it, every
                 # token starts after the previous token's delimiter character
                 "token_type == 'blockEnd' or g_delim < start",
                 # a value is reported right after its name
                 "implies(token_type == 'propertyValue', g_prev == 'propertyName')"],
    'ghost_update': [('g_last', 'max(end, delimiter)'), ('g_final', 'delimiter == -1'), ('g_delim', 'delimiter'),
                     ('g_prev', 'token_type')],
    'returns': 'any',
}

define('css_state_ok', ['state', 'pos'],
       '((state.start == -1 and state.end == -1) or (0 <= state.start and state.start <= state.end and state.end <= pos))'
       ' and (state.property_start == -1 or (0 <= state.property_start and state.property_start <= state.property_end'
       '      and state.property_end <= state.property_delimiter and state.property_delimiter < pos))'
       # a token consumed after a delimiter starts after that delimiter
       ' and (state.property_start == -1 or state.start == -1 or state.property_delimiter < state.start)')

fn('emmet.css_matcher.scan:scan', props=P,
   params={'source': 'str', 'callback': 'fn'}, returns='none',
   requires=[],
   ensures=[],
   modifies=[],
   callback=CSS_CALLBACK,
   ghost={'g_last': ('int', '0'), 'g_final': ('bool', 'False'), 'g_delim': ('int', '-1'), 'g_prev': ('str', "''")},
   loops={0: {'anchor': 'while not scanner.eof()',
              'invariant': ['wf(scanner)', 'scanner.pos <= scanner.end', 'scanner.end == len(source)',
                            'same_str(scanner.string, source)',
                            'css_state_ok(state, scanner.pos)',
                            'g_last <= scanner.pos', 'not g_final', 'g_delim < scanner.pos',
                            'state.start == -1 or g_delim < state.start',
                            'state.property_start == -1 or g_delim < state.property_start',
                            'state.start == -1 or g_last <= state.start',
                            'state.property_start == -1 or g_last <= state.property_start'],
              'decreases': 'scanner.end - scanner.pos'}})
fn('emmet.css_matcher.scan:scan.<locals>.notify', inline=True, props=P)

# ---------------------------------------------------------------------------------------
# parse.py
# ---------------------------------------------------------------------------------------
fn('emmet.css_matcher.parse:is_operator', inline=True, pure=True, props=P)

fn('emmet.css_matcher.parse:is_minus_operator', props=P,
   params={'scanner': 'Scanner'}, returns='bool',
   requires=['wf(scanner)'],
   ensures=CONSUMER + ['implies(not result, scanner.pos == old(scanner.pos))',
                       'implies(result, scanner.pos == old(scanner.pos) + 2)'],
   modifies=['scanner.pos'])

define('range_in', ['r', 'lo', 'hi'], 'lo <= r[0] and r[0] <= r[1] and r[1] <= hi')

fn('emmet.css_matcher.parse:split_value', props=P,
   params={'value': 'str', 'offset': 'int'}, returns='list[tuple[int,int]]',
   requires=[],
   ensures=['fresh(result)',
            'forall(0, len(result), lambda i: range_in(result[i], offset, offset + len(value)))'],
   modifies=[],
   locals={'result': 'list[tuple[int,int]]'},
   loops={0: {'anchor': 'while not scanner.eof()',
              'invariant': ['wf(scanner)', 'scanner.pos <= scanner.end', 'scanner.end == len(value)',
                            'fresh(result)',
                            'start == -1 or (0 <= start and start < scanner.pos)',
                            'forall(0, len(result), lambda i: range_in(result[i], offset, offset + len(value)))'],
              'decreases': 'scanner.end - scanner.pos'}})

# ---------------------------------------------------------------------------------------
# __init__.py helpers
# ---------------------------------------------------------------------------------------
fn('emmet.css_matcher:inner_range', props=P,
   params={'source': 'str', 'start': 'int', 'end': 'int'}, returns='tuple[int,int]|None',
   # weakest precondition for index safety of source[start] / source[end - 1]
   requires=['0 <= start', 'end <= len(source)'],
   ensures=['result is None or (old(start) <= result[0] and result[0] < result[1] and result[1] <= old(end))'],
   modifies=[],
   loops={0: {'anchor': 'while start < end and is_space(source[start])',
              'invariant': ['old(start) <= start', 'end == old(end)', 'start <= max(old(start), end)'],
              'decreases': 'end - start'},
          1: {'anchor': 'while end and end > start and is_space(source[end - 1])',
              'invariant': ['old(start) <= start', 'end <= old(end)', 'start <= max(old(start), old(end))',
                            'end >= min(start, old(end))'],
              'decreases': 'end'}})

# ---------------------------------------------------------------------------------------
# match / balanced_*: closures over pooled range lists (DESIGN.md 1.5)
# ---------------------------------------------------------------------------------------
cls('emmet.css_matcher:MatchResult',
    fields={'type': 'str', 'start': 'int', 'end': 'int', 'body_start': 'int|None', 'body_end': 'int|None'})
fn('emmet.css_matcher:MatchResult.__init__', inline=True, props=P)
fn('emmet.css_matcher:alloc_range', inline=True, props=P)
fn('emmet.css_matcher:release_range', inline=True, props=P)

# a pooled token [start, end, delimiter] as the scanner reported it
define('tok_ok', ['t', 'n'],
       'len(t) == 3 and 0 <= t[0] and t[0] <= t[1] and t[1] <= n and (t[2] == -1 or (0 <= t[2] and t[2] < n))')
define('match_ok', ['m', 'n'],
       '0 <= m.start and m.start <= m.end and m.end <= n and m.body_start is not None and m.body_end is not None '
       'and 0 <= m.body_start and m.body_end <= n '
       "and (m.type != 'property' or m.body_start <= m.body_end)")

CB_PARAMS = {'token_type': 'str', 'start': 'int', 'end': 'int', 'delimiter': 'int'}
# what scan() promises about each token (its callback contract); the closures rely on nothing else
CB_REQ = list(CSS_CALLBACK['requires'])
CB_GHOST = list(CSS_CALLBACK['ghost_update'])
GHOSTS = {'g_last': 'int', 'g_final': 'bool', 'g_delim': 'int', 'g_prev': 'str'}
# a selector waiting on the stack: [start, end, position of its `{`]; the `{` lies before anything reported later
define('sel_open', ['t', 'source', 'g_last'],
       "tok_ok(t, len(source)) and 0 <= t[2] and source[t[2]] == '{' and t[2] <= g_last and t[0] <= t[2] + 1")
# a rule spans from its selector to its closing brace with the body between the braces; a declaration spans from
# its name to its terminator with the value as body; both strictly contain the position
define('match_exact', ['m', 'source', 'pos'],
       "m.start < pos and pos < m.end and (m.type == 'selector' or m.type == 'property') and "
       'm.body_start is not None and m.body_end is not None and '
       'm.start <= m.body_start and m.body_start <= m.body_end and m.body_end <= m.end and '
       "(m.type != 'selector' or (m.body_end + 1 == m.end and source[m.body_start - 1] == '{' and source[m.body_end] == '}'))")

MATCH_CAP = {'pool': 'list[list[int]]', 'stack': 'list[list[int]]', 'result': 'list[MatchResult|None]',
             'pending_property': 'list[list[int]|None]', 'pos': 'int', 'source': 'str', **GHOSTS}
MATCH_INV = ['len(result) == 1', 'len(pending_property) == 1', 'pool is not stack',
             # ownership: everything the closure writes was allocated by this call of match()
             'owned(pool) and owned(stack) and owned(result) and owned(pending_property)',
             'forall(0, len(stack), lambda i: owned(stack[i]))', 'forall(0, len(pool), lambda i: owned(pool[i]))',
             'pending_property[0] is None or owned(pending_property[0])',
             'result[0] is None or owned(result[0])',
             # pooling discipline: a token list is in at most one place (a recycled list must not be a waiting selector)
             'forall(0, len(pool), lambda i: forall(0, i, lambda j: pool[i] is not pool[j]))',
             'forall(0, len(stack), lambda i: forall(0, len(pool), lambda j: stack[i] is not pool[j]))',
             'pending_property[0] is None or forall(0, len(stack), lambda i: stack[i] is not pending_property[0])',
             'pending_property[0] is None or forall(0, len(pool), lambda i: pool[i] is not pending_property[0])',
             'forall(0, len(stack), lambda i: sel_open(stack[i], source, g_last))',
             'forall(0, len(pool), lambda i: len(pool[i]) == 3)',
             'pending_property[0] is None or (tok_ok(pending_property[0], len(source)) and pending_property[0][1] <= g_last)',
             'result[0] is None or match_ok(result[0], len(source))',
             'result[0] is None or match_exact(result[0], source, pos)']

fn('emmet.css_matcher:match.<locals>.release_pending', inline=True, props=P)
fn('emmet.css_matcher:match.<locals>.scan_callback', props=P,
   params=CB_PARAMS, returns='bool|None', captures=MATCH_CAP,
   requires=CB_REQ, closure_invariant=MATCH_INV, modifies=['owned'], ghost_update=CB_GHOST)

fn('emmet.css_matcher:match', props=P,
   params={'source': 'str', 'pos': 'int'}, returns='MatchResult|None',
   requires=[],
   ensures=['result is None or match_ok(result, len(source))',
            'result is None or match_exact(result, source, pos)'],
   modifies=[], allocates=True,
   locals={'pool': 'list[list[int]]', 'stack': 'list[list[int]]', 'result': 'list[MatchResult|None]',
           'pending_property': 'list[list[int]|None]'})

fn('emmet.css_matcher:push', inline=True, props=P)

OUT_CAP = {'pool': 'list[list[int]]', 'stack': 'list[list[int]]', 'result': 'list[tuple[int,int]]',
           'prop': 'list[list[int]|None]', 'pos': 'int', 'source': 'str', **GHOSTS}
OUT_INV = ['len(prop) == 1', 'pool is not stack',
           'owned(pool) and owned(stack) and owned(result) and owned(prop)',
           'forall(0, len(stack), lambda i: owned(stack[i]))', 'forall(0, len(pool), lambda i: owned(pool[i]))',
           'prop[0] is None or owned(prop[0])',
           'forall(0, len(stack), lambda i: tok_ok(stack[i], len(source)))',
           'forall(0, len(pool), lambda i: len(pool[i]) == 3)',
           'prop[0] is None or tok_ok(prop[0], len(source))',
           'forall(0, len(result), lambda i: range_in(result[i], 0, len(source)))']

fn('emmet.css_matcher:balanced_outward.<locals>.scan_callback', props=P,
   params=CB_PARAMS, returns='bool|None', captures=OUT_CAP,
   requires=CB_REQ, closure_invariant=OUT_INV, modifies=['owned'], ghost_update=CB_GHOST)

fn('emmet.css_matcher:balanced_outward', props=P,
   params={'source': 'str', 'pos': 'int'}, returns='list[tuple[int,int]]',
   requires=[],
   ensures=['forall(0, len(result), lambda i: range_in(result[i], 0, len(source)))'],
   modifies=[], allocates=True,
   locals={'pool': 'list[list[int]]', 'stack': 'list[list[int]]', 'result': 'list[tuple[int,int]]',
           'prop': 'list[list[int]|None]'})
