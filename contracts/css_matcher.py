"""Contracts: emmet/css_matcher/{scan,parse,__init__}.py  (C16, C10)."""
from pyvc.contracts import fn, cls, define

P = ['C16', 'C10', 'C17']

cls('emmet.css_matcher.scan:ScanState',
    fields={'start': 'int', 'end': 'int', 'property_delimiter': 'int', 'property_start': 'int',
            'property_end': 'int', 'expression': 'int'})
fn('emmet.css_matcher.scan:ScanState.__init__', inline=True, props=P)
fn('emmet.css_matcher.scan:ScanState.reset', inline=True, props=P)

# consumer contract shared by the leaf consumers: they never move backwards, never end up
# beyond max(entry position, end), and report failure only without having consumed anything
CONSUMER = ['old(scanner.pos) <= scanner.pos',
            'scanner.pos <= max(old(scanner.pos), scanner.end)']

fn('emmet.css_matcher.scan:whitespace', props=P,
   params={'scanner': 'Scanner'}, returns='bool',
   requires=['wf(scanner)'],
   ensures=CONSUMER + ['result == (scanner.pos > old(scanner.pos))'],
   modifies=['scanner.pos'])

fn('emmet.css_matcher.scan:comment', props=P,
   params={'scanner': 'Scanner'}, returns='bool',
   requires=['wf(scanner)'],
   ensures=CONSUMER + ['implies(not result, scanner.pos == old(scanner.pos) and scanner.start == old(scanner.start))',
                       'implies(result, scanner.pos >= old(scanner.pos) + 2 and scanner.start == old(scanner.pos))'],
   modifies=['scanner.pos', 'scanner.start'],
   loops={0: {'anchor': 'while not scanner.eof()',
              'invariant': ['old(scanner.pos) + 2 <= scanner.pos', 'scanner.pos <= scanner.end',
                            'scanner.start == old(scanner.pos)'],
              'decreases': 'scanner.end - scanner.pos'}})

fn('emmet.css_matcher.scan:literal', props=P,
   params={'scanner': 'Scanner'}, returns='bool|None',
   requires=['wf(scanner)'],
   ensures=CONSUMER + ['implies(not result, scanner.pos == old(scanner.pos) and scanner.start == old(scanner.start))',
                       'implies(result, scanner.pos > old(scanner.pos) and scanner.start == old(scanner.pos))'],
   modifies=['scanner.pos', 'scanner.start'],
   loops={0: {'anchor': 'while not scanner.eof()',
              'invariant': ['old(scanner.pos) < scanner.pos', 'scanner.pos <= scanner.end',
                            'scanner.start == old(scanner.pos)'],
              'decreases': 'scanner.end - scanner.pos'}})

fn('emmet.css_matcher.scan:is_known_selector_colon', props=P,
   params={'scanner': 'Scanner', 'state': 'ScanState'}, returns='int|bool',
   requires=['wf(scanner)'],
   ensures=CONSUMER + ['implies(not result, scanner.pos == old(scanner.pos))'],
   modifies=['scanner.pos'])

# ---------------------------------------------------------------------------------------
# scan(): the callback contract is where C16's "every reported range is well-formed" lives
# ---------------------------------------------------------------------------------------
CSS_CALLBACK = {
    'param': 'callback',
    'args': ['token_type', 'start', 'end', 'delimiter'],
    'requires': ['0 <= start', 'start <= end', 'end <= len(source)',
                 'delimiter == -1 or (0 <= delimiter and delimiter < len(source))'],
    'returns': 'any',
}

define('css_state_ok', ['state', 'pos'],
       '((state.start == -1 and state.end == -1) or (0 <= state.start and state.start <= state.end and state.end <= pos))'
       ' and (state.property_start == -1 or (0 <= state.property_start and state.property_start <= state.property_end'
       '      and state.property_end <= state.property_delimiter and state.property_delimiter < pos))'
       # a token consumed after a delimiter starts after that delimiter
       ' and (state.property_start == -1 or state.start == -1 or state.property_delimiter < state.start)')

fn('emmet.css_matcher.scan:scan', props=P,
   params={'source': 'str', 'callback': 'fn'}, returns='none',
   requires=[],
   ensures=[],
   modifies=[],
   callback=CSS_CALLBACK,
   loops={0: {'anchor': 'while not scanner.eof()',
              'invariant': ['wf(scanner)', 'scanner.pos <= scanner.end', 'scanner.end == len(source)',
                            'same_str(scanner.string, source)',
                            'css_state_ok(state, scanner.pos)'],
              'decreases': 'scanner.end - scanner.pos'}})
fn('emmet.css_matcher.scan:scan.<locals>.notify', inline=True, props=P)
