"""Contracts: emmet/extract_abbreviation/*  (C11)."""
from pyvc.contracts import fn, cls, define, rec

P = ['C11']
R = 'emmet.extract_abbreviation.reader'
E = 'emmet.extract_abbreviation'
H = 'emmet.extract_abbreviation.is_html'

cls(R + ':BackwardScanner', fields={'text': 'str', 'start': 'int', 'pos': 'int'})
cls(E + ':ExtractedAbbreviation', fields={'abbreviation': 'str', 'location': 'int', 'start': 'int', 'end': 'int'})
fn(R + ':BackwardScanner.__init__', inline=True, props=P)
fn(E + ':ExtractedAbbreviation.__init__', inline=True, props=P)
fn(R + ':BackwardScanner.sol', inline=True, pure=True, props=P)
fn(R + ':BackwardScanner.peek', inline=True, pure=True, props=P)

# well-formed backward scanner: the cursor never leaves [start, len(text)]
define('bwf', ['s'], '0 <= s.start and s.start <= s.pos and s.pos <= len(s.text)')
define('bpeek', ['s'], "s.text[s.pos - 1] if (0 <= s.pos - 1 and s.pos - 1 < len(s.text)) else ''")

fn(R + ':BackwardScanner.previous', props=P,
   params={'self': 'BackwardScanner'}, returns='char|None',
   requires=['bwf(self)'],
   ensures=['implies(old(self.pos) == self.start, result is None and self.pos == old(self.pos))',
            'implies(old(self.pos) != self.start, result == old(bpeek(self)) and self.pos == old(self.pos) - 1)'],
   modifies=['self.pos'])

fn(R + ':BackwardScanner.consume', props=P,
   params={'self': 'BackwardScanner', 'match': 'echar|pred'}, returns='bool',
   requires=['bwf(self)'],
   ensures=['result == (old(self.pos) != self.start and holds(match, old(bpeek(self))))',
            'self.pos == old(self.pos) - (1 if result else 0)'],
   modifies=['self.pos'])

fn(R + ':BackwardScanner.consume_while', props=P,
   params={'self': 'BackwardScanner', 'match': 'echar|pred'}, returns='bool',
   requires=['bwf(self)'],
   ensures=['self.start <= self.pos', 'self.pos <= old(self.pos)', 'result == (self.pos < old(self.pos))',
            'chars_hold(self.text, self.pos, old(self.pos), match)'],
   modifies=['self.pos'],
   loops={0: {'anchor': 'while self.consume(match)',
              'invariant': ['self.start <= self.pos', 'self.pos <= start', 'start == old(self.pos)',
                            'chars_hold(self.text, self.pos, start, match)'],
              'decreases': 'self.pos - self.start + 1'}})

# ---------------------------------------------------------------------------------------
# is_html.py: the tag-end heuristic is an observer: it leaves the cursor where it was
# ---------------------------------------------------------------------------------------
for _p in ('is_ident', 'is_white_space', 'is_unquoted_value', 'is_open_bracket', 'is_close_bracket'):
    fn('%s:%s' % (H, _p), inline=True, pure=True, props=P)

BACK = ['scanner.start <= scanner.pos', 'scanner.pos <= old(scanner.pos)']
BFAIL = 'implies(not result, scanner.pos == old(scanner.pos)) and implies(result, scanner.pos < old(scanner.pos))'

fn(H + ':consume_ident', props=P, params={'scanner': 'BackwardScanner'}, returns='bool',
   requires=['bwf(scanner)'], ensures=BACK + [BFAIL], modifies=['scanner.pos'])
fn(H + ':consume_quoted', props=P, params={'scanner': 'BackwardScanner'}, returns='bool',
   requires=['bwf(scanner)'],
   # a quoted value is closed by the quote that opened it: what is consumed starts and ends with the same quote
   # character (the other kind of quote inside the value does not end it) and is at least two characters long
   ensures=BACK + [BFAIL,
                   'implies(result, scanner.pos + 2 <= old(scanner.pos) and is_quote(scanner.text[old(scanner.pos) - 1]) '
                   '        and scanner.text[scanner.pos] == scanner.text[old(scanner.pos) - 1])'],
   modifies=['scanner.pos'],
   loops={0: {'anchor': 'while not scanner.sol()',
              'invariant': ['scanner.start <= scanner.pos', 'scanner.pos < start', 'start == old(scanner.pos)'],
              'decreases': 'scanner.pos - scanner.start'}})
fn(H + ':consume_attribute_with_quoted_value', props=P, params={'scanner': 'BackwardScanner'}, returns='bool',
   requires=['bwf(scanner)'], ensures=BACK + [BFAIL], modifies=['scanner.pos'])
fn(H + ':consume_attribute_with_unquoted_value', props=P, params={'scanner': 'BackwardScanner'}, returns='bool',
   requires=['bwf(scanner)'], ensures=BACK + [BFAIL], modifies=['scanner.pos'], allocates=True,
   locals={'stack': 'list[echar]'},
   loops={0: {'anchor': 'while not scanner.sol()',
              'invariant': ['scanner.start <= scanner.pos', 'scanner.pos <= start', 'start == old(scanner.pos)',
                            'fresh(stack)'],
              'decreases': 'scanner.pos - scanner.start'}})
fn(H + ':consume_attribute', props=P, params={'scanner': 'BackwardScanner'}, returns='bool',
   requires=['bwf(scanner)'], ensures=BACK + [BFAIL], modifies=['scanner.pos'], allocates=True)

fn(H + ':is_html', props=P, params={'scanner': 'BackwardScanner'}, returns='bool',
   requires=['bwf(scanner)'],
   ensures=['scanner.pos == old(scanner.pos)'],
   modifies=['scanner.pos'], allocates=True,
   locals={'ok': 'bool'},
   loops={0: {'anchor': 'while not scanner.sol()',
              'invariant': ['scanner.start <= scanner.pos', 'scanner.pos < start', 'start == old(scanner.pos)'],
              'decreases': 'scanner.pos - scanner.start + 1'}})

# ---------------------------------------------------------------------------------------
# __init__.py
# ---------------------------------------------------------------------------------------
rec('ExtractOpt', {'type': 'any', 'lookAhead': 'any', 'prefix': 'str'})
rec('ExtractOptIn', {'type': 'any', 'lookAhead': 'any', 'prefix': 'str'}, optional=True)

for _p in ('is_abbreviation', 'is_open_brace', 'is_close_brace'):
    fn('%s:%s' % (E, _p), inline=True, pure=True, props=P)

fn(E + ':create_options', props=P, params={'opt': 'rec:ExtractOptIn|None'}, returns='rec:ExtractOpt',
   requires=[],
   ensures=['fresh(result)',
            "implies(opt is not None and 'prefix' in opt, same_str(result['prefix'], opt['prefix']))",
            "implies(opt is None or 'prefix' not in opt, result['prefix'] == '')"],
   modifies=[], locals={'options': 'rec:ExtractOpt'})

fn(E + ':offset_past_auto_closed', props=P,
   params={'line': 'str', 'pos': 'int', 'options': 'rec:ExtractOpt'}, returns='int',
   requires=['0 <= pos', 'pos <= len(line)'],
   # look-ahead moves the end only across one quote (as the very next character) and closing brackets
   ensures=['old(pos) <= result', 'result <= len(line)',
            'forall(old(pos) + 1, result, lambda i: is_close_brace(line[i], options.get("type")))',
            'result == old(pos) or is_quote(line[old(pos)]) or is_close_brace(line[old(pos)], options.get("type"))'],
   modifies=[],
   loops={0: {'anchor': "while pos < len(line) and is_close_brace(line[pos], options.get('type'))",
              'invariant': ['old(pos) <= pos', 'pos <= len(line)',
                            'forall(old(pos) + 1, pos, lambda i: is_close_brace(line[i], options.get("type")))',
                            'pos == old(pos) or is_quote(line[old(pos)]) or is_close_brace(line[old(pos)], options.get("type"))'],
              'decreases': 'len(line) - pos'}})

fn(E + ':consume_pair', props=P,
   params={'scanner': 'BackwardScanner', 'close_ch': 'char', 'open_ch': 'char'}, returns='bool',
   requires=['bwf(scanner)'], ensures=BACK + [BFAIL], modifies=['scanner.pos'],
   loops={0: {'anchor': 'while not scanner.sol()',
              'invariant': ['scanner.start <= scanner.pos', 'scanner.pos < start', 'start == old(scanner.pos)'],
              'decreases': 'scanner.pos - scanner.start'}})

fn(E + ':consume_list', props=P,
   params={'scanner': 'BackwardScanner', 'arr': 'str'}, returns='bool',
   requires=['bwf(scanner)'],
   ensures=BACK + [BFAIL,
                   # on success exactly the characters of `arr` were consumed
                   'implies(result, scanner.pos == old(scanner.pos) - len(arr) and len(arr) >= 1 and '
                   ' forall(0, len(arr), lambda k: scanner.text[scanner.pos + k] == arr[k]))'],
   modifies=['scanner.pos'],
   locals={'consumed': 'bool'},
   loops={0: {'anchor': 'while i >= 0 and (not scanner.sol())',
              'invariant': ['scanner.start <= scanner.pos', 'start == old(scanner.pos)', '-1 <= i', 'i <= len(arr) - 1',
                            'scanner.pos == start - (len(arr) - 1 - i)',
                            'consumed == (i == -1 and len(arr) >= 1)',
                            'forall(i + 1, len(arr), lambda k: scanner.text[start - len(arr) + k] == arr[k])'],
              'decreases': 'i + 1'}})

fn(E + ':get_start_offset', props=P,
   params={'line': 'str', 'pos': 'int', 'prefix': 'str'}, returns='int',
   requires=['0 <= pos', 'pos <= len(line)'],
   ensures=['result == -1 or (0 <= result and result <= pos)',
            'implies(len(prefix) == 0, result == 0)',
            # a found offset is right after an occurrence of the prefix
            'implies(result != -1 and len(prefix) > 0, result >= len(prefix) and '
            ' forall(0, len(prefix), lambda k: line[result - len(prefix) + k] == prefix[k]))'],
   modifies=[], allocates=True,
   loops={0: {'anchor': 'while not scanner.sol()',
              'invariant': ['bwf(scanner)', 'scanner.start == 0', 'scanner.pos <= pos', 'same_str(scanner.text, line)',
                            'fresh(scanner)'],
              'decreases': 'scanner.pos'}})

define('cpos', ['line', 'pos'], 'len(line) if pos is None else min(len(line), max(0, pos))')

fn(E + ':extract_abbreviation', props=P,
   params={'line': 'str', 'pos': 'int|None', 'options': 'rec:ExtractOptIn|None'}, returns='ExtractedAbbreviation|None',
   requires=[],
   # C11, first sentence: a result is consistent with the line
   ensures=['result is None or (0 <= result.start and result.start <= result.location and '
            '                   result.location <= result.end and result.end <= len(line))',
            'result is None or same_str(result.abbreviation, line[result.location:result.end])',
            "result is None or len(result.abbreviation) == 0 or not (result.abbreviation[0] in '>+^*')",
            # look-ahead moves the end only across one quote (as the next character) and closing brackets;
            # without look-ahead the end is the (clamped) position.  `opt` is the function's own option record.
            'result is None or (cpos(line, old(pos)) <= result.end and '
            ' forall(cpos(line, old(pos)) + 1, result.end, lambda i: is_close_brace(line[i], opt.get("type"))) and '
            ' (result.end == cpos(line, old(pos)) or is_quote(line[cpos(line, old(pos))]) or '
            '  is_close_brace(line[cpos(line, old(pos))], opt.get("type"))))',
            'result is None or opt.get("lookAhead") or result.end == cpos(line, old(pos))',
            # a configured prefix is the text found at `start`, the abbreviation is to its right
            "implies(result is not None and options is not None and 'prefix' in options and len(options['prefix']) > 0, "
            " result.start + len(options['prefix']) <= result.location and "
            " forall(0, len(options['prefix']), lambda k: line[result.start + k] == options['prefix'][k]))"],
   modifies=[], allocates=True,
   locals={'stack': 'list[echar]'},
   loops={0: {'anchor': 'while not scanner.sol()',
              'invariant': ['bwf(scanner)', 'scanner.start == start', 'scanner.pos <= pos', 'same_str(scanner.text, line)',
                            'fresh(scanner)', 'fresh(stack)', '0 <= pos', 'pos <= len(line)', '0 <= start'],
              'decreases': 'scanner.pos - scanner.start'}})
